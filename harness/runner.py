"""./check <ID> [--tier quick|thorough] [--replay FILE] [--arm NAME] [--procs N]

Exit 0: property held on everything explored (KNOWN-FINDING lines possible).
Exit 1: `VIOLATION property=<ID> replay=<path>` printed for an unlisted violation.
Exit 2: harness error (never reported as a violation).
"""

import argparse
import concurrent.futures
import glob
import importlib
import json
import multiprocessing
import os
import sys
import time
import traceback

HERE = os.path.dirname(os.path.abspath(__file__))
VERIF = os.path.dirname(HERE)
if VERIF not in sys.path:
  sys.path.insert(0, VERIF)


def _reexec():
  if os.environ.get('PYTHONHASHSEED') != '0':
    env = dict(os.environ)
    env['PYTHONHASHSEED'] = '0'
    os.execve(sys.executable, [sys.executable, '-m', 'harness.runner'] + sys.argv[1:], env)


def main():
  _reexec()
  from harness import boot, core  # pylint: disable=g-import-not-at-top
  ap = argparse.ArgumentParser()
  ap.add_argument('prop')
  ap.add_argument('--tier', default=os.environ.get('VERIF_TIER', 'quick'),
                  choices=['quick', 'thorough'])
  ap.add_argument('--replay')
  ap.add_argument('--arm', action='append')
  ap.add_argument('--procs', type=int, default=int(os.environ.get('VERIF_PROCS', '16')))
  ap.add_argument('--scale', type=float, default=float(os.environ.get('VERIF_SCALE', '1')))
  ap.add_argument('--no-evidence', action='store_true')
  args = ap.parse_args()
  prop_id = args.prop.upper()
  try:
    seed = int(os.environ.get('VERIF_SEED', '1'))
  except ValueError:
    seed = 1
  t0 = time.time()
  try:
    gen = boot.build()
    os.environ['VERIF_GEN'] = gen
    boot.attach(gen)
    module = importlib.import_module('props.' + prop_id.lower())
  except BaseException as e:  # pylint: disable=broad-except
    sys.stderr.write('HARNESS-ERROR %s: %r\n%s\n' % (prop_id, e, traceback.format_exc()))
    sys.exit(2)
  listed = core.load_known(prop_id)
  arms = {a.name: a for a in module.ARMS}

  def report_violation(v, path=None):
    if path is None:
      d = os.path.join(VERIF, 'out', 'violations', prop_id)
      os.makedirs(d, exist_ok=True)
      path = os.path.join(d, '%s-%s.json' % (v['arm'], core.dhash(v['desc'])))
      with open(path, 'w') as f:
        json.dump({'property': prop_id, 'arm': v['arm'], 'desc': v['desc'],
                   'clause': v['clause'], 'detail': v.get('detail')}, f,
                  indent=1, default=str)
    print('VIOLATION property=%s replay=%s' % (prop_id, path))
    print('  arm=%s clause=%s detail=%s' % (
        v['arm'], v['clause'], json.dumps(v.get('detail'), default=str)[:1500]))
    sys.stdout.flush()

  # ---- replay mode
  if args.replay:
    with open(args.replay) as f:
      rp = json.load(f)
    arm = arms[rp['arm']]
    try:
      kind, res = core.run_one(module, arm, rp['desc'], listed)
    except BaseException as e:  # pylint: disable=broad-except
      sys.stderr.write('HARNESS-ERROR %s replay: %r\n%s\n' % (prop_id, e, traceback.format_exc()))
      sys.exit(2)
    if kind == 'violation':
      report_violation({'arm': arm.name, 'desc': rp['desc'], 'clause': res.clause,
                        'detail': core.abbrev(res.detail)}, args.replay)
      sys.exit(1)
    if kind == 'known':
      print('KNOWN-FINDING: property=%s %s (%s)' % (prop_id, res[0], res[1].clause))
    else:
      print('replay passes: %s' % json.dumps(core.abbrev(res), default=str)[:500])
    sys.exit(0)

  total = core.Stats()
  violations = []
  errors = []
  arm_stats = {}

  # ---- replay tier: committed regression inputs first
  replayed = 0
  for path in sorted(glob.glob(os.path.join(VERIF, 'replays', prop_id, '*.json'))):
    with open(path) as f:
      rp = json.load(f)
    if rp['arm'] not in arms:
      errors.append('replay %s names unknown arm %s' % (path, rp['arm']))
      continue
    arm = arms[rp['arm']]
    try:
      kind, res = core.run_one(module, arm, rp['desc'], listed)
    except BaseException as e:  # pylint: disable=broad-except
      errors.append('replay %s: %r\n%s' % (path, e, traceback.format_exc()[-2000:]))
      continue
    replayed += 1
    if kind == 'violation':
      violations.append({'arm': arm.name, 'desc': rp['desc'], 'clause': res.clause,
                         'detail': core.abbrev(res.detail), 'path': path})
    elif kind == 'known':
      total.known[res[0]] += 1
      total.known_witness.setdefault(res[0], {'arm': arm.name, 'case': core.abbrev(rp['desc']),
                                              'clause': res[1].clause, 'replay': path})
    else:
      total.record(arm.name + '(replay)', rp['desc'], res)

  # ---- generated tier
  tasks = []
  for a in module.ARMS:
    if args.arm and a.name not in args.arm:
      continue
    if args.scale != 1 and a.enumerate is None:
      a.quick = max(1, int(a.quick * args.scale))
      a.thorough = max(1, int(a.thorough * args.scale))
    n = a.quick if args.tier == 'quick' else a.thorough
    if a.enumerate is None and n <= 0:
      continue
    nshards = max(1, min(a.shards, args.procs if a.enumerate is not None else n))
    for s in range(nshards):
      tasks.append((a.weight, (prop_id, a.name, args.tier, seed, s, nshards)))
  tasks.sort(key=lambda t: -t[0])
  ctx = multiprocessing.get_context('fork')
  try:
    with concurrent.futures.ProcessPoolExecutor(max_workers=args.procs, mp_context=ctx) as ex:
      futs = [ex.submit(core.work, t[1]) for t in tasks]
      hard = float(os.environ.get('VERIF_HARD_TIMEOUT',
                                  '1500' if args.tier == 'quick' else '21600'))
      try:
        completed = list(concurrent.futures.as_completed(futs, timeout=hard))
      except concurrent.futures.TimeoutError:
        completed = [fu for fu in futs if fu.done()]
        errors.append('hard timeout of %.0fs reached; %d shards unfinished (harness problem, '
                      'not a violation)' % (hard, len(futs) - len(completed)))
        import signal  # pylint: disable=g-import-not-at-top
        for pid in list(getattr(ex, '_processes', {}).keys()):
          try:
            os.kill(pid, signal.SIGUSR1)
          except OSError:
            pass
        time.sleep(1)
        for pid in list(getattr(ex, '_processes', {}).keys()):
          try:
            os.kill(pid, signal.SIGKILL)
          except OSError:
            pass
      for fu in completed:
        try:
          r = fu.result()
        except BaseException as e:  # pylint: disable=broad-except
          errors.append('worker: %r' % (e,))
          continue
        if r['error']:
          errors.append('arm %s shard %d: %s' % (r['arm'], r['shard'], r['error']))
          continue
        total.merge(r['stats'])
        st = arm_stats.setdefault(r['arm'], core.Stats())
        st.merge(r['stats'])
        violations.extend(r['violations'])
  except BaseException as e:  # pylint: disable=broad-except
    if isinstance(e, KeyboardInterrupt):
      raise
    errors.append('worker pool: %r\n%s' % (e, traceback.format_exc()[-2000:]))

  wall = time.time() - t0
  # ---- dedup violations by (arm, clause): keep smallest descriptor
  best = {}
  for v in violations:
    k = (v['arm'], v['clause'])
    if k not in best or len(core.canon(v['desc'])) < len(core.canon(best[k]['desc'])):
      best[k] = v
  violations = list(best.values())

  # ---- evidence
  if not args.no_evidence and not args.arm:
    samples = list(total.samples.values())
    samples.sort(key=lambda s: (not s['outcome'].get('nt', False), s['arm']))
    ev = {
        'property_id': prop_id,
        'tier': args.tier,
        'seed': seed,
        'level': 'exploration',
        'coverage': {
            'evaluations': total.evaluations,
            'distinct_nontrivial': len(total.nt),
            'rule': module.RULE,
            'samples': samples[:24],
            'exhaustive': bool(all(a.exhaustive for a in module.ARMS)),
            'exhaustive_arms': [a.name for a in module.ARMS if a.exhaustive and a.name in arm_stats
                                and arm_stats[a.name].evaluations > 0 and not arm_stats[a.name].unexplored],
            'classes': dict(sorted(total.classes.items())),
            'per_arm': {
                name: {'evaluations': st.evaluations,
                       'distinct_nontrivial': len(st.nt),
                       'unexplored_budget': st.unexplored,
                       'max_shard_wall_s': round(st.wall, 1)}
                for name, st in sorted(arm_stats.items())},
            'replays_run': replayed,
            'known_finding_hits': dict(total.known),
            'known_finding_witnesses': total.known_witness,
            'unexplored_because_of_budget': total.unexplored,
            'harness_errors': len(errors),
            'repo': boot.REPO,
        },
        'assumptions': list(getattr(module, 'ASSUMPTIONS', [])),
        'wall_s': round(wall, 2),
        'violations': len(violations),
    }
    os.makedirs(os.path.join(VERIF, 'evidence'), exist_ok=True)
    tmp = os.path.join(VERIF, 'evidence', '.%s.json.tmp' % prop_id)
    with open(tmp, 'w') as f:
      json.dump(ev, f, indent=1, default=str, sort_keys=False)
    os.replace(tmp, os.path.join(VERIF, 'evidence', '%s.json' % prop_id))

  print('%s tier=%s seed=%d evaluations=%d distinct_nontrivial=%d unexplored=%d wall=%.1fs' % (
      prop_id, args.tier, seed, total.evaluations, len(total.nt), total.unexplored, wall))
  for name, st in sorted(arm_stats.items()):
    print('  arm %-28s eval=%-8d nt=%-8d unexplored=%-6d wall=%.1fs' % (
        name, st.evaluations, len(st.nt), st.unexplored, st.wall))
  known_desc = {e['id']: e for e in listed}
  for kid, cnt in sorted(total.known.items()):
    print('KNOWN-FINDING: property=%s %s %s (%d cases)' % (
        prop_id, kid, known_desc.get(kid, {}).get('what', ''), cnt))
  for v in violations:
    report_violation(v, v.get('path'))
  if errors:
    for e in errors:
      sys.stderr.write('HARNESS-ERROR %s: %s\n' % (prop_id, e))
  sys.stdout.flush()
  if violations:
    sys.exit(1)
  if errors:
    sys.exit(2)
  sys.exit(0)


if __name__ == '__main__':
  main()
