"""Bootstrap: makes the real paranoid_crypto code of the working tree importable.

The checkout has neither protoc output (paranoid_pb2, data_pb2) nor the
pybind11 extension (berlekamp_massey). Both are regenerated here from the
sources in the working tree of the repository (VERIF_REPO, default /repo) into
/verif/build/<content hash>/ and attached to the already imported packages by
extending their __path__. Nothing is written into the repository.
"""

import hashlib
import os
import shutil
import subprocess
import sys

VERIF = os.path.dirname(os.path.dirname(os.path.abspath(__file__)))
REPO = os.environ.get('VERIF_REPO', '/repo')
BUILD = os.path.join(VERIF, 'build')

_PROTOS = (
    ('paranoid_crypto/paranoid.proto', 'paranoid_crypto/paranoid.proto',
     'paranoid_crypto.paranoid_pb2', 'paranoid_crypto/paranoid_pb2.py'),
    ('paranoid_crypto/lib/data/data.proto', 'paranoid_crypto/lib/data/data.proto',
     'paranoid_crypto.lib.data.data_pb2', 'data/data_pb2.py'),
)
_BM_DIR = 'paranoid_crypto/lib/randomness_tests/cc_util'
_BM_SRC = _BM_DIR + '/berlekamp_massey.cc'
_BM_HDR = _BM_DIR + '/berlekamp_massey.h'

_SHIM = r'''
#include "paranoid_crypto/lib/randomness_tests/cc_util/berlekamp_massey.h"
#include <string>
extern "C" int verif_lfsr_length(const char* data, unsigned long len, int n) {
  return paranoid_crypto::lib::randomness_tests::cc_util::LfsrLengthStr(
      std::string(data, len), n);
}
'''

_PYBM = r'''
"""ctypes stand-in for the pybind11 module (same signature: LfsrLength(bytes, n))."""
import ctypes, os
_variant = os.environ.get('VERIF_BM_VARIANT', 'clmul')
_libs = {}
def _lib(variant):
  if variant not in _libs:
    l = ctypes.CDLL(os.path.join(os.path.dirname(__file__), 'libbm_%s.so' % variant))
    l.verif_lfsr_length.argtypes = [ctypes.c_char_p, ctypes.c_ulong, ctypes.c_int]
    l.verif_lfsr_length.restype = ctypes.c_int
    _libs[variant] = l
  return _libs[variant]
def LfsrLengthVariant(variant, seq, n):
  seq = bytes(seq)
  return _lib(variant).verif_lfsr_length(seq, len(seq), n)
def LfsrLength(seq, n):
  return LfsrLengthVariant(_variant, seq, n)
'''


class HarnessError(Exception):
  """Anything that is the harness' fault (exit code 2, never a violation)."""


def _read(rel):
  with open(os.path.join(REPO, rel), 'rb') as f:
    return f.read()


def _source_hash():
  h = hashlib.sha256()
  for rel in [p[0] for p in _PROTOS] + [_BM_SRC, _BM_HDR]:
    h.update(rel.encode())
    h.update(_read(rel))
  with open(os.path.join(os.path.dirname(__file__), 'protogen.py'), 'rb') as f:
    h.update(f.read())
  h.update(_SHIM.encode() + _PYBM.encode())
  return h.hexdigest()[:16]


def _compile_bm(gen):
  pyb = os.path.join(gen, 'pybind')
  os.makedirs(pyb, exist_ok=True)
  shim = os.path.join(pyb, 'shim.cc')
  with open(shim, 'w') as f:
    f.write(_SHIM)
  with open(os.path.join(pyb, 'berlekamp_massey.py'), 'w') as f:
    f.write(_PYBM)
  base = ['g++', '-O2', '-std=c++17', '-shared', '-fPIC', '-I', REPO, shim,
          os.path.join(REPO, _BM_SRC)]
  for variant, extra in (('clmul', ['-mpclmul', '-D__CLMUL__']), ('plain', [])):
    out = os.path.join(pyb, 'libbm_%s.so' % variant)
    r = subprocess.run(base + extra + ['-o', out], capture_output=True, text=True)
    if r.returncode != 0:
      raise HarnessError('compiling berlekamp_massey.cc (%s) failed:\n%s' %
                         (variant, r.stderr[-2000:]))
  # The CLMUL variant must really contain the carry-less multiply (the source
  # tests __CLMUL__, which compilers do not define under -mpclmul).
  dis = subprocess.run(['objdump', '-d', os.path.join(pyb, 'libbm_clmul.so')],
                       capture_output=True, text=True).stdout
  if 'pclmul' not in dis:
    raise HarnessError('CLMUL variant does not contain pclmulqdq')
  dis = subprocess.run(['objdump', '-d', os.path.join(pyb, 'libbm_plain.so')],
                       capture_output=True, text=True).stdout
  if 'pclmul' in dis:
    raise HarnessError('portable variant unexpectedly contains pclmulqdq')


def build():
  """Builds (if not yet built for the current sources) and returns the gen dir."""
  sys.path.insert(0, os.path.dirname(__file__))
  import protogen  # pylint: disable=g-import-not-at-top
  gen = os.path.join(BUILD, 'gen-' + _source_hash())
  if os.path.exists(os.path.join(gen, 'OK')):
    return gen
  tmp = gen + '.tmp%d' % os.getpid()
  shutil.rmtree(tmp, ignore_errors=True)
  os.makedirs(tmp)
  try:
    for src, name, mod, out in _PROTOS:
      outp = os.path.join(tmp, out)
      os.makedirs(os.path.dirname(outp), exist_ok=True)
      try:
        protogen.generate(os.path.join(REPO, src), name, mod, outp)
      except Exception as e:  # pylint: disable=broad-except
        raise HarnessError('protogen failed on %s: %r' % (src, e))
    _compile_bm(tmp)
    with open(os.path.join(tmp, 'OK'), 'w') as f:
      f.write('ok')
    try:
      os.rename(tmp, gen)
    except OSError:
      shutil.rmtree(tmp, ignore_errors=True)  # lost a race; other build is fine
  finally:
    shutil.rmtree(tmp, ignore_errors=True)
  # keep the build directory small: drop generations of other source states
  for d in os.listdir(BUILD):
    p = os.path.join(BUILD, d)
    if d.startswith('gen-') and p != gen and '.tmp' not in d:
      try:
        if os.path.getmtime(p) < os.path.getmtime(gen) - 3600:
          shutil.rmtree(p, ignore_errors=True)
      except OSError:
        pass
  return gen


_attached = False


def attach(gen=None):
  """Imports paranoid_crypto from REPO with the generated modules attached."""
  global _attached
  if _attached:
    return
  gen = gen or os.environ.get('VERIF_GEN') or build()
  os.environ['VERIF_GEN'] = gen
  if REPO not in sys.path:
    sys.path.insert(0, REPO)
  import paranoid_crypto  # pylint: disable=g-import-not-at-top
  if not os.path.abspath(paranoid_crypto.__file__).startswith(
      os.path.abspath(REPO) + os.sep):
    raise HarnessError('paranoid_crypto imported from %s, not from %s' %
                       (paranoid_crypto.__file__, REPO))
  paranoid_crypto.__path__.append(os.path.join(gen, 'paranoid_crypto'))
  import paranoid_crypto.lib.data as _d  # pylint: disable=g-import-not-at-top
  _d.__path__.append(os.path.join(gen, 'data'))
  import paranoid_crypto.lib.randomness_tests.cc_util.pybind as _p  # pylint: disable=g-import-not-at-top
  _p.__path__.append(os.path.join(gen, 'pybind'))
  from absl import logging as _l  # pylint: disable=g-import-not-at-top
  _l.set_verbosity(_l.FATAL)
  import logging as _pl  # pylint: disable=g-import-not-at-top
  _pl.disable(_pl.CRITICAL)
  # paranoid must be imported before ecdsa_sig_checks (circular import).
  from paranoid_crypto.lib import paranoid  # pylint: disable=g-import-not-at-top,unused-import
  _attached = True
