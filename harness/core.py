"""Core of the property-based checking harness.

A property module (props/cNN.py) exposes

  ID, TITLE, RULE (text: how cases are generated and what counts as non-trivial)
  ARMS: list of Arm
  KNOWN: dict finding-id -> predicate(arm_name, desc, violation) -> bool   (optional)

Each Arm has a pure function run(desc) that expands a JSON-serialisable case
descriptor deterministically, calls the library and evaluates the oracle. It
returns an info dict {'nt': bool, 'cls': [labels], ...} or raises Violation.
Descriptors come from a Hypothesis strategy (seeded from VERIF_SEED) or from a
finite enumeration. The shrunk failing descriptor is the replay file.
"""

import collections
import dataclasses
import hashlib
import json
import os
import time
import traceback
from typing import Any, Callable, Optional

from harness import boot

VERIF = boot.VERIF


class Violation(Exception):
  """The oracle rejected the library's behaviour on a case."""

  def __init__(self, clause, **detail):
    super().__init__(clause)
    self.clause = clause
    self.detail = detail


class HarnessError(boot.HarnessError):
  pass


def libcall(fn, *args, expect=(), **kwargs):
  """Calls library code; an exception it raises becomes a Violation.

  Exceptions listed in `expect` are re-raised unchanged for the oracle.
  """
  try:
    return fn(*args, **kwargs)
  except expect:
    raise
  except (KeyboardInterrupt, SystemExit, MemoryError):
    raise
  except Exception as e:  # pylint: disable=broad-except
    tb = traceback.extract_tb(e.__traceback__)
    where = '?'
    for fr in reversed(tb):
      if 'paranoid_crypto' in fr.filename:
        where = '%s:%s' % (os.path.basename(fr.filename), fr.name)
        break
    raise Violation('raises:%s@%s' % (type(e).__name__, where),
                    exception=repr(e)[:300],
                    fn=getattr(fn, '__qualname__', repr(fn)))


@dataclasses.dataclass
class Arm:
  name: str
  run: Callable[[Any], Optional[dict]]
  strategy: Optional[Callable[[str], Any]] = None     # tier -> hypothesis strategy
  enumerate: Optional[Callable[[str], Any]] = None    # tier -> iterable of descriptors
  quick: int = 100          # total examples over all shards (strategy arms)
  thorough: int = 1000
  shards: int = 16
  budget: tuple = (120, 1200)   # per-shard wall budget in seconds (quick, thorough)
  exhaustive: bool = False      # enumerate() covers a finite space completely
  doc: str = ''
  weight: float = 1.0           # scheduling hint: expensive arms first


def canon(desc):
  return json.dumps(desc, sort_keys=True, separators=(',', ':'), default=str)


def dhash(desc):
  return hashlib.sha256(canon(desc).encode()).hexdigest()[:14]


def derive_seed(seed, *parts):
  h = hashlib.sha256(('%d:' % seed + ':'.join(str(p) for p in parts)).encode())
  return int.from_bytes(h.digest()[:8], 'big')


def abbrev(x, depth=0):
  """Shortens a descriptor for the evidence file (big ints, long lists)."""
  if isinstance(x, bool) or x is None:
    return x
  if isinstance(x, int):
    if abs(x) >= 1 << 80:
      hx = '%x' % abs(x)
      return '%s0x%s…%s(%d bits)' % ('-' if x < 0 else '', hx[:12], hx[-8:],
                                      abs(x).bit_length())
    return x
  if isinstance(x, float):
    return x
  if isinstance(x, str):
    return x if len(x) <= 120 else x[:80] + '…(%d chars)' % len(x)
  if isinstance(x, (list, tuple)):
    if len(x) > 12:
      return [abbrev(v, depth + 1) for v in x[:8]] + ['…(%d items)' % len(x)]
    return [abbrev(v, depth + 1) for v in x]
  if isinstance(x, dict):
    return {str(k): abbrev(v, depth + 1) for k, v in x.items()}
  return repr(x)[:120]


class Stats:
  """Per-shard counters; merged in the parent."""

  def __init__(self):
    self.evaluations = 0
    self.nt = set()
    self.classes = collections.Counter()
    self.samples = {}          # class label -> (desc, info)
    self.known = collections.Counter()
    self.known_witness = {}
    self.unexplored = 0
    self.wall = 0.0

  def record(self, arm, desc, info):
    self.evaluations += 1
    info = info or {}
    labels = list(info.get('cls', ())) or ['(unlabelled)']
    for c in labels:
      self.classes[c] += 1
    if info.get('nt'):
      self.nt.add(dhash([arm, desc]))
    for k in info.get('known', ()):
      self.known[k] += 1
    key = labels[0] + ('|nt' if info.get('nt') else '')
    if key not in self.samples and len(self.samples) < 40:
      self.samples[key] = {'arm': arm, 'case': abbrev(desc),
                           'outcome': abbrev({k: v for k, v in info.items()
                                              if k not in ('cls',)}),
                           'classes': labels}

  def merge(self, other):
    self.evaluations += other.evaluations
    self.nt |= other.nt
    self.classes.update(other.classes)
    for k, v in other.samples.items():
      self.samples.setdefault(k, v)
    self.known.update(other.known)
    for k, v in other.known_witness.items():
      self.known_witness.setdefault(k, v)
    self.unexplored += other.unexplored
    self.wall = max(self.wall, other.wall)


def load_known(prop_id):
  path = os.path.join(VERIF, 'known_findings.json')
  if not os.path.exists(path):
    return []
  with open(path) as f:
    data = json.load(f)
  return [e for e in data.get('findings', [])
          if e.get('status') == 'finding' and prop_id in e.get('properties', [])]


def match_known(module, listed, arm_name, desc, violation):
  preds = getattr(module, 'KNOWN', {})
  for e in listed:
    p = preds.get(e['id'])
    if p is None:
      continue
    try:
      if p(arm_name, desc, violation):
        return e['id']
    except Exception:  # pylint: disable=broad-except
      continue
  return None


def run_one(module, arm, desc, listed):
  """Runs one case. Returns ('ok', info) | ('known', id) | ('violation', Violation)."""
  try:
    info = arm.run(desc)
    return 'ok', info
  except Violation as v:
    kid = match_known(module, listed, arm.name, desc, v)
    if kid:
      return 'known', (kid, v)
    return 'violation', v


def _make_body(module, arm, listed, stats, state, excluded, t0, budget, shrink_budget,
               skip_first=False):
  def body(desc):
    now = time.time()
    state['count'] += 1
    if skip_first and state['count'] == 1:
      # Hypothesis starts every run with the minimal example, which is the same in every
      # shard: only shard 0 evaluates it.
      return
    if state['fail'] is None and now - t0 > budget:
      stats.unexplored += 1
      return
    if state['t_fail'] is not None and now - state['t_fail'] > shrink_budget:
      return  # stop shrinking: pretend the candidates pass
    kind, res = run_one(module, arm, desc, listed)
    if kind == 'ok':
      if state['fail'] is None:
        stats.record(arm.name, desc, res)
      return
    if kind == 'known':
      kid, v = res
      if state['fail'] is None:
        stats.evaluations += 1
        stats.known[kid] += 1
        stats.classes['known-finding:' + kid] += 1
        stats.known_witness.setdefault(
            kid, {'arm': arm.name, 'case': abbrev(desc), 'clause': v.clause})
      return
    v = res
    if v.clause in excluded:
      return
    if state['fail'] is not None and v.clause != state['fail'][1].clause:
      return  # keep shrinking on one root cause
    if state['fail'] is None:
      stats.evaluations += 1
      state['t_fail'] = now
    best = state['fail']
    if best is None or len(canon(desc)) <= len(canon(best[0])):
      state['fail'] = (desc, v)
    raise v
  return body


def _hypothesis_shard(module, arm, tier, seed, shard, nshards, listed, max_rounds):
  import hypothesis  # pylint: disable=g-import-not-at-top
  from hypothesis import HealthCheck, Phase, given, settings  # pylint: disable=g-import-not-at-top

  total = arm.quick if tier == 'quick' else arm.thorough
  n = total // nshards + (1 if shard < total % nshards else 0)
  stats = Stats()
  violations = []
  if n <= 0:
    return stats, violations
  budget = arm.budget[0 if tier == 'quick' else 1]
  shrink_budget = 20 if tier == 'quick' else 120
  strategy = arm.strategy(tier)
  excluded = set()
  t0 = time.time()
  for rnd in range(max_rounds):
    state = {'fail': None, 't_fail': None, 'count': 0}
    body = _make_body(module, arm, listed, stats, state, excluded, t0, budget, shrink_budget,
                      skip_first=(shard > 0 or rnd > 0))
    test = given(strategy)(body)
    test = settings(
        max_examples=n + (1 if (shard > 0 or rnd > 0) else 0), database=None, deadline=None,
        report_multiple_bugs=False, derandomize=False,
        suppress_health_check=list(HealthCheck),
        phases=[Phase.generate, Phase.shrink])(test)
    test = hypothesis.seed(derive_seed(seed, module.ID, arm.name, shard, rnd))(test)
    try:
      test()
    except Violation:
      pass
    except BaseException as e:  # pylint: disable=broad-except
      if isinstance(e, (KeyboardInterrupt, SystemExit)):
        raise
      if state['fail'] is None:
        raise HarnessError('arm %s shard %d: %s\n%s' % (
            arm.name, shard, repr(e)[:500], traceback.format_exc()[-3000:]))
    if state['fail'] is None:
      break
    desc, v = state['fail']
    violations.append({'arm': arm.name, 'desc': desc, 'clause': v.clause,
                       'detail': abbrev(v.detail)})
    excluded.add(v.clause)
  stats.wall = time.time() - t0
  return stats, violations


def _enumerate_shard(module, arm, tier, shard, nshards, listed):
  stats = Stats()
  violations = []
  seen = set()
  budget = arm.budget[0 if tier == 'quick' else 1]
  t0 = time.time()
  for i, desc in enumerate(arm.enumerate(tier)):
    if i % nshards != shard:
      continue
    if time.time() - t0 > budget:
      stats.unexplored += 1
      continue
    kind, res = run_one(module, arm, desc, listed)
    if kind == 'ok':
      stats.record(arm.name, desc, res)
    elif kind == 'known':
      kid, v = res
      stats.evaluations += 1
      stats.known[kid] += 1
      stats.classes['known-finding:' + kid] += 1
      stats.known_witness.setdefault(
          kid, {'arm': arm.name, 'case': abbrev(desc), 'clause': v.clause})
    else:
      stats.evaluations += 1
      if res.clause not in seen:
        seen.add(res.clause)
        violations.append({'arm': arm.name, 'desc': desc, 'clause': res.clause,
                           'detail': abbrev(res.detail)})
  stats.wall = time.time() - t0
  return stats, violations


def work(args):
  """Worker entry: runs one shard of one arm. Returns a picklable result."""
  prop_id, arm_name, tier, seed, shard, nshards = args
  try:
    import faulthandler, signal  # pylint: disable=g-import-not-at-top,multiple-imports
    faulthandler.register(signal.SIGUSR1, all_threads=True)
  except Exception:  # pylint: disable=broad-except
    pass
  try:
    import importlib  # pylint: disable=g-import-not-at-top
    boot.attach()
    module = importlib.import_module('props.' + prop_id.lower())
    arm = [a for a in module.ARMS if a.name == arm_name][0]
    listed = load_known(prop_id)
    if arm.enumerate is not None:
      stats, viol = _enumerate_shard(module, arm, tier, shard, nshards, listed)
    else:
      stats, viol = _hypothesis_shard(module, arm, tier, seed, shard, nshards,
                                      listed, 1 if tier == 'quick' else 3)
    return {'arm': arm_name, 'shard': shard, 'stats': stats, 'violations': viol,
            'error': None}
  except BaseException as e:  # pylint: disable=broad-except
    if isinstance(e, KeyboardInterrupt):
      raise
    return {'arm': arm_name, 'shard': shard, 'stats': None, 'violations': [],
            'error': '%r\n%s' % (e, traceback.format_exc()[-4000:])}
