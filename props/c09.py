"""C09 - the nonce relation extracted from any ECDSA signature is exact."""

import gmpy2 as gmpy
from hypothesis import strategies as st

from gens import artifacts as art
from gens import ecdsa_gen as eg
from gens.common import Material, material
from harness.core import Arm, Violation, libcall
from refs import ossl_ecdsa

from paranoid_crypto import paranoid_pb2
from paranoid_crypto.lib import ec_util
from paranoid_crypto.lib import util

ID = 'C09'
TITLE = 'The nonce relation extracted from any ECDSA signature is exact'
TECHNIQUE = 'reference signing + independent bits2int, OpenSSL self-check, round trips'
RULE = (
    'nonce_relation / nonce_grid: a case is (curve of the 9 prime curves, private key d and '
    'nonce k each uniform in [1, n-1] or one of the edges 1, 2, n-1, 2^j, n-2^j, a digest of '
    '0..72 bytes (all-zero, all-ones, random, leading zero bytes, a value whose leftmost '
    'order-length bits are >= n or equal to n-1 / n / n+1), separate 0..3 leading zero bytes on '
    'r, s and the key coordinates). (r, s) is computed by the reference arithmetic of '
    'gens/ecdsa_gen (OpenSSL scalar multiplication, textbook s) and checked to be a real ECDSA '
    'signature by OpenSSL (libcrypto ECDSA_verify for every digest length, cryptography '
    'Prehashed for the lengths 20/28/32/48/64; a failure there is a harness error). Oracle: '
    'ECDSAValues returns exactly (r, s, leftmost-bits(h) mod n) and HiddenNumberParams returns '
    'residues (a, b) with a + b*d = k (mod n). nonce_grid enumerates every digest length 0..72 x '
    'every curve x every digest kind x several (d, k) pairs. transform_order_len calls '
    'TransformOrderLen(h, hlen) directly (hlen any bit count, h < 2^hlen, int or mpz) against a '
    'bit-string transcription of RFC 6979 bits2int. conversions / roundtrip_small: Int2Bytes, '
    'Bytes2Int, Hex2Bytes, PublicPoint, ECDSAValues on arbitrary byte strings against manual '
    'positional arithmetic (random values up to 2^4200, every integer < 2^17 (2^20 thorough), '
    'every byte string of <= 2 bytes with 0..2 leading zero bytes, every hex string of <= 3 '
    'digits). Non-trivial: the digest is longer than the order, or the order is not byte '
    'aligned (P-521), or a field carries leading zero bytes / a leftmost-bits value that has to be '
    'reduced; for the conversions: leading zero bytes, a bit length that is a multiple of 8, or '
    'an odd number of hex digits. Digest lengths 65..72 bytes are outside the stated 0..64 range '
    'but inside RFC 6979 2.3.2 (any length); they are the only way to get a shift that is not a '
    'multiple of 8 (66 bytes on P-521: 7 bits) and are labelled separately.')
ASSUMPTIONS = [
    'curve parameters and k*G come from OpenSSL (refs/ec_ref.py); s = k^-1 (z + r d) mod n with Python integers',
    'bits2int = leftmost min(8*len, qlen) bits (RFC 6979 2.3.2); the harness signatures verify under OpenSSL, '
    'whose truncation is implemented independently',
    'HiddenNumberParams returns canonical residues in [0, n) (the code reduces both values; callers build '
    'lattices from them)',
    'Int2Bytes is the minimal big-endian encoding (Int2Bytes(0) == b""), i.e. Int2Bytes(Bytes2Int(b)) == b.lstrip(b"\\0")',
]

CURVES = list(eg.PRIME_CURVES)
MAX_HL = 72


class SelfCheckError(Exception):
  """The harness' own signature is not a valid ECDSA signature (harness error, exit 2)."""


# ---------------------------------------------------------------- independent helpers

def _leftmost_bits(h, hlen, n):
  """RFC 6979 2.3.2 on the bit string itself: keep the leftmost qlen bits, then mod n."""
  qlen = n.bit_length()
  bits = format(h, 'b').rjust(hlen, '0') if hlen else ''
  if len(bits) != hlen:
    raise AssertionError('h does not fit in hlen bits')
  kept = bits[:qlen]
  v = 0
  for ch in kept:
    v = 2 * v + (ch == '1')
  return v % n


def _b2i_manual(b):
  v = 0
  for byte in b:
    v = v * 256 + byte
  return v


def _i2b_manual(v):
  out = []
  while v:
    out.append(v & 0xFF)
    v >>= 8
  return bytes(reversed(out))


_HEXVAL = {c: i for i, c in enumerate('0123456789abcdef')}
_HEXVAL.update({c: i for i, c in enumerate('0123456789ABCDEF')})


def _hex_manual(s):
  if len(s) % 2:
    s = '0' + s
  return bytes(16 * _HEXVAL[s[i]] + _HEXVAL[s[i + 1]] for i in range(0, len(s), 2))


def _scalar(sel, n, mat):
  kind = sel[0]
  q = n.bit_length()
  if kind == 'one':
    return 1
  if kind == 'two':
    return 2
  if kind == 'nm1':
    return n - 1
  if kind == 'pow':
    return 1 << (sel[1] % q)
  if kind == 'npow':
    return n - (1 << (sel[1] % q))
  if kind == 'small':
    return 1 + mat.below(1 << 16)
  return 1 + mat.below(n - 1)


def _digest(kind, hl, hz, n, mat):
  """A digest of exactly hl bytes."""
  if hl == 0:
    return b''
  q = n.bit_length()
  bl = 8 * hl
  if kind == 'zero':
    return bytes(hl)
  if kind == 'ones':
    return b'\xff' * hl
  if kind == 'lz':
    z = 1 + hz % hl
    return bytes(z) + (mat.bytes(hl - z) if hl > z else b'')
  if kind in ('wrap', 'edge') and bl >= q:
    if kind == 'wrap':
      t = n + mat.below((1 << q) - n)           # leftmost q bits in [n, 2^q)
    else:
      t = min(n + (hz % 3) - 1, (1 << q) - 1)    # n-1, n, n+1
    v = (t << (bl - q)) | mat.bits(bl - q)
    return v.to_bytes(hl, 'big')
  if kind == 'edge':                             # shorter than the order: top bit patterns
    v = ((1 << bl) - 1) >> (hz % 9)
    return v.to_bytes(hl, 'big')
  return mat.bytes(hl)


def _int(v, clause, **kw):
  if isinstance(v, bool) or not isinstance(v, (int, type(gmpy.mpz(0)))):
    raise Violation(clause + ':type', got=repr(v)[:100], **kw)
  return int(v)


def _hl_class(hl, q):
  bl = 8 * hl
  if bl < q:
    return 'digest shorter than the order'
  if bl == q:
    return 'digest as long as the order'
  if (bl - q) % 8:
    return 'digest longer than the order, shift not a multiple of 8'
  return 'digest longer than the order, byte-aligned shift'


# ---------------------------------------------------------------- clause 1: nonce relation

def run_nonce(desc):
  ct = desc['c']
  name = eg.CURVE_NAMES[ct]
  n = eg.ref(ct).n
  q = n.bit_length()
  mat = Material(desc['m'], 'c09')
  d = _scalar(desc['d'], n, mat)
  k = _scalar(desc['k'], n, mat)
  hl = desc['hl']
  h = _digest(desc['hk'], hl, desc.get('hz', 0), n, mat)
  assert len(h) == hl and 0 < d < n and 0 < k < n
  issuer = eg.Issuer(ct, d)
  rs = eg.sign(ct, d, k, h)
  if rs is None:
    return {'nt': False, 'cls': ['degenerate r or s (no signature)']}
  r, s = rs
  z_ref = eg.bits2int_z(h, n)
  if z_ref != _leftmost_bits(_b2i_manual(h), 8 * hl, n):
    raise SelfCheckError('the two bits2int transcriptions disagree', desc)

  # -- self-check: the harness' signature is a real ECDSA signature
  checked = []
  v = ossl_ecdsa.verify_raw(name, issuer.pub, r, s, h)
  if v is False:
    raise SelfCheckError('libcrypto ECDSA_verify rejects the reference signature', desc)
  if v:
    checked.append('libcrypto')
  v = ossl_ecdsa.verify_prehashed(name, issuer.pub, r, s, h)
  if v is False:
    raise SelfCheckError('cryptography Prehashed verify rejects the reference signature', desc)
  if v:
    checked.append('prehashed')
  # the (slow) textbook verification: where the descriptor asks for it, else on 1 case in 64
  if desc.get('rv', Material(desc['m'], 'c09rv').below(64) == 0):
    if not eg.verify(ct, issuer.pub, r, s, h):
      raise SelfCheckError('reference verification rejects the reference signature', desc)
    checked.append('ref')

  # -- the artifact, with separate paddings
  pr, ps, px, py = desc.get('pr', 0), desc.get('ps', 0), desc.get('px', 0), desc.get('py', 0)
  sig = paranoid_pb2.ECDSASignature()
  sig.ecdsa_sig_info.r = bytes(pr) + art.i2b(r)
  sig.ecdsa_sig_info.s = bytes(ps) + art.i2b(s)
  sig.ecdsa_sig_info.message_hash = h
  sig.issuer_key_info.curve_type = ct
  sig.issuer_key_info.x = bytes(px) + art.i2b(issuer.pub[0])
  sig.issuer_key_info.y = bytes(py) + art.i2b(issuer.pub[1])

  curve = ec_util.CURVE_FACTORY[ct]
  vals = libcall(ec_util.ECDSAValues, sig.ecdsa_sig_info, curve)
  if not isinstance(vals, tuple) or len(vals) != 3:
    raise Violation('ecdsavalues:shape', got=repr(vals)[:200])
  info = dict(curve=name, hlen_bytes=hl, digest=h.hex(), pad_r=pr, pad_s=ps)
  lr = _int(vals[0], 'ecdsavalues:r', **info)
  ls = _int(vals[1], 'ecdsavalues:s', **info)
  lz = _int(vals[2], 'ecdsavalues:z', **info)
  if lr != r:
    raise Violation('ecdsavalues:r', got=lr, expected=r, **info)
  if ls != s:
    raise Violation('ecdsavalues:s', got=ls, expected=s, **info)
  if lz != z_ref:
    raise Violation('ecdsavalues:z', got=lz, expected=z_ref, order_bits=q, **info)

  # ecdsa_sig_checks removes duplicate signatures with a set of these triples: another
  # encoding of the same signature must give an equal (and equally hashed) triple
  sig2 = paranoid_pb2.ECDSASignatureInfo()
  sig2.r = bytes(3 - pr) + art.i2b(r)
  sig2.s = bytes((ps + 1) % 4) + art.i2b(s)
  sig2.message_hash = h
  vals2 = libcall(ec_util.ECDSAValues, sig2, curve)
  if len({vals, vals2}) != 1:
    raise Violation('ecdsavalues:encoding-dependent', first=repr(vals)[:300],
                    second=repr(vals2)[:300], **info)

  # exactly what ecdsa_sig_checks does: HiddenNumberParams on the returned triple
  ab = libcall(curve.HiddenNumberParams, vals[0], vals[1], vals[2])
  if not isinstance(ab, tuple) or len(ab) != 2:
    raise Violation('hnp:shape', got=repr(ab)[:200])
  a = _int(ab[0], 'hnp:a', **info)
  b = _int(ab[1], 'hnp:b', **info)
  if (a + b * d - k) % n != 0:
    raise Violation('hnp:relation', a=a, b=b, d=d, k=k, r=r, s=s, z=lz, **info)
  if not (0 <= a < n and 0 <= b < n):
    raise Violation('hnp:not-reduced', a=a, b=b, n=n, **info)
  # plain Python integers (as hidden_number_problem_test passes them)
  ab2 = libcall(curve.HiddenNumberParams, r, s, z_ref)
  if (int(ab2[0]), int(ab2[1])) != (a, b):
    raise Violation('hnp:int-vs-mpz', mpz=[a, b], ints=[int(ab2[0]), int(ab2[1])], **info)

  pt = libcall(ec_util.PublicPoint, sig.issuer_key_info)
  if not isinstance(pt, tuple) or len(pt) != 2 or (int(pt[0]), int(pt[1])) != tuple(issuer.pub):
    raise Violation('publicpoint', got=repr(pt)[:300], expected=list(issuer.pub), pad_x=px, pad_y=py)

  # -- classes
  bl = 8 * hl
  top = _b2i_manual(h) >> max(0, bl - q)
  cls = [_hl_class(hl, q), 'curve=' + name]
  if hl > 64:
    cls.append('digest of 65..72 bytes (beyond the stated 0..64, RFC 6979 any length)')
  if hl == 0:
    cls.append('empty digest')
  if hl in (20, 28, 32, 48, 64):
    cls.append('standard digest length')
  if h[:1] == b'\0':
    cls.append('digest with leading zero bytes')
  if top >= n:
    cls.append('leftmost bits >= n (reduced)')
  if z_ref == 0:
    cls.append('z == 0')
  if pr or ps:
    cls.append('r or s with added leading zero bytes')
  if len(art.i2b(r)) < (q + 7) // 8 or len(art.i2b(s)) < (q + 7) // 8:
    cls.append('r or s naturally shorter than the order')
  if px or py:
    cls.append('key coordinates with added leading zero bytes')
  if desc['d'][0] != 'rand':
    cls.append('edge d')
  if desc['k'][0] != 'rand':
    cls.append('edge k')
  for c in checked:
    cls.append('self-check:' + c)
  if not checked:
    cls.append('self-check:none available')
  nt = bl > q or q % 8 != 0 or bool(pr or ps or px or py) or h[:1] == b'\0' or top >= n
  return {'nt': nt, 'cls': cls, 'hlen_bits': bl, 'order_bits': q, 'shift': max(0, bl - q)}


_SCALAR_SEL = st.one_of(
    st.just(['rand']), st.just(['rand']), st.just(['rand']),
    st.sampled_from([['one'], ['two'], ['nm1'], ['small']]),
    st.tuples(st.sampled_from(['pow', 'npow']), st.integers(0, 520)).map(list))
_HKINDS = ['rand', 'rand', 'zero', 'ones', 'lz', 'wrap', 'edge']


def strat_nonce(tier):
  hl = st.one_of(st.integers(0, 64), st.integers(0, MAX_HL),
                 st.sampled_from([0, 1, 20, 24, 28, 32, 48, 64, 65, 66, 67, 72]))
  pad = st.sampled_from([0, 0, 1, 2, 3])
  return st.fixed_dictionaries({
      'c': st.sampled_from(CURVES), 'd': _SCALAR_SEL, 'k': _SCALAR_SEL,
      'hl': hl, 'hk': st.sampled_from(_HKINDS), 'hz': st.integers(0, 71),
      'pr': pad, 'ps': pad, 'px': pad, 'py': pad,
      'm': material})


def enum_nonce(tier):
  """Every digest length x every curve x every digest kind x several (d, k) pairs."""
  pairs = [(['rand'], ['rand']), (['nm1'], ['one']), (['pow', None], ['npow', None])]
  if tier == 'thorough':
    pairs += [(['one'], ['nm1']), (['rand'], ['pow', None]), (['npow', None], ['rand']),
              (['small'], ['small']), (['two'], ['two'])]
  kinds = ['rand', 'zero', 'ones', 'lz', 'wrap', 'edge']

  def vary(sel, hl, q, flip):
    if len(sel) == 2:      # 2^j / n - 2^j: j = q-1 (the largest) alternating with small j
      return [sel[0], (q - 1) if (hl + flip) % 2 else hl]
    return list(sel)

  i = 0
  for ct in CURVES:
    q = eg.ref(ct).n.bit_length()
    for hl in range(0, MAX_HL + 1):
      for hk in kinds:
        for pi, (dsel0, ksel0) in enumerate(pairs):
          dsel, ksel = vary(dsel0, hl, q, 0), vary(ksel0, hl, q, 1)
          for hz in ((0, 1, 2) if hk == 'edge' else (hl // 2,) if hk == 'lz' else (0,)):
            i += 1
            yield {'c': ct, 'd': list(dsel), 'k': list(ksel), 'hl': hl, 'hk': hk, 'hz': hz,
                   'pr': i % 4, 'ps': (i // 4) % 4, 'px': (i // 16) % 4, 'py': (i // 64) % 4,
                   'rv': hl in (0, 1, 65, 66) and pi == 0 and hk == 'rand',
                   'm': 1000003 * ct + 131 * hl + pi}


# ---------------------------------------------------------------- clause 2: TransformOrderLen

def run_transform(desc):
  ct = desc['c']
  name = eg.CURVE_NAMES[ct]
  n = eg.ref(ct).n
  q = n.bit_length()
  mat = Material(desc['m'], 'c09t')
  sel = desc['hlen']
  if sel[0] == 'bytes':
    hlen = 8 * sel[1]
  elif sel[0] == 'rel':
    hlen = max(0, q + sel[1])
  else:
    hlen = sel[1]
  kind = desc['hk']
  hz = desc.get('hz', 0)
  shift = max(0, hlen - q)
  if hlen == 0 or kind == 'zero':
    h = 0
  elif kind == 'ones':
    h = (1 << hlen) - 1
  elif kind == 'lz':
    h = mat.bits(max(0, hlen - 1 - hz % hlen))
  elif kind in ('wrap', 'edge') and hlen >= q:
    t = (n + mat.below((1 << q) - n)) if kind == 'wrap' else min(n + hz % 3 - 1, (1 << q) - 1)
    h = (t << shift) | mat.bits(shift)
  elif kind == 'low':
    h = (1 << shift) - 1 if shift else mat.bits(hlen)      # only the dropped bits are set
  elif kind == 'top':
    h = 1 << (hlen - 1)                                     # only the leftmost bit is set
  else:
    h = mat.bits(hlen)
  assert 0 <= h < (1 << hlen) or (hlen == 0 and h == 0)
  expected = _leftmost_bits(h, hlen, n)
  curve = ec_util.CURVE_FACTORY[ct]
  arg = gmpy.mpz(h) if desc.get('mpz') else h
  got = libcall(curve.TransformOrderLen, arg, hlen)
  gi = _int(got, 'transform', curve=name, h=h, hlen=hlen)
  if gi != expected:
    raise Violation('transform:value', curve=name, h=h, hlen=hlen, order_bits=q, got=gi,
                    expected=expected, mpz=bool(desc.get('mpz')))
  top = h >> shift
  cls = ['hlen %s order length' % ('<' if hlen < q else '==' if hlen == q else '>'),
         'curve=' + name]
  if hlen > q:
    cls.append('shift %s' % ('multiple of 8' if shift % 8 == 0 else '1..7 mod 8'))
    if shift < 8:
      cls.append('0 < shift < 8')
  if hlen % 8:
    cls.append('hlen not a multiple of 8')
  if top >= n:
    cls.append('leftmost bits >= n (reduced)')
  if desc.get('mpz'):
    cls.append('mpz argument')
  nt = hlen > q or q % 8 != 0 or top >= n
  return {'nt': nt, 'cls': cls, 'hlen': hlen, 'order_bits': q}


def strat_transform(tier):
  hlen = st.one_of(
      st.tuples(st.just('bytes'), st.integers(0, 140)),
      st.tuples(st.just('rel'), st.integers(-17, 17)),
      st.tuples(st.just('abs'), st.integers(0, 1100))).map(list)
  return st.fixed_dictionaries({
      'c': st.sampled_from(CURVES), 'hlen': hlen,
      'hk': st.sampled_from(['rand', 'rand', 'zero', 'ones', 'lz', 'wrap', 'edge', 'low', 'top']),
      'hz': st.integers(0, 40), 'mpz': st.booleans(), 'm': material})


# ---------------------------------------------------------------- clause 3: conversions

def _value(kind, bits, mat):
  if kind == 'zero':
    return 0
  if kind == 'pow2':
    return 1 << bits
  if kind == 'pow2m1':
    return (1 << bits) - 1
  if kind == 'pow2p1':
    return (1 << bits) + 1
  if kind == 'full':
    return mat.bits(bits) | (1 << (bits - 1)) if bits else 0
  return mat.bits(bits)


def _check_int(v, as_mpz):
  arg = gmpy.mpz(v) if as_mpz else v
  b = libcall(util.Int2Bytes, arg)
  if not isinstance(b, bytes):
    raise Violation('int2bytes:type', value=v, got=repr(b)[:100])
  back = libcall(util.Bytes2Int, b)
  if isinstance(back, bool) or not isinstance(back, int) or back != v:
    raise Violation('roundtrip:int', value=v, encoded=b.hex(), back=repr(back)[:200], mpz=as_mpz)
  if b != _i2b_manual(v):
    raise Violation('int2bytes:not-minimal', value=v, encoded=b.hex(), mpz=as_mpz)
  return b


def _check_bytes(b):
  v = libcall(util.Bytes2Int, b)
  if isinstance(v, bool) or not isinstance(v, int) or v != _b2i_manual(b):
    raise Violation('bytes2int:value', data=b.hex(), got=repr(v)[:200])
  back = libcall(util.Int2Bytes, v)
  if back != b.lstrip(b'\0'):
    raise Violation('roundtrip:bytes', data=b.hex(), back=repr(back)[:200])
  return v


def _check_hex(s):
  got = libcall(util.Hex2Bytes, s)
  if not isinstance(got, bytes) or got != _hex_manual(s):
    raise Violation('hex2bytes', hex=s, got=repr(got)[:200])
  return got


def _field(kind, ln, pad, mat):
  """A byte field: `pad` zero bytes followed by ln bytes of the given kind."""
  if kind == 'zero':
    body = bytes(ln)
  elif kind == 'ones':
    body = b'\xff' * ln
  elif kind == 'low':       # a small value in a long field
    body = bytes(max(0, ln - 1)) + (mat.bytes(1) if ln else b'')
  else:
    body = mat.bytes(ln) if ln else b''
  return bytes(pad) + body


def run_conv(desc):
  op = desc['op']
  mat = Material(desc['m'], 'c09c')
  cls = ['op=' + op]
  nt = False
  if op == 'int':
    v = _value(desc['kind'], desc['bits'], mat)
    b = _check_int(v, desc.get('mpz', False))
    # and with leading zero bytes in front of the encoding
    padded = bytes(desc.get('pad', 0)) + b
    if _check_bytes(padded) != v:
      raise Violation('roundtrip:padded', value=v, pad=desc.get('pad', 0))
    if v.bit_length() % 8 == 0:
      cls.append('bit length multiple of 8')
      nt = True
    if desc.get('pad'):
      cls.append('leading zero bytes')
      nt = True
    if desc.get('mpz'):
      cls.append('mpz argument')
    cls.append('bits %s' % ('0' if not v else '<=64' if v.bit_length() <= 64 else '<=521'
                            if v.bit_length() <= 521 else '<=4201'))
  elif op == 'bytes':
    b = _field(desc['kind'], desc['len'], desc.get('pad', 0), mat)
    _check_bytes(b)
    if b[:1] == b'\0':
      cls.append('leading zero bytes')
      nt = True
    if not b.strip(b'\0'):
      cls.append('only zero bytes / empty')
  elif op == 'hex':
    ln = desc['len']
    raw = (mat.bytes((ln + 1) // 2).hex() if ln else '')[:ln]
    if desc.get('lead0') and ln:
      z = min(ln, 1 + desc['lead0'] % 3)
      raw = '0' * z + raw[z:]
    case = desc.get('case', 0)
    if case == 1:
      raw = raw.upper()
    elif case == 2:
      raw = ''.join(ch.upper() if i % 3 == 0 else ch for i, ch in enumerate(raw))
    got = _check_hex(raw)
    # hex of an integer round trips through Hex2Bytes / Bytes2Int
    if raw and libcall(util.Bytes2Int, got) != int(raw, 16):
      raise Violation('hex2bytes:value', hex=raw)
    if ln % 2:
      cls.append('odd number of hex digits')
      nt = True
    else:
      cls.append('even number of hex digits')
  elif op == 'point':
    x = _field(desc['kind'], desc['len'], desc.get('pad', 0), mat)
    y = _field(desc.get('kind2', 'rand'), desc.get('len2', desc['len']), desc.get('pad2', 0), mat)
    if desc.get('holder') == 'sig':
      holder = paranoid_pb2.ECDSASignature()
      ki = holder.issuer_key_info
    else:
      holder = paranoid_pb2.ECKey()
      ki = holder.ec_info
    ki.curve_type = desc.get('c', CURVES[0])
    ki.x = x
    ki.y = y
    pt = libcall(ec_util.PublicPoint, ki)
    if not isinstance(pt, tuple) or len(pt) != 2:
      raise Violation('publicpoint:shape', got=repr(pt)[:200])
    px = _int(pt[0], 'publicpoint:x')
    py = _int(pt[1], 'publicpoint:y')
    if (px, py) != (_b2i_manual(x), _b2i_manual(y)):
      raise Violation('publicpoint', x=x.hex(), y=y.hex(), got=[px, py])
    if x[:1] == b'\0' or y[:1] == b'\0':
      cls.append('leading zero bytes')
      nt = True
    if len(x) != len(y):
      cls.append('coordinates of different byte length')
  elif op == 'sigvals':
    ct = desc['c']
    n = eg.ref(ct).n
    r = _field(desc['kind'], desc['len'], desc.get('pad', 0), mat)
    s = _field(desc.get('kind2', 'rand'), desc.get('len2', desc['len']), desc.get('pad2', 0), mat)
    h = _field(desc.get('kind3', 'rand'), desc.get('len3', 32), desc.get('pad3', 0), mat)
    si = paranoid_pb2.ECDSASignatureInfo()
    si.r, si.s, si.message_hash = r, s, h
    vals = libcall(ec_util.ECDSAValues, si, ec_util.CURVE_FACTORY[ct])
    if not isinstance(vals, tuple) or len(vals) != 3:
      raise Violation('ecdsavalues:shape', got=repr(vals)[:200])
    got = [_int(v, 'ecdsavalues') for v in vals]
    exp = [_b2i_manual(r), _b2i_manual(s), _leftmost_bits(_b2i_manual(h), 8 * len(h), n)]
    for nm, g, e in zip('rsz', got, exp):
      if g != e:
        raise Violation('ecdsavalues:' + nm, r=r.hex(), s=s.hex(), digest=h.hex(),
                        curve=eg.CURVE_NAMES[ct], got=g, expected=e)
    cls.append('arbitrary byte strings as r, s, digest')
    if r[:1] == b'\0' or s[:1] == b'\0' or h[:1] == b'\0':
      cls.append('leading zero bytes')
      nt = True
    if 8 * len(h) > n.bit_length():
      cls.append('digest longer than the order')
      nt = True
  else:
    raise AssertionError(op)
  return {'nt': nt, 'cls': cls}


def strat_conv(tier):
  kinds = st.sampled_from(['rand', 'rand', 'zero', 'ones', 'low'])
  pad = st.sampled_from([0, 0, 1, 2, 3, 8])
  bits = st.one_of(st.integers(0, 80), st.integers(0, 600), st.integers(0, 4200),
                   st.integers(0, 525).map(lambda j: 8 * j))
  ints = st.fixed_dictionaries({
      'op': st.just('int'), 'bits': bits,
      'kind': st.sampled_from(['rand', 'full', 'pow2', 'pow2m1', 'pow2p1', 'zero']),
      'pad': pad, 'mpz': st.booleans(), 'm': material})
  byts = st.fixed_dictionaries({
      'op': st.just('bytes'), 'len': st.one_of(st.integers(0, 70), st.integers(0, 530)),
      'kind': kinds, 'pad': pad, 'm': material})
  hexs = st.fixed_dictionaries({
      'op': st.just('hex'), 'len': st.one_of(st.integers(0, 12), st.integers(0, 300)),
      'lead0': st.integers(0, 3), 'case': st.integers(0, 2), 'm': material})
  points = st.fixed_dictionaries({
      'op': st.just('point'), 'c': st.sampled_from(CURVES),
      'holder': st.sampled_from(['key', 'sig']),
      'len': st.integers(0, 70), 'len2': st.integers(0, 70), 'kind': kinds, 'kind2': kinds,
      'pad': pad, 'pad2': pad, 'm': material})
  sigvals = st.fixed_dictionaries({
      'op': st.just('sigvals'), 'c': st.sampled_from(CURVES),
      'len': st.integers(0, 70), 'len2': st.integers(0, 70), 'len3': st.integers(0, 80),
      'kind': kinds, 'kind2': kinds, 'kind3': kinds,
      'pad': pad, 'pad2': pad, 'pad3': st.sampled_from([0, 0, 1, 2]), 'm': material})
  return st.one_of(ints, ints.map(dict), byts, byts.map(dict), hexs, points, sigvals)


def run_small(desc):
  what = desc['what']
  if what == 'ints':
    for v in range(desc['lo'], desc['hi']):
      _check_int(v, False)
      if v % 64 == 0:
        _check_int(v, True)
    return {'nt': True, 'cls': ['every integer in a range'], 'count': desc['hi'] - desc['lo']}
  if what == 'bytes':
    pad, first = desc['pad'], desc['first']
    if first is None:       # bodies of length 0 and 1
      bodies = [b''] + [bytes([i]) for i in range(256)]
    else:
      bodies = [bytes([first, i]) for i in range(256)]
    for body in bodies:
      _check_bytes(bytes(pad) + body)
    return {'nt': bool(pad) or first == 0, 'cls': ['every short byte string'], 'count': len(bodies)}
  if what == 'hex':
    digits = '0123456789abcdef' if not desc['upper'] else '0123456789ABCDEF'
    cnt = 0
    if desc['first'] is None:
      cand = [''] + list(digits) + [a + b for a in digits for b in digits]
    else:
      f = digits[desc['first']]
      cand = [f + a + b for a in digits for b in digits]
    for s in cand:
      _check_hex(s)
      cnt += 1
    return {'nt': True, 'cls': ['every short hex string'], 'count': cnt}
  raise AssertionError(what)


def enum_small(tier):
  top = 1 << (17 if tier == 'quick' else 20)
  step = 1024 if tier == 'quick' else 4096
  for lo in range(0, top, step):
    yield {'what': 'ints', 'lo': lo, 'hi': lo + step}
  for pad in (0, 1, 2):
    yield {'what': 'bytes', 'pad': pad, 'first': None}
    for first in range(256):
      yield {'what': 'bytes', 'pad': pad, 'first': first}
  for upper in (False, True):
    yield {'what': 'hex', 'upper': upper, 'first': None}
    for first in range(16):
      yield {'what': 'hex', 'upper': upper, 'first': first}


# ------------------------------------------------------------------ arm: the same s (and r) on several curves

def run_same_s(desc):
  """Valid signatures on several curves that share the integer s (constructed: pick k and s, solve for d).
  The relation must hold on every curve whatever was computed for another curve before (per-process state
  keyed by signature values alone must not leak between curves)."""
  mat = Material(desc['m'], 'c09sames')
  curves = [eg.PRIME_CURVES[i % len(eg.PRIME_CURVES)] for i in desc['curves']]
  nmin = min(eg.ref(c).n for c in curves)
  s_val = 1 + mat.below(nmin - 1)
  h = mat.bytes(desc['hlen'])
  for ct in curves:
    rc = eg.ref(ct)
    n = rc.n
    for _ in range(20):
      k = 1 + mat.below(n - 1)
      r = eg.mul_g(ct, k)[0] % n
      if r:
        break
    z = eg.bits2int_z(h, n)
    d = (s_val * k - z) * pow(r, -1, n) % n
    if d == 0:
      continue
    if not eg.verify(ct, eg.mul_g(ct, d), r, s_val, h):
      raise AssertionError('constructed signature does not verify')   # harness error
    curve = ec_util.CURVE_FACTORY[ct]
    for conv in (gmpy.mpz, int):
      a, b = libcall(curve.HiddenNumberParams, conv(r), conv(s_val), conv(z))
      if (int(a) + int(b) * d - k) % n:
        raise Violation('hnp:relation-with-shared-s', curve=eg.CURVE_NAMES[ct], s=s_val, r=r, z=z, d=d, k=k,
                        a=int(a), b=int(b), curves=[eg.CURVE_NAMES[c] for c in curves])
  return {'nt': len(set(curves)) > 1, 'cls': ['same-s curves=%d' % len(set(curves))]}


def strat_same_s(tier):
  return st.fixed_dictionaries({'m': material, 'curves': st.lists(st.integers(0, 8), min_size=2, max_size=4),
                                'hlen': st.sampled_from([20, 32, 48, 64])})


ARMS = [
    Arm('same_s_on_several_curves', run_same_s, strategy=strat_same_s, quick=600, thorough=6000),
    Arm('nonce_relation', run_nonce, strategy=strat_nonce, quick=12000, thorough=330000,
        doc='reference signature -> ECDSAValues -> HiddenNumberParams: a + b d = k (mod n)', weight=3),
    Arm('nonce_grid', run_nonce, enumerate=enum_nonce, exhaustive=True,
        doc='every digest length 0..72 x 9 curves x digest kinds x (d, k) pairs', weight=2),
    Arm('transform_order_len', run_transform, strategy=strat_transform, quick=12000, thorough=120000,
        doc='TransformOrderLen(h, hlen) vs leftmost-bits transcription, any hlen'),
    Arm('conversions', run_conv, strategy=strat_conv, quick=12000, thorough=90000,
        doc='Int2Bytes / Bytes2Int / Hex2Bytes / PublicPoint / ECDSAValues on arbitrary bytes'),
    Arm('roundtrip_small', run_small, enumerate=enum_small, exhaustive=True,
        doc='every integer < 2^17 (2^20), every byte string <= 2 bytes (+0..2 zero bytes), every hex string <= 3 digits'),
]
