"""C07 - healthy keys and signatures are never accused."""

from hypothesis import strategies as st

from gens import artifacts as art
from gens import ecdsa_gen as eg
from gens import rsa_families as fam
from gens.common import Material, material
from harness.core import Arm, Violation, libcall

from paranoid_crypto.lib import paranoid
from paranoid_crypto.lib import ec_aggregate_checks

ID = 'C07'
TITLE = 'Healthy keys and signatures are never accused'
RULE = (
    'Populations derived from SHAKE-256 material: RSA keys of exactly 2048/3072/4096 bits (product of two '
    'independent random primes, e = 65537) in batches of 1..N without prime reuse; EC keys with uniform '
    'private keys on the eight supported curves of at least 224 bits in batches of 1..120 keys (including the same '
    'healthy key listed twice); ECDSA signatures with uniform nonces (1-60 per issuer, 1-4 issuers, mixed '
    'curves, digests of 20-64 bytes). Each batch goes through the all-checks entry point. A second arm places '
    'the same healthy artifacts in a batch with weak ones (which share no prime / have no close private key / '
    'use other issuers by construction) and compares; a cheap arm runs the individual EC checks (validity, weak curve, '
    'small difference with max_diff 2^6/2^10/2^12) on a few healthy keys interleaved with off-curve, (0,0), out-of-range, '
    'small-private-key and close-pair keys of the same curve. Oracle: no check sets a positive entry on a healthy '
    'artifact, weak stays False, the entry point returns False on all-healthy batches, and the entries of a '
    'healthy artifact in the mixed batch equal those in the healthy-only batch. Non-trivial: batch with >= 2 '
    'artifacts (joint code paths active) or a mixed batch; distinct by descriptor hash.')
ASSUMPTIONS = [
    'the all-checks EC factory uses CheckECKeySmallDifference(max_diff=2^10) (documented constructor parameter; '
    'the default 2^24 table costs 85 s and 3.3 GB per curve); the default configuration itself is exercised by two '
    'cases of the thorough tier; all other checks run in their default configuration',
    'a false-positive rate near the design bound (2^-37 per key) is not measurable: the check detects '
    'over-eagerness down to roughly 1e-3 per key (quick) / 1e-4 (thorough)',
]
TECHNIQUE = 'property-based testing (Hypothesis) over healthy populations and healthy-plus-weak mixtures; oracle = no positive entry, mixed-batch verdict equals healthy-only verdict'


def _install():
  paranoid.GetECAllChecks()
  cur = paranoid._check_factory[paranoid._EC_ALL].get('CheckECKeySmallDifference')
  if getattr(cur, '_max_diff', None) != 2**10:
    c = ec_aggregate_checks.CheckECKeySmallDifference(max_diff=2**10)
    for k in (paranoid._EC_ALL, paranoid._EC_AGGREGATES):
      paranoid._check_factory[k]['CheckECKeySmallDifference'] = c


def _drop_tables():
  """The library keeps its largest baby-step table per curve object for the life of the process (up to ~1 GB
  per curve after a 120-key batch); dropping them between cases keeps a worker's memory bounded."""
  from paranoid_crypto.lib import ec_util  # pylint: disable=g-import-not-at-top
  for c in ec_util.CURVE_FACTORY.values():
    if c is not None:
      c._table, c._table_size = {}, 0


def _assert_clean(arts, clause, **ctx):
  for i, a in enumerate(arts):
    pos = [n for n, e in art.results(a.test_info).items() if any(r for r, _ in e)]
    if pos or a.test_info.weak:
      raise Violation(clause + ':healthy-accused', index=i, checks=pos, weak=bool(a.test_info.weak),
                      info={x.info_name: x.value[:120] for x in a.test_info.attached_info}, **ctx)


def _entries(a):
  return {n: e[0] for n, e in art.results(a.test_info).items()}


def _copy(a):
  c = type(a)()
  c.CopyFrom(a)
  c.ClearField('test_info')
  return c


# ---------------------------------------------------------------- RSA

def run_rsa(desc):
  mat = Material(desc['m'], 'c07r')
  keys = []
  for bits in desc['sizes']:
    p, q = fam.healthy(mat, bits)
    # healthy keys come in any well-formed encoding (leading zero bytes in n / e)
    enc = mat.below(4)
    keys.append(art.rsa_key(p * q, 65537, pad_n=[0, 0, 1, 0][enc], pad_e=[0, 1, 0, 5][enc]))
  ret = libcall(paranoid.CheckAllRSA, keys)
  _assert_clean(keys, 'rsa', sizes=desc['sizes'])
  if ret is not False:
    raise Violation('rsa:entry-point-returned-true', got=repr(ret), sizes=desc['sizes'])
  mixed = False
  if desc['weak']:
    weak = []
    for kind in desc['weak']:
      if kind == 'fermat':
        p, q, _ = fam.fermat_close(mat, 1024, 10)
      elif kind == 'pattern':
        p, q = fam.pattern_prime(mat, 1024, 16)[0], mat.prime(1024, top2=True)
      elif kind == 'small':
        p, q = fam.healthy(mat, 1024)
      else:
        p, q = 2, mat.prime(2047)
      weak.append(art.rsa_key(p * q))
    if len(weak) >= 2:   # two weak keys sharing a prime with each other (not with a healthy key)
      sp = mat.prime(1024, top2=True)
      weak.append(art.rsa_key(sp * mat.prime(1024, top2=True)))
      weak.append(art.rsa_key(sp * mat.prime(1024, top2=True)))
    batch = [(_copy(k), i) for i, k in enumerate(keys)] + [(w, None) for w in weak]
    batch = mat.shuffle(batch)
    libcall(paranoid.CheckAllRSA, [a for a, _ in batch])
    for a, i in batch:
      if i is not None and _entries(a) != _entries(keys[i]):
        raise Violation('rsa:verdict-changed-by-weak-neighbours', index=i, alone=_entries(keys[i]),
                        mixed=_entries(a))
    mixed = True
  return {'nt': len(keys) >= 2 or mixed, 'cls': ['rsa batch=%s' % (len(keys) if len(keys) < 3 else '3+')] +
          ['rsa size=%d' % b for b in sorted(set(desc['sizes']))] + (['rsa mixed-with-weak'] if mixed else [])}


def strat_rsa(tier):
  sizes = st.sampled_from([2048, 2048, 2048, 3072, 4096] if tier == 'thorough' else [2048, 2048, 2048, 3072])
  return st.fixed_dictionaries({
      'm': material, 'sizes': st.lists(sizes, min_size=1, max_size=4 if tier == 'quick' else 12),
      'weak': st.one_of(st.just([]), st.lists(st.sampled_from(['fermat', 'pattern', 'small', 'even']),
                                             min_size=1, max_size=3))})


# ---------------------------------------------------------------- EC

def run_ec(desc):
  try:
    return _run_ec(desc)
  finally:
    _drop_tables()


def _run_ec(desc):
  _install()
  mat = Material(desc['m'], 'c07e')
  keys = []
  ds = {}
  for cur, count in desc['parts']:
    cid = eg.STRONG_CURVES[cur % len(eg.STRONG_CURVES)]
    n = eg.ref(cid).n
    for _ in range(count):
      d = 1 + mat.below(n - 1)
      ds.setdefault(cid, []).append(d)
      x, y = eg.mul_g(cid, d)
      keys.append(art.ec_key(cid, x, y, pad=desc['pad']))
  for i in desc['dups']:
    keys.append(_copy(keys[i % len(keys)]))
  keys = mat.shuffle(keys)
  ret = libcall(paranoid.CheckAllEC, keys)
  _assert_clean(keys, 'ec', n=len(keys))
  if ret is not False:
    raise Violation('ec:entry-point-returned-true', got=repr(ret))
  mixed = False
  if desc['weak']:
    weak = []
    for kind, cur in desc['weak']:
      cid = eg.PRIME_CURVES[cur % len(eg.PRIME_CURVES)]
      n = eg.ref(cid).n
      if kind == 'small':
        x, y = eg.mul_g(cid, 1 + mat.below(1000))
      elif kind == 'pair':
        d = 1 + mat.below(n - 1000)
        weak.append(art.ec_key(cid, *eg.mul_g(cid, d)))
        x, y = eg.mul_g(cid, d + 1 + mat.below(500))
      elif kind == 'off':
        x, y = eg.mul_g(cid, 1 + mat.below(n - 1))
        y = (y + 1) % eg.ref(cid).p
      else:
        cid = 0
        x, y = mat.bits(200), mat.bits(200)
      weak.append(art.ec_key(cid, x, y))
    batch = mat.shuffle([(_copy(k), i) for i, k in enumerate(keys)] + [(w, None) for w in weak])
    libcall(paranoid.CheckAllEC, [a for a, _ in batch])
    for a, i in batch:
      if i is not None and _entries(a) != _entries(keys[i]):
        raise Violation('ec:verdict-changed-by-weak-neighbours', index=i, alone=_entries(keys[i]),
                        mixed=_entries(a))
    mixed = True
  return {'nt': len(keys) >= 2 or mixed,
          'cls': ['ec batch=%s' % ('1' if len(keys) == 1 else '2-20' if len(keys) <= 20 else '21+')] +
          (['ec with-duplicate-keys'] if desc['dups'] else []) + (['ec mixed-with-weak'] if mixed else [])}


def strat_ec(tier):
  part = st.tuples(st.integers(0, 7), st.sampled_from([1, 2, 5, 20, 60] if tier == 'quick' else
                                                      [1, 2, 5, 20, 40, 60])).map(list)
  return st.fixed_dictionaries({
      'm': material, 'parts': st.lists(part, min_size=1, max_size=2), 'pad': st.sampled_from([0, 0, 1]),
      'dups': st.lists(st.integers(0, 50), max_size=2),
      'weak': st.one_of(st.just([]), st.lists(st.tuples(st.sampled_from(['small', 'pair', 'off', 'unknown']),
                                                        st.integers(0, 8)).map(list), min_size=1, max_size=2))})


# ---------------------------------------------------------------- ECDSA

def run_sigs(desc):
  try:
    return _run_sigs(desc)
  finally:
    _drop_tables()


def _run_sigs(desc):
  _install()
  mat = Material(desc['m'], 'c07s')
  sigs = []
  for cur, count in desc['issuers']:
    cid = eg.STRONG_CURVES[cur % len(eg.STRONG_CURVES)]
    n = eg.ref(cid).n
    if cid in (eg.C.CURVE_SECP256R1, eg.C.CURVE_SECP256K1):
      count = min(count, 4)    # the java.util.Random LCG check costs seconds per signature pair there
    iss = eg.Issuer(cid, 1 + mat.below(n - 1))
    hl = [20, 28, 32, 48, 64][mat.below(5)]
    for k in eg.nonces_uniform(mat, n, count):
      s = iss.sig(k, mat.bytes(hl))
      if s is not None:
        sigs.append(s)
  if desc['shuffle']:
    sigs = mat.shuffle(sigs)
  ret = libcall(paranoid.CheckAllECDSASigs, sigs)
  _assert_clean(sigs, 'sigs', n=len(sigs))
  if ret is not False:
    raise Violation('sigs:entry-point-returned-true', got=repr(ret))
  mixed = False
  if desc['weak']:
    cid = [eg.C.CURVE_BRAINPOOLP256R1, eg.C.CURVE_SECP224R1, eg.C.CURVE_SECP384R1][desc['weak'] % 3]
    n = eg.ref(cid).n
    wi = eg.Issuer(cid, 1 + mat.below(n - 1))
    weak = [wi.sig(k, mat.bytes(32)) for k in eg.nonces_msb(mat, n, 64, 9 if n.bit_length() > 256 else 7)]
    if desc['weak'] >= 2:
      # neighbours whose ISSUER KEY is weak (small private key / weak curve / invalid point), uniform nonces
      for j in range(2):
        kc = [eg.C.CURVE_SECP224R1, eg.C.CURVE_SECP192R1, eg.C.CURVE_BRAINPOOLP256R1][(desc['weak'] + j) % 3]
        kn = eg.ref(kc).n
        ki = eg.Issuer(kc, 1 + mat.below(2**20) if j == 0 else 1 + mat.below(kn - 1))
        for k in eg.nonces_uniform(mat, kn, 2):
          sg = ki.sig(k, mat.bytes(32))
          if j == 1 and kc != eg.C.CURVE_SECP192R1:
            sg.issuer_key_info.y = art.i2b((ki.pub[1] + 1) % eg.ref(kc).p)
          weak.append(sg)
    batch = mat.shuffle([(_copy(s), i) for i, s in enumerate(sigs)] + [(w, None) for w in weak])
    libcall(paranoid.CheckAllECDSASigs, [a for a, _ in batch])
    for a, i in batch:
      if i is not None and _entries(a) != _entries(sigs[i]):
        raise Violation('sigs:verdict-changed-by-weak-neighbours', index=i, alone=_entries(sigs[i]),
                        mixed=_entries(a))
    mixed = True
  return {'nt': len(sigs) >= 2 or mixed,
          'cls': ['sigs batch=%s' % ('1' if len(sigs) == 1 else '2-10' if len(sigs) <= 10 else '11+')] +
          (['sigs mixed-with-weak'] if mixed else [])}


def strat_sigs(tier):
  issuer = st.tuples(st.sampled_from([0, 2, 3, 5, 6, 7, 1, 4]),
                     st.sampled_from([1, 2, 3, 6, 12, 30] if tier == 'quick' else [1, 2, 6, 24, 48, 60])).map(list)
  return st.fixed_dictionaries({
      'm': material, 'issuers': st.lists(issuer, min_size=1, max_size=3 if tier == 'quick' else 4),
      'shuffle': st.booleans(), 'weak': st.sampled_from([0, 0, 1, 2, 3, 4, 5])})


# ---------------------------------------------------------------- EC with the library's default max_diff (thorough only)

def run_ec_neighbours(desc):
  """Cheap EC checks one by one on a few healthy keys surrounded by weak keys of the SAME curve."""
  from paranoid_crypto.lib import ec_single_checks  # pylint: disable=g-import-not-at-top
  mat = Material(desc['m'], 'c07n')
  cid = eg.STRONG_CURVES[desc['curve'] % len(eg.STRONG_CURVES)]
  ref = eg.ref(cid)
  n = ref.n
  batch = []   # (key, healthy?)
  for kind in desc['layout']:
    wc = cid if desc['same_curve'] else eg.PRIME_CURVES[(desc['curve'] + 1 + mat.below(8)) % len(eg.PRIME_CURVES)]
    wn, wp = eg.ref(wc).n, eg.ref(wc).p
    if kind == 'h':
      batch.append((art.ec_key(cid, *eg.mul_g(cid, 1 + mat.below(n - 1)), pad=desc['pad']), True))
    elif kind == 'small':
      batch.append((art.ec_key(wc, *eg.mul_g(wc, 1 + mat.below(1000))), False))
    elif kind == 'pair':
      d = 1 + mat.below(wn - 1000)
      batch.append((art.ec_key(wc, *eg.mul_g(wc, d)), False))
      batch.append((art.ec_key(wc, *eg.mul_g(wc, d + 1 + mat.below(500))), False))
    elif kind == 'off':
      x, y = eg.mul_g(wc, 1 + mat.below(wn - 1))
      batch.append((art.ec_key(wc, x, (y + 1) % wp), False))
    elif kind == 'zero':
      batch.append((art.ec_key(wc, 0, 0), False))
    elif kind == 'big':
      batch.append((art.ec_key(wc, wp + mat.below(1000), wp + mat.below(1000)), False))
  if not any(h for _, h in batch):
    batch.append((art.ec_key(cid, *eg.mul_g(cid, 1 + mat.below(n - 1))), True))
  checks = {'valid': ec_single_checks.CheckValidECKey, 'curve': ec_single_checks.CheckWeakCurve,
            'diff': lambda: ec_aggregate_checks.CheckECKeySmallDifference(max_diff=2**[6, 10, 12][desc['m'] % 3])}
  try:
    for c in desc['checks']:
      libcall(checks[c]().Check, [k for k, _ in batch])
  finally:
    _drop_tables()
  healthy = [k for k, h in batch if h]
  _assert_clean(healthy, 'ec-neighbours', layout=desc['layout'], ran=desc['checks'])
  weak_seen = sum(1 for k, h in batch if not h and k.test_info.weak)
  return {'nt': weak_seen > 0, 'cls': ['ecn check=' + c for c in desc['checks']] +
          ['ecn kind=' + k for k in sorted(set(desc['layout'])) if k != 'h'] +
          (['ecn same-curve'] if desc['same_curve'] else ['ecn other-curve']) +
          (['ecn weak-neighbour-flagged'] if weak_seen else [])}


def strat_ec_neighbours(tier):
  return st.fixed_dictionaries({
      'm': material, 'curve': st.integers(0, 7), 'pad': st.sampled_from([0, 0, 1]),
      'layout': st.lists(st.sampled_from(['h', 'h', 'h', 'small', 'pair', 'off', 'zero', 'big']), min_size=2,
                         max_size=8),
      'same_curve': st.sampled_from([True, True, True, False]),
      'checks': st.lists(st.sampled_from(['valid', 'curve', 'diff', 'diff']), min_size=1, max_size=3, unique=True)})


def run_ec_default(desc):
  """The untouched default configuration CheckECKeySmallDifference() (2^24 table: ~85 s, ~3.3 GB)."""
  mat = Material(desc['m'], 'c07d')
  cid = eg.STRONG_CURVES[desc['curve'] % len(eg.STRONG_CURVES)]
  n = eg.ref(cid).n
  keys = [art.ec_key(cid, *eg.mul_g(cid, 1 + mat.below(n - 1))) for _ in range(desc['count'])]
  keys.append(_copy(keys[0]))   # the same healthy key listed twice
  try:
    ret = libcall(ec_aggregate_checks.CheckECKeySmallDifference().Check, keys)
  finally:
    _drop_tables()
  _assert_clean(keys, 'ec-default-maxdiff', n=len(keys))
  if ret is not False:
    raise Violation('ec-default-maxdiff:returned-true', got=repr(ret))
  return {'nt': True, 'cls': ['ec default max_diff=2^24 %s' % eg.CURVE_NAMES[cid]]}


def enum_ec_default(tier):
  if tier != 'thorough':
    return
  for i, curve in enumerate((1, 5)):
    yield {'m': 4242 + i, 'curve': curve, 'count': 40}


ARMS = [
    Arm('rsa', run_rsa, strategy=strat_rsa, quick=320, thorough=2500, budget=(170, 1500), weight=3),
    Arm('ec', run_ec, strategy=strat_ec, quick=32, thorough=600, budget=(170, 1500), weight=2, shards=8),
    Arm('ec_neighbours', run_ec_neighbours, strategy=strat_ec_neighbours, quick=960, thorough=16000,
        budget=(170, 1200)),
    Arm('ec_default_maxdiff', run_ec_default, enumerate=enum_ec_default, budget=(10, 900), weight=9),
    Arm('signatures', run_sigs, strategy=strat_sigs, quick=48, thorough=1500, budget=(170, 1500), weight=2),
]
