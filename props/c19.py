"""C19 - number-theory, lattice and linear-algebra helpers return only true solutions."""

import bisect
import itertools
import math
from fractions import Fraction

import gmpy2 as gmpy
from hypothesis import strategies as st
import sympy

from gens.common import Material, material, semiprime_exact
from harness.core import Arm, Violation, libcall
from refs import c19_ref as R

from paranoid_crypto.lib import linalg_util
from paranoid_crypto.lib import lll
from paranoid_crypto.lib import ntheory_util
from paranoid_crypto.lib import small_roots
from paranoid_crypto.lib.randomness_tests import lattice_suite
from paranoid_crypto.lib.randomness_tests import util

ID = 'C19'
TITLE = 'Number-theory, lattice and linear-algebra helpers return only true solutions'
TECHNIQUE = ('exhaustive enumeration of small domains + Hypothesis-drawn descriptors, each judged by a '
             'definition-level oracle (brute force, exact rationals, mpmath)')
RULE = (
    '2-adic helpers: every (n, k) with n < 2^12, k <= 12 (exhaustive, brute-force root tables) plus '
    'drawn n of 1..4096 bits (every residue mod 8 forced, n = 1 + odd*2^j, negative n) and k at the '
    'Newton-doubling boundaries; non-trivial = n even or residue without a solution, or a solvable '
    'case with >= 2 doubling steps. ContinuedFraction: drawn (a, b) and fractions built from drawn '
    'coefficient lists, vs fractions.Fraction. DivmodRounded: a = q*b + (b//2 + d), |d| <= 2, and '
    'random remainders; non-trivial = remainder within 2 of b/2. Sieve: every n <= 20000 vs trial '
    'division. Linear solver: every 1x1, 2x1, 3x1, 2x2, 3x2 matrix over {-1,0,1,2}, 4x2 over {0,1,2}, 3x3 over '
    '{-1,0,1} (thorough: 4x2, 3x3 over {-1,0,1,2}, 4x3 over {-1,0,1}), two right-hand sides each, and drawn '
    'matrices up to 8x5 (entries -3..3) with zero rows, scaled/duplicated/combined rows, zero '
    'leading entries, zero columns, right-hand side A*x0; non-trivial = matrix has a zero or '
    'dependent row or a zero leading pivot. Small roots: RSA moduli of 128..512 (thorough ..2048) '
    'bits with roots planted below the bound inside the asserted region (must be found), random and '
    'planted polynomials with bounds up to N/2 bits and every x + c modulo every balanced semiprime '
    '<= 400 (thorough 899), bounds 2..4 (any returned root must be a true root); non-trivial = planted root within a factor 4 '
    'of the bound, resp. a root was returned. PseudoAverage: every residue multiset with n <= 5, m <= 5 '
    'and drawn lists (m <= 10) vs brute force over all 2^m selections; non-trivial = the optimum '
    'shifts a proper non-empty subset. UniformSumCdf/Bias vs exact Irwin-Hall in rationals; '
    'CombinedPValue/Igamc/NormalCdf/BinomialCdf vs 420-digit series / exact sums. Distinctness by '
    'SHA-256 of the descriptor.')
ASSUMPTIONS = [
    'Python integer / fractions.Fraction arithmetic and math.gcd are correct',
    'mpmath elementary functions (exp, log, loggamma, erfc) are correct at 60-420 digits',
    'DivmodRounded is specified for b >= 1; ties (2|r| == b) may be rounded either way',
    'ContinuedFraction is specified for b >= 1 (floor convention for negative a)',
    'PseudoAverage may round a mean with fractional part 1/2 either way and may pick any '
    'variance-minimising selection',
    'float tolerances: UniformSumCdf/Bias |d| <= 1e-9 + 1e-8 p for n <= 36, <= 2e-3 for 36 < n <= 100 '
    '(documented normal approximation); Igamc/CombinedPValue relative 1e-9 or absolute 1e-300; '
    'BinomialCdf relative 1e-9 or absolute 1e-200 (scipy loses isolated tails below 1e-260); '
    'NormalCdf relative 1e-9 or absolute 4e-16 (the documented formula (1 + erf)/2 in doubles)',
    'small-root completeness is asserted only inside the calibrated region: unknown part <= 0.15 N bits '
    '(univariate degree 1, k = 3), <= 0.15 N / d (degree d = 2, 3), <= 0.09 N in total (bivariate '
    'Herrmann-May, m = 4), <= 0.05 N in total (trivariate Herrmann-May, m = 4), <= 0.25 N in total '
    '(bivariate Jochemsz-May, m = 1)',
    'small-root soundness is asserted for bounds up to N/2 bits (univariate_modp raises sympy '
    'GeneratorsNeeded for bounds far above p; not asserted)',
]


def _is_int(v):
  return isinstance(v, int) and not isinstance(v, bool) or type(v).__name__ == 'mpz'


def _bucket(v, edges):
  for e in edges:
    if v <= e:
      return '<=%d' % e
  return '>%d' % edges[-1]


# =============================================================================
# 2-adic helpers
# =============================================================================

_INVSQRT_OK = {}


def _invsqrt_solvable_brute(k):
  """Residues n mod 2^k for which some a has a*a*n = 1 (mod 2^k), by brute force."""
  if k not in _INVSQRT_OK:
    mod = 1 << k
    squares = sorted(R.sqrt_table(k))
    ok = set()
    for n in range(mod):
      for s in squares:
        if (s * n - 1) % mod == 0:
          ok.add(n)
          break
    _INVSQRT_OK[k] = ok
  return _INVSQRT_OK[k]


def _check_inverse(n, k, brute):
  a = libcall(ntheory_util.Inverse2exp, n, k)
  if a is not None and not _is_int(a):
    raise Violation('inverse2exp:type', n=n, k=k, got=repr(a))
  if k == 0:
    return                      # modulo 1 every value (or None) is defensible
  mod = 1 << k
  exists = n % 2 == 1
  if brute:
    exists_b = bool(R.brute_inverse(n % mod, k))
    assert exists_b == exists
  if not exists:
    if a is not None:
      raise Violation('inverse2exp:value-for-non-invertible', n=n, k=k, got=int(a))
  else:
    if a is None:
      raise Violation('inverse2exp:none-for-invertible', n=n, k=k)
    if (int(a) * n - 1) % mod != 0:
      raise Violation('inverse2exp:congruence', n=n, k=k, got=int(a))


def _check_invsqrt(n, k, brute):
  a = libcall(ntheory_util.InverseSqrt2exp, n, k)
  if a is not None and not _is_int(a):
    raise Violation('inversesqrt2exp:type', n=n, k=k, got=repr(a))
  if k == 0:
    return
  mod = 1 << k
  exists = R.invsqrt_solvable(n, k)
  if brute:
    assert ((n % mod) in _invsqrt_solvable_brute(k)) == exists
  if not exists:
    if a is not None:
      raise Violation('inversesqrt2exp:value-without-solution', n=n, k=k, got=int(a))
  else:
    if a is None:
      raise Violation('inversesqrt2exp:none-though-solvable', n=n, k=k)
    if (int(a) * int(a) * n - 1) % mod != 0:
      raise Violation('inversesqrt2exp:congruence', n=n, k=k, got=int(a))
  return exists


def _check_sqrt(n, k, brute):
  if n % 2 == 0 or k < 0:
    try:
      got = libcall(ntheory_util.Sqrt2exp, n, k, expect=(ValueError,))
    except ValueError:
      return None
    raise Violation('sqrt2exp:no-valueerror', n=n, k=k, got=repr(got)[:200])
  roots = libcall(ntheory_util.Sqrt2exp, n, k)
  if not isinstance(roots, list) or not all(_is_int(r) for r in roots):
    raise Violation('sqrt2exp:type', n=n, k=k, got=repr(roots)[:200])
  roots = [int(r) for r in roots]
  mod = 1 << k
  if brute:
    expected = R.sqrt_table(k).get(n % mod, [])
    if sorted(roots) != expected:
      raise Violation('sqrt2exp:root-set', n=n, k=k, got=sorted(roots), expected=expected)
    return len(expected)
  # k >= 3 in the random arm is decided by the n % 8 criterion: 4 roots or none
  if k >= 3:
    want = 4 if n % 8 == 1 else 0
  elif k == 0:
    want = 1
  elif k == 1:
    want = 1
  else:
    want = 2 if n % 4 == 1 else 0
  for r in roots:
    if not 0 <= r < mod:
      raise Violation('sqrt2exp:root-not-reduced', n=n, k=k, root=r)
    if (r * r - n) % mod != 0:
      raise Violation('sqrt2exp:not-a-root', n=n, k=k, root=r)
  if len(set(roots)) != len(roots):
    raise Violation('sqrt2exp:duplicate-roots', n=n, k=k, got=roots)
  if len(roots) != want:
    raise Violation('sqrt2exp:root-count', n=n, k=k, got=len(roots), expected=want)
  return want


def run_twoadic_exh(desc):
  k = desc['k']
  unsolvable = 0
  for n in range(desc['lo'], desc['lo'] + desc['cnt']):
    _check_inverse(n, k, brute=k <= 8)
    ex = _check_invsqrt(n, k, brute=True)
    _check_sqrt(n, k, brute=True)
    if not ex:
      unsolvable += 1
  return {'nt': unsolvable > 0, 'cls': ['2adic-exh k=%d' % k], 'cases': desc['cnt'],
          'unsolvable': unsolvable}


def enum_twoadic(tier):
  for k in range(0, 13):
    for lo in range(0, 4096, 64):
      yield {'k': k, 'lo': lo, 'cnt': 64}


def _twoadic_n(desc):
  mat = Material(desc['m'], 'c19-2adic')
  nb = desc['nb']
  form = desc['form']
  if form == 'rand':
    n = mat.bits(nb) | (1 << (nb - 1))
  elif form == 'near1':
    j = 3 + desc['j'] % max(1, nb)
    n = 1 + ((mat.bits(nb) | 1) << j)
  elif form == 'ones':
    n = (1 << nb) - 1
  else:  # 'small'
    n = desc['j']
  if desc.get('low3') is not None:
    n = (n & ~7) | desc['low3']
  if desc.get('neg'):
    n = -n
  return n


def run_twoadic_rand(desc):
  n = _twoadic_n(desc)
  k = desc['k']
  cls = []
  if k < 0:
    _check_sqrt(n, k, brute=False)
    return {'nt': True, 'cls': ['sqrt2exp negative k -> ValueError']}
  _check_inverse(n, k, brute=False)
  ex = _check_invsqrt(n, k, brute=False)
  cnt = _check_sqrt(n, k, brute=False)
  cls.append('n even' if n % 2 == 0 else 'n%%8==%d' % (n % 8))
  cls.append('k=%d' % k if k < 4 else 'k ' + _bucket(k, [8, 64, 256, 1024, 4096]))
  if n < 0:
    cls.append('negative n')
  if k > abs(n).bit_length():
    cls.append('k > bitlen(n)')
  if cnt == 4:
    cls.append('four roots')
  nt = (n % 2 == 0) or (k >= 1 and not ex) or (bool(ex) and k >= 6)
  return {'nt': nt, 'cls': cls, 'bits': abs(n).bit_length()}


def strat_twoadic(tier):
  bounds = sorted({(1 << j) + d for j in range(1, 13) for d in (-2, -1, 0, 1, 2, 3, 4)} |
                  {3 * (1 << j) + d for j in range(0, 10) for d in (-1, 0, 1)})
  k_s = st.one_of(st.integers(0, 40), st.sampled_from([b for b in bounds if 0 <= b <= 4200]),
                  st.integers(0, 4200), st.integers(-3, -1))
  nb_s = st.one_of(st.integers(1, 80), st.sampled_from([128, 255, 256, 257, 1024, 2048, 4096]),
                   st.integers(1, 4096))
  return st.fixed_dictionaries({
      'm': material, 'nb': nb_s, 'k': k_s,
      'form': st.sampled_from(['rand', 'rand', 'rand', 'near1', 'ones', 'small']),
      'j': st.integers(0, 5000),
      'low3': st.one_of(st.none(), st.integers(0, 7), st.just(1), st.just(1)),
      'neg': st.sampled_from([False, False, False, True]),
  })


# =============================================================================
# ContinuedFraction
# =============================================================================

def _cf_input(desc):
  if desc['t'] == 'ab':
    return desc['a'], desc['b'], None
  if desc['t'] == 'big':
    mat = Material(desc['m'], 'c19-cf')
    a = mat.bits(desc['ab'])
    b = mat.bits(desc['bb']) | (1 << (desc['bb'] - 1))
    if desc.get('g'):
      g = mat.bits(desc['g']) | 1
      a, b = a * g, b * g
    return (-a if desc.get('neg') else a), b, None
  q = list(desc['q'])
  for i in range(1, len(q)):
    q[i] = max(1, abs(q[i]))
  if len(q) > 1 and q[-1] == 1:
    q = q[:-2] + [q[-2] + 1]
  v = R.cf_eval(q)
  g = desc.get('g') or 1
  return v.numerator * g, v.denominator * g, q


def run_contfrac(desc):
  a, b, q_expected = _cf_input(desc)
  res = libcall(ntheory_util.ContinuedFraction, a, b)
  ref = R.cf_coefficients(a, b)
  if q_expected is not None:
    assert ref == q_expected, (ref, q_expected)
  if not isinstance(res, list) or not all(isinstance(t, tuple) and len(t) == 3 and
                                          all(_is_int(v) for v in t) for t in res):
    raise Violation('continuedfraction:shape', a=a, b=b, got=repr(res)[:200])
  got_q = [int(t[0]) for t in res]
  if got_q != ref:
    raise Violation('continuedfraction:coefficients', a=a, b=b, got=got_q[:12], expected=ref[:12],
                    got_len=len(got_q), expected_len=len(ref))
  L = len(ref)
  if L <= 48:
    idx = range(L)
  else:
    mat = Material(L * 1000003 + (a % 1000003), 'c19-cf-idx')
    idx = sorted(set([0, 1, 2, 3, L - 3, L - 2, L - 1] + [mat.below(L) for _ in range(8)]))
  for i in idx:
    conv = R.cf_eval(ref[:i + 1])
    r, t = int(res[i][1]), int(res[i][2])
    if r != conv.numerator or t != conv.denominator:
      raise Violation('continuedfraction:convergent', a=a, b=b, index=i, got=[r, t],
                      expected=[conv.numerator, conv.denominator])
  r, t = int(res[-1][1]), int(res[-1][2])
  if r * b != a * t:
    raise Violation('continuedfraction:last-convergent', a=a, b=b, got=[r, t])
  cls = ['cf-len ' + _bucket(L, [1, 2, 8, 48, 400])]
  if a < 0:
    cls.append('cf negative a')
  if 0 <= a < b:
    cls.append('cf a<b (q0=0)')
  if math.gcd(a, b) != 1:
    cls.append('cf not in lowest terms')
  if desc['t'] == 'q':
    cls.append('cf built from coefficients')
  return {'nt': L >= 3, 'cls': cls, 'len': L}


def strat_contfrac(tier):
  small = st.fixed_dictionaries({'t': st.just('ab'), 'a': st.integers(-60, 400),
                                 'b': st.integers(1, 400)})
  mid = st.fixed_dictionaries({'t': st.just('ab'), 'a': st.integers(0, 1 << 70),
                               'b': st.integers(1, 1 << 70)})
  big = st.fixed_dictionaries({
      't': st.just('big'), 'm': material,
      'ab': st.one_of(st.integers(1, 300), st.sampled_from([512, 1024, 2048, 4096])),
      'bb': st.one_of(st.integers(1, 300), st.sampled_from([512, 1024, 2048, 4096])),
      'g': st.sampled_from([0, 0, 1, 17, 64]), 'neg': st.sampled_from([False, False, True])})
  coeff = st.one_of(st.integers(1, 3), st.integers(1, 1000), st.integers(1, 1 << 64))
  fromq = st.fixed_dictionaries({
      't': st.just('q'),
      'q': st.builds(lambda q0, rest: [q0] + rest, st.integers(-5, 1 << 20),
                     st.lists(coeff, min_size=0, max_size=30)),
      'g': st.sampled_from([1, 1, 2, 6, 1 << 40])})
  return st.one_of(small, mid, big, fromq)


# =============================================================================
# DivmodRounded
# =============================================================================

def _divmod_input(desc):
  b = desc['b']
  if desc['pos'][0] == 'mid':
    a = desc['q'] * b + b // 2 + desc['pos'][1]
  else:
    a = desc['q'] * b + Material(desc['pos'][1], 'c19-divmod').below(b)
  return a, b


def run_divmod(desc):
  a, b = _divmod_input(desc)
  res = libcall(ntheory_util.DivmodRounded, a, b)
  if not isinstance(res, tuple) or len(res) != 2 or not all(_is_int(v) for v in res):
    raise Violation('divmodrounded:shape', a=a, b=b, got=repr(res)[:200])
  q, r = int(res[0]), int(res[1])
  if a != q * b + r:
    raise Violation('divmodrounded:identity', a=a, b=b, q=q, r=r)
  if 2 * abs(r) > b:
    # q is not the nearest integer to a/b (|a/b - q| = |r|/b > 1/2)
    raise Violation('divmodrounded:not-nearest', a=a, b=b, q=q, r=r)
  cls = ['divmod b odd' if b % 2 else 'divmod b even']
  if b == 1:
    cls.append('divmod b=1')
  if 2 * abs(r) == b:
    cls.append('divmod tie')
  if a < 0:
    cls.append('divmod negative a')
  near = abs(a % b - b // 2) <= 2
  return {'nt': near, 'cls': cls}


def strat_divmod(tier):
  b_s = st.one_of(st.integers(1, 40), st.integers(1, 1 << 70),
                  st.sampled_from([1 << 64, (1 << 64) + 1, (1 << 1024) - 1, 1 << 1024, 3 ** 200]))
  q_s = st.one_of(st.integers(-5, 5), st.integers(-(1 << 80), 1 << 80))
  pos = st.one_of(st.tuples(st.just('mid'), st.integers(-2, 2)).map(list),
                  st.tuples(st.just('rand'), material).map(list))
  return st.fixed_dictionaries({'b': b_s, 'q': q_s, 'pos': pos})


def enum_divmod(tier):
  """every (a, b) with 1 <= b <= 24 and -3b <= a <= 3b, in chunks per b."""
  for b in range(1, 25):
    yield {'b': b}


def run_divmod_small(desc):
  b = desc['b']
  for a in range(-3 * b, 3 * b + 1):
    run_divmod({'b': b, 'q': 0, 'pos': ['mid', a - b // 2]})
  return {'nt': True, 'cls': ['divmod exhaustive b=%s' % ('odd' if b % 2 else 'even')]}


# =============================================================================
# Sieve
# =============================================================================

_SIEVE_MAX = 20000


def run_sieve(desc):
  primes = R.primes_below(_SIEVE_MAX + 1)
  ns = list(range(desc['lo'], desc['lo'] + desc['cnt']))
  if desc.get('order') == 'desc':
    # a larger bound is sieved first (the result must not depend on earlier, larger requests)
    libcall(ntheory_util.Sieve, desc['lo'] + desc['cnt'] + 1000)
    ns.reverse()
  for n in ns:
    got = libcall(ntheory_util.Sieve, n)
    expected = primes[:bisect.bisect_left(primes, n)]
    if not isinstance(got, list) or [int(v) for v in got] != expected:
      g = [int(v) for v in got] if isinstance(got, list) else repr(got)
      diff = sorted(set(g) ^ set(expected))[:6] if isinstance(g, list) else g
      raise Violation('sieve:primes', n=n, symmetric_difference=diff)
  return {'nt': True, 'cls': ['sieve n ' + _bucket(desc['lo'], [10, 100, 1000, 20000])],
          'cases': desc['cnt']}


def enum_sieve(tier):
  for lo in range(0, _SIEVE_MAX + 1, 50):
    yield {'lo': lo, 'cnt': min(50, _SIEVE_MAX + 1 - lo)}
  for lo in range(0, _SIEVE_MAX + 1, 50 if tier == 'thorough' else 250):
    yield {'lo': lo, 'cnt': min(50, _SIEVE_MAX + 1 - lo), 'order': 'desc'}


# =============================================================================
# product trees (light; C03 covers them in depth)
# =============================================================================

def run_tree(desc):
  mat = Material(desc['m'], 'c19-tree')
  vals = [max(1, mat.bits(b)) if b else 1 for b in desc['bits']]
  conv = gmpy.mpz if desc.get('mpz') else int
  p = libcall(ntheory_util.FastProduct, [conv(v) for v in vals])
  if int(p) != math.prod(vals):
    raise Violation('fastproduct', values=vals, got=int(p))
  tree, t = libcall(ntheory_util.ExtendedProductTree, [conv(v) for v in vals])
  if vals:
    P = math.prod(vals)
    if [int(v) for v in tree[0]] != vals or [int(v) for v in tree[-1]] != [P]:
      raise Violation('producttree:levels', n=len(vals))
    for lo, hi in zip(tree, tree[1:]):
      exp = [int(lo[i]) * (int(lo[i + 1]) if i + 1 < len(lo) else 1) for i in range(0, len(lo), 2)]
      if [int(v) for v in hi] != exp:
        raise Violation('producttree:level', n=len(vals))
    if int(t) != sum(P // v for v in vals):
      raise Violation('producttree:T', n=len(vals), got=int(t))
  return {'nt': len(vals) >= 3 and len(vals) & (len(vals) - 1) != 0,
          'cls': ['tree-len=%d' % len(vals) if len(vals) < 4 else 'tree-len>=4']}


def strat_tree(tier):
  return st.fixed_dictionaries({'m': material, 'mpz': st.booleans(),
                                'bits': st.lists(st.integers(0, 96), min_size=0, max_size=40)})


# =============================================================================
# linear algebra
# =============================================================================

def _frac(v):
  return Fraction(int(v.numerator), int(v.denominator))


def _linalg_checks(a, b, x, conv, tag):
  """a: integer matrix (m >= n), b = a*x with x a list of Fractions (consistent system)."""
  nr, nc = len(a), len(a[0])
  out = {}
  # ---- solve_right
  A = [[conv(v) for v in row] for row in a]
  B = [conv(v) for v in b]
  sol = libcall(linalg_util.solve_right, A, B)
  if sol is None:
    out['solve'] = 'none'
  else:
    if not isinstance(sol, list) or len(sol) != nc:
      raise Violation('solve_right:shape', a=a, b=b, got=repr(sol)[:200])
    try:
      xs = [_frac(v) for v in sol]
    except (AttributeError, TypeError, ValueError):
      raise Violation('solve_right:shape', a=a, b=b, got=repr(sol)[:200])
    for i in range(nr):
      if sum(Fraction(a[i][k]) * xs[k] for k in range(nc)) != b[i]:
        raise Violation('solve_right:not-a-solution', a=a, b=b, got=[str(v) for v in xs],
                        failing_row=i, planted=[str(v) for v in x])
    out['solve'] = 'found'
  # ---- echelon_form: only row operations / exact divisions -> x still solves the result
  A2 = [[conv(v) for v in row] for row in a]
  B2 = [conv(v) for v in b]
  rank = libcall(linalg_util.echelon_form, A2, B2)
  if not _is_int(rank) or len(A2) != nr or len(B2) != nr or any(len(r) != nc for r in A2):
    raise Violation('echelon_form:shape', a=a, b=b, rank=repr(rank))
  for i in range(nr):
    if not all(_is_int(v) for v in A2[i]) or not _is_int(B2[i]):
      raise Violation('echelon_form:non-integer', a=a, b=b, row=i)
    if sum(int(A2[i][k]) * x[k] for k in range(nc)) != int(B2[i]):
      raise Violation('echelon_form:solution-lost', a=a, b=b, row=i,
                      got_row=[int(v) for v in A2[i]], got_b=int(B2[i]),
                      planted=[str(v) for v in x])
  A3 = [[conv(v) for v in row] for row in a]
  rank3 = libcall(linalg_util.echelon_form, A3)
  if [[int(v) for v in r] for r in A3] != [[int(v) for v in r] for r in A2] or rank3 != rank:
    raise Violation('echelon_form:b-changes-a', a=a, b=b)
  out['rank'] = int(rank)
  return out


def _matrix_classes(a, out):
  nr, nc = len(a), len(a[0])
  true_rank = R.mat_rank(a)
  cls = []
  zero_row = any(all(v == 0 for v in r) for r in a)
  dependent = true_rank < nr        # a dependent row exists iff rank < number of rows
  zero_lead = any(a[i][i] == 0 for i in range(min(nr, nc)))
  if zero_row:
    cls.append('mat zero row')
  if true_rank < nc:
    cls.append('mat rank-deficient columns')
  else:
    cls.append('mat full column rank')
  if zero_lead:
    cls.append('mat zero on diagonal')
  cls.append('solve_right -> %s' % out['solve'])
  if out['solve'] == 'none' and true_rank == nc:
    cls.append('solve_right None though full column rank (allowed)')
  nt = zero_row or zero_lead or (dependent and nr > 1)
  return cls, nt, true_rank


def _apply_ops(a, ops):
  nr, nc = len(a), len(a[0])
  a = [list(r) for r in a]
  for op in ops:
    kind = op[0]
    i = op[1] % nr
    j = op[2] % nr
    c = op[3]
    if kind == 'zero_row':
      a[i] = [0] * nc
    elif kind == 'scale':        # row i = c * row j
      a[i] = [c * v for v in a[j]]
    elif kind == 'comb':         # row i = row j + c * row (j+1)
      k = (j + 1) % nr
      a[i] = [v + c * w for v, w in zip(a[j], a[k])]
    elif kind == 'zero_diag':
      d = op[1] % min(nr, nc)
      a[d][d] = 0
    elif kind == 'zero_col':
      col = op[2] % nc
      for r in a:
        r[col] = 0
    elif kind == 'lead_prop':    # first two entries of row i proportional to those of row j
      if nc >= 2:
        a[i][0], a[i][1] = c * a[j][0], c * a[j][1]
    elif kind == 'move':         # move row i to position j
      a.insert(j, a.pop(i))
  return a


def _linalg_desc_matrix(desc):
  nc = desc['nc']
  flat = desc['a']
  nr = len(flat) // nc
  a = [flat[i * nc:(i + 1) * nc] for i in range(nr)]
  a = _apply_ops(a, desc.get('ops', []))
  den = desc.get('den', 1)
  x = [Fraction(v, den) for v in desc['x0']]
  a = [[den * v for v in r] for r in a]
  b = [sum(r[k] * x[k] for k in range(nc)) for r in a]
  assert all(v.denominator == 1 for v in b)
  b = [int(v) for v in b]
  return a, b, x


def run_linalg_rand(desc):
  a, b, x = _linalg_desc_matrix(desc)
  conv = gmpy.mpz if desc.get('mpz') else int
  out = _linalg_checks(a, b, x, conv, 'rand')
  cls, nt, true_rank = _matrix_classes(a, out)
  cls.append('mat %s' % ('<=3 cols' if len(a[0]) <= 3 else '>=4 cols'))
  return {'nt': nt, 'cls': cls, 'shape': [len(a), len(a[0])], 'rank': true_rank}


def strat_linalg(tier):
  max_nc = 5 if tier == 'quick' else 6
  max_extra = 3 if tier == 'quick' else 4

  @st.composite
  def s(draw):
    nc = draw(st.integers(1, max_nc))
    nr = nc + draw(st.integers(0, max_extra))
    ent = st.integers(-3, 3)
    a = draw(st.lists(ent, min_size=nr * nc, max_size=nr * nc))
    op = st.tuples(
        st.sampled_from(['zero_row', 'scale', 'scale', 'comb', 'zero_diag', 'zero_col',
                         'lead_prop', 'lead_prop', 'move']),
        st.integers(0, 7), st.integers(0, 7), st.integers(-2, 3)).map(list)
    ops = draw(st.lists(op, min_size=0, max_size=4))
    x0 = draw(st.lists(st.integers(-5, 5), min_size=nc, max_size=nc))
    return {'nc': nc, 'a': a, 'ops': ops, 'x0': x0, 'den': draw(st.sampled_from([1, 1, 1, 2, 3])),
            'mpz': draw(st.booleans())}
  return s()


def _exh_matrix(idx, nr, nc, vals):
  base = len(vals)
  flat = []
  for _ in range(nr * nc):
    flat.append(vals[idx % base])
    idx //= base
  return [flat[i * nc:(i + 1) * nc] for i in range(nr)]


_X0S = {1: [[1], [-2]], 2: [[1, -2], [3, 0]], 3: [[1, -2, 3], [0, 2, -1]]}


def run_linalg_exh(desc):
  if desc.get('err'):
    return _run_linalg_err(desc)
  nr, nc, vals = desc['nr'], desc['nc'], desc['vals']
  nt = 0
  found = 0
  for idx in range(desc['lo'], desc['lo'] + desc['cnt']):
    a = _exh_matrix(idx, nr, nc, vals)
    for x0 in _X0S[nc]:
      x = [Fraction(v) for v in x0]
      b = [sum(r[k] * x0[k] for k in range(nc)) for r in a]
      out = _linalg_checks(a, b, x, int, 'exh')
      found += out['solve'] == 'found'
    if R.mat_rank(a) < nr or any(a[i][i] == 0 for i in range(min(nr, nc))):
      nt += 1
  return {'nt': nt > 0, 'cls': ['mat exhaustive %dx%d' % (nr, nc)], 'cases': desc['cnt'] * 2,
          'solved': found}


def _run_linalg_err(desc):
  kind = desc['err']
  a = [[1, 2, 3], [4, 5, 6]]
  try:
    if kind == 'solve-underdetermined':
      got = libcall(linalg_util.solve_right, a, [1, 2], expect=(ValueError,))
    elif kind == 'solve-b-length':
      got = libcall(linalg_util.solve_right, [[1, 2], [3, 4], [5, 6]], [1, 2], expect=(ValueError,))
    elif kind == 'ut-not-square':
      got = libcall(linalg_util.upper_triangular_solve, a, [1, 2], expect=(ValueError,))
    else:
      got = libcall(linalg_util.upper_triangular_solve, [[1, 2], [0, 1]], [1, 2, 3],
                    expect=(ValueError,))
  except ValueError:
    return {'nt': False, 'cls': ['documented ValueError: ' + kind]}
  raise Violation('linalg:no-valueerror', kind=kind, got=repr(got)[:100])


def enum_linalg(tier):
  for kind in ('solve-underdetermined', 'solve-b-length', 'ut-not-square', 'ut-b-length'):
    yield {'err': kind}
  shapes = [(1, 1, [-1, 0, 1, 2]), (2, 1, [-1, 0, 1, 2]), (3, 1, [-1, 0, 1, 2]),
            (2, 2, [-1, 0, 1, 2]), (3, 2, [-1, 0, 1, 2]), (4, 2, [0, 1, 2]), (3, 3, [0, 1, -1])]
  if tier == 'thorough':
    shapes += [(4, 2, [-1, 0, 1, 2]), (3, 3, [-1, 0, 1, 2]), (4, 3, [0, 1, -1])]
  for nr, nc, vals in shapes:
    total = len(vals) ** (nr * nc)
    chunk = 64 if total <= 8192 else 512
    for lo in range(0, total, chunk):
      yield {'nr': nr, 'nc': nc, 'vals': vals, 'lo': lo, 'cnt': min(chunk, total - lo)}


def run_upper_tri(desc):
  n = desc['n']
  u = desc['u']
  a = [[0] * n for _ in range(n)]
  it = iter(u)
  for i in range(n):
    for j in range(i, n):
      a[i][j] = next(it)
  for z in desc.get('z', []):
    a[z % n][z % n] = 0
  b = desc['b'][:n]
  conv = gmpy.mpz if desc.get('mpz') else int
  res = libcall(linalg_util.upper_triangular_solve, [[conv(v) for v in r] for r in a],
                [conv(v) for v in b])
  zero_diag = any(a[i][i] == 0 for i in range(n))
  if zero_diag:
    if res is not None:
      raise Violation('upper_triangular_solve:value-with-zero-diagonal', a=a, b=b,
                      got=repr(res)[:200])
  else:
    if res is None:
      raise Violation('upper_triangular_solve:none-without-zero-diagonal', a=a, b=b)
    if not isinstance(res, list) or len(res) != n:
      raise Violation('upper_triangular_solve:shape', a=a, b=b, got=repr(res)[:200])
    xs = [_frac(v) for v in res]
    for i in range(n):
      if sum(a[i][k] * xs[k] for k in range(n)) != b[i]:
        raise Violation('upper_triangular_solve:not-a-solution', a=a, b=b,
                        got=[str(v) for v in xs], failing_row=i)
  return {'nt': zero_diag or n >= 2,
          'cls': ['ut zero diagonal -> None' if zero_diag else 'ut solved', 'ut n=%d' % n]}


def strat_upper_tri(tier):
  @st.composite
  def s(draw):
    n = draw(st.integers(1, 6))
    ent = st.one_of(st.integers(-3, 3), st.integers(-1000, 1000))
    u = draw(st.lists(ent, min_size=n * (n + 1) // 2, max_size=n * (n + 1) // 2))
    b = draw(st.lists(st.integers(-50, 50), min_size=n, max_size=n))
    z = draw(st.lists(st.integers(0, 5), min_size=0, max_size=1))
    return {'n': n, 'u': u, 'b': b, 'z': z, 'mpz': draw(st.booleans())}
  return s()


# =============================================================================
# lll.reduce (light): same lattice, first vector within the LLL bound
# =============================================================================

def _lll_basis(desc):
  d = desc['d']
  mat = Material(desc['m'], 'c19-lll')
  big = desc['bits']
  b = [[0] * d for _ in range(d)]
  for i in range(d):
    for j in range(i):
      b[i][j] = mat.between(-(1 << big), 1 << big)
    b[i][i] = 1 + mat.below(1 << big)
    if mat.below(2):
      b[i][i] = -b[i][i]
  for i, j, c in desc['ops']:
    i, j = i % d, j % d
    if i != j:
      b[i] = [v + c * w for v, w in zip(b[i], b[j])]
  return b


def run_lll(desc):
  b = _lll_basis(desc)
  d = len(b)
  red = libcall(lll.reduce, [list(r) for r in b])
  if (not isinstance(red, list) or len(red) != d or
      any(len(r) != d or not all(_is_int(v) for v in r) for r in red)):
    raise Violation('lll:shape', basis=b, got=repr(red)[:200])
  red = [[int(v) for v in r] for r in red]
  det_b = R.mat_det(b)
  det_r = R.mat_det(red)
  if abs(det_b) != abs(det_r):
    raise Violation('lll:determinant-changed', basis=b, reduced=red)
  coeffs = R.solve_rows_in_lattice(red, b)
  if any(c.denominator != 1 for row in coeffs for c in row):
    raise Violation('lll:vector-outside-lattice', basis=b, reduced=red)
  norm2 = sum(v * v for v in red[0])
  # LLL (delta >= 3/4): |b1| <= 2^((d-1)/4) det^(1/d)  <=>  |b1|^(4d) <= 2^(d(d-1)) det^4
  if norm2 ** (2 * d) > (1 << (d * (d - 1))) * int(det_b) ** 4:
    raise Violation('lll:first-vector-not-short', basis=b, reduced=red)
  return {'nt': d >= 3, 'cls': ['lll d=%d' % d]}


def strat_lll(tier):
  op = st.tuples(st.integers(0, 7), st.integers(0, 7), st.integers(-5, 5)).map(list)
  return st.fixed_dictionaries({
      'd': st.integers(2, 6 if tier == 'quick' else 8), 'm': material,
      'bits': st.sampled_from([3, 8, 32, 100]), 'ops': st.lists(op, min_size=0, max_size=10)})


# =============================================================================
# small roots
# =============================================================================

def _poly_eval(terms, point):
  """terms: list of (coefficient, exponent tuple)."""
  tot = 0
  for c, exps in terms:
    t = c
    for v, e in zip(point, exps):
      t *= v ** e
    tot += t
  return tot


def _sym_poly(terms, nvars, n):
  if nvars == 1:
    xs = [sympy.Symbol('x')]
  else:
    xs = list(sympy.symbols(', '.join('x%d' % (i + 1) for i in range(nvars))))
  expr = 0
  for c, exps in terms:
    t = sympy.Integer(c)
    for v, e in zip(xs, exps):
      t = t * v ** e
    expr = expr + t
  return sympy.Poly(expr, *xs, modulus=n)


def _int_roots(res, nvars):
  """Normalises a returned root (int or list) to a list of Python ints, or None."""
  vals = [res] if nvars == 1 and not isinstance(res, (list, tuple)) else list(res)
  if len(vals) != nvars:
    return None
  out = []
  for v in vals:
    try:
      if isinstance(v, sympy.Basic):
        if not v.is_Integer:
          return None
        out.append(int(v))
      elif _is_int(v):
        out.append(int(v))
      else:
        return None
    except (TypeError, ValueError):
      return None
  return out


def _sr_case(desc):
  """Builds (n, p, q, terms, nvars, bounds, planted root, call) for a planted case."""
  mat = Material(desc['m'], 'c19-sr')
  N = desc['N']
  p, q, n = semiprime_exact(mat, N)
  L = p.bit_length()
  kind = desc['kind']
  tot = max(1, desc['fr'] * N // 1000)
  if kind == 'uni':
    sub = desc['sub']
    deg = desc.get('deg', 1)
    u = max(1, tot // deg)
    if sub == 'lo':
      l = L - u
      p0 = p % (1 << l)
      terms = [(1 << l, (1,)), (p0, (0,))]
      root = [p >> l]
      bounds = [1 << u]
    else:
      rsel = desc.get('rsel', 'rand')
      if rsel == 'max':
        r = (1 << u) - 1
      elif rsel == 'pow':
        r = 1 << (u - 1)
      else:
        r = mat.bits(u)
      if sub == 'neg':
        r = -r
      # f(x) = (p - r^deg) + x^deg has the root r modulo p
      terms = [(1, (deg,)), (p - r ** deg, (0,))]
      root = [r]
      bounds = [abs(r) + 1 if desc.get('bsel') == 'tight' else 1 << u]
    return n, p, q, terms, 1, bounds, root
  if kind == 'bi_modp':
    tot = max(2, tot)
    u1 = min(tot - 1, max(1, tot * desc['split'] // 1000))
    u2 = tot - u1
    known = L - u1 - u2
    lx1 = known + u2
    p0 = ((p >> u2) % (1 << known)) << u2
    terms = [(1 << lx1, (1, 0)), (1, (0, 1)), (p0, (0, 0))]
    return n, p, q, terms, 2, [1 << u1, 1 << u2], [p >> lx1, p % (1 << u2)]
  if kind == 'tri_modp':
    u = max(1, tot // 3)
    known = L - 3 * u
    k2 = known // 2
    k1 = known - k2
    lk2 = u
    lx2 = u + k2
    lk1 = 2 * u + k2
    lx1 = 2 * u + k2 + k1
    p0 = (((p >> lk1) % (1 << k1)) << lk1) + (((p >> lk2) % (1 << k2)) << lk2)
    terms = [(1 << lx1, (1, 0, 0)), (1 << lx2, (0, 1, 0)), (1, (0, 0, 1)), (p0, (0, 0, 0))]
    root = [p >> lx1, (p >> lx2) % (1 << u), p % (1 << u)]
    return n, p, q, terms, 3, [1 << u] * 3, root
  # bi_modn: f = (p0 + x1) * (q0 + x2) = 0 mod n
  tot = max(2, tot)
  u1 = min(tot - 1, max(1, tot * desc['split'] // 1000))
  u2 = tot - u1
  p0 = (p >> u1) << u1
  q0 = (q >> u2) << u2
  terms = [(1, (1, 1)), (q0, (1, 0)), (p0, (0, 1)), (p0 * q0, (0, 0))]
  return n, p, q, terms, 2, [1 << u1, 1 << u2], [p - p0, q - q0]


def _sr_call(kind, f, bounds):
  if kind == 'uni':
    return libcall(small_roots.univariate_modp, f, bounds[0])
  if kind in ('bi_modp', 'tri_modp'):
    return libcall(small_roots.multivariate_modp, f, list(bounds))
  return libcall(small_roots.multivariate_modn, f, list(bounds))


def _sr_true_root(kind, terms, n, roots):
  y = _poly_eval(terms, roots) % n
  if kind == 'bi_modn':
    return y == 0
  return math.gcd(y, n) != 1        # f(r) = 0 modulo a non-trivial factor of n (or modulo n)


def run_sr_planted(desc):
  n, p, q, terms, nvars, bounds, root = _sr_case(desc)
  kind = desc['kind']
  assert _sr_true_root(kind, terms, n, root) and all(abs(r) < b for r, b in zip(root, bounds))
  f = _sym_poly(terms, nvars, n)
  res = _sr_call(kind, f, bounds)
  info = dict(kind=kind, N=desc['N'], n=n, bounds_bits=[b.bit_length() - 1 for b in bounds],
              planted=root)
  if res is None:
    raise Violation('smallroots:planted-root-not-found', **info)
  got = _int_roots(res, nvars)
  if got is None:
    raise Violation('smallroots:malformed-root', got=repr(res)[:200], **info)
  if not _sr_true_root(kind, terms, n, got):
    raise Violation('smallroots:false-root', got=got, **info)
  if got != root and not all(abs(r) < b for r, b in zip(got, bounds)):
    raise Violation('smallroots:root-outside-bounds', got=got, **info)
  near = all(4 * abs(r) >= b for r, b in zip(root, bounds))
  cls = ['sr %s N=%d' % (kind if kind != 'uni' else 'uni-%s-deg%d' % (desc['sub'], desc.get('deg', 1)),
                        desc['N']),
         'sr unknown/N ' + _bucket(desc['fr'], [30, 60, 90, 120, 150, 200, 250])]
  if got != root:
    cls.append('sr other true root returned')
  return {'nt': near, 'cls': cls}


def _sr_sizes(tier, big):
  return [128, 256, 512] if tier == 'quick' else [128, 192, 256, 384, 512, 1024] + ([2048] if big else [])


def strat_sr_uni(tier):
  deg1 = st.fixed_dictionaries({
      'kind': st.just('uni'), 'm': material, 'N': st.sampled_from(_sr_sizes(tier, True)),
      'sub': st.sampled_from(['hi', 'neg', 'lo']), 'fr': st.one_of(st.integers(5, 150), st.just(150)),
      'rsel': st.sampled_from(['rand', 'rand', 'max', 'pow']),
      'bsel': st.sampled_from(['pow2', 'pow2', 'tight'])})
  degd = st.fixed_dictionaries({
      'kind': st.just('uni'), 'm': material, 'N': st.sampled_from(_sr_sizes(tier, False)),
      'sub': st.sampled_from(['hi', 'neg']), 'deg': st.sampled_from([2, 3]),
      'fr': st.integers(20, 150), 'rsel': st.sampled_from(['rand', 'max']),
      'bsel': st.just('pow2')})
  return st.one_of(deg1, deg1, degd)


def strat_sr_bimodp(tier):
  return st.fixed_dictionaries({
      'kind': st.just('bi_modp'), 'm': material, 'N': st.sampled_from(_sr_sizes(tier, True)),
      'fr': st.one_of(st.integers(5, 90), st.just(90)),
      'split': st.one_of(st.just(500), st.integers(50, 950))})


def strat_sr_trimodp(tier):
  return st.fixed_dictionaries({
      'kind': st.just('tri_modp'), 'm': material, 'N': st.sampled_from([256, 512]),
      'fr': st.integers(15, 50)})


def strat_sr_bimodn(tier):
  return st.fixed_dictionaries({
      'kind': st.just('bi_modn'), 'm': material, 'N': st.sampled_from(_sr_sizes(tier, True)),
      'fr': st.one_of(st.integers(10, 250), st.just(250)),
      'split': st.one_of(st.just(500), st.integers(100, 900))})


# ---- soundness: whatever is returned must be a true root

def _coprime(v, n):
  v %= n
  return v if v and math.gcd(v, n) == 1 else 1


def _sound_case(desc):
  mat = Material(desc['m'], 'c19-snd')
  N = desc['N']
  L = N // 2
  p = mat.prime(L)
  q = mat.prime(N - L)
  while q == p:
    q = mat.prime(N - L)
  n = p * q
  kind = desc['kind']
  plant = desc['plant']
  if kind == 'uni':
    # documented maximum is about N/4 bits (degree 1); far above p the library raises sympy's
    # GeneratorsNeeded (reported, not asserted): keep deg * bound bits <= N/2
    ub = max(1, min(desc['ub'], N // (2 * desc['deg'])))
  else:
    ub = max(2, min(desc['ub'], N // 2))
  modulus = {'modp': p, 'modq': q, 'modn': n}.get(plant)
  if kind == 'uni':
    deg = desc['deg']
    b = (1 << ub) if desc['bpow'] else max(2, mat.bits(ub) | (1 << (ub - 1)))
    r = mat.between(-(b - 1), b - 1)
    if desc['rbig']:
      r *= 1 + mat.below(8)          # planted root possibly beyond the bound
    mid = [(mat.below(n), (i,)) for i in range(1, deg)]
    lc = 1 if desc['monic'] else _coprime(mat.below(n), n)
    terms = [(lc, (deg,))] + mid
    c0 = mat.below(n)
    if modulus:
      c0 = (-_poly_eval(terms, [r])) % modulus + modulus * mat.below(n // modulus)
    terms.append((c0 % n, (0,)))
    return n, terms, 1, [b]
  u1 = max(1, min(ub - 1, ub * desc['split'] // 1000))
  u2 = max(1, ub - u1)
  bounds = [1 << u1, 1 << u2]
  r = [mat.between(-(bounds[0] - 1), bounds[0] - 1), mat.between(-(bounds[1] - 1), bounds[1] - 1)]
  if kind == 'bi_modp':
    terms = [(_coprime(mat.below(n), n) if not desc['monic'] else 1, (1, 0)),
             (_coprime(mat.below(n), n), (0, 1))]
    c0 = mat.below(n)
    if modulus:
      c0 = (-_poly_eval(terms, r)) % modulus + modulus * mat.below(n // modulus)
    terms.append((max(1, c0 % n), (0, 0)))
    return n, terms, 2, bounds
  # bi_modn: x1*x2 + a*x1 + b*x2 + c
  a_, b_ = 1 + mat.below(n - 1), 1 + mat.below(n - 1)
  if desc['monic']:                    # the factorisation shape (p0 + x1)(q0 + x2)
    p0, q0 = p - r[0], q - r[1]
    terms = [(1, (1, 1)), (q0 % n, (1, 0)), (p0 % n, (0, 1)), (p0 * q0 % n, (0, 0))]
    if not plant:
      terms[-1] = ((terms[-1][0] + 1 + mat.below(n - 1)) % n, (0, 0))
  else:
    terms = [(1, (1, 1)), (a_, (1, 0)), (b_, (0, 1))]
    c0 = mat.below(n)
    if modulus:
      c0 = (-_poly_eval(terms, r)) % n
    terms.append((c0, (0, 0)))
  if terms[-1][0] == 0:
    terms[-1] = (1, (0, 0))
  return n, terms, 2, bounds


def run_sr_sound(desc):
  n, terms, nvars, bounds = _sound_case(desc)
  kind = desc['kind']
  f = _sym_poly(terms, nvars, n)
  res = _sr_call(kind, f, bounds)
  cls = ['sound %s N=%d' % (kind, desc['N']),
         'sound bound/N ' + _bucket(1000 * sum(b.bit_length() - 1 for b in bounds) // desc['N'],
                                    [100, 200, 300, 400, 500]),
         'sound planted=%s' % (desc['plant'] or 'nothing')]
  if res is None:
    cls.append('sound -> None')
    return {'nt': False, 'cls': cls}
  got = _int_roots(res, nvars)
  info = dict(kind=kind, n=n, terms=[[c, list(e)] for c, e in terms], bounds=bounds)
  if got is None:
    raise Violation('smallroots:malformed-root', got=repr(res)[:200], **info)
  if not _sr_true_root(kind, terms, n, got):
    raise Violation('smallroots:false-root', got=got, value=_poly_eval(terms, got) % n, **info)
  cls.append('sound -> true root returned')
  return {'nt': True, 'cls': cls}


def strat_sr_sound(tier):
  sizes = [8, 10, 12, 16, 24, 32, 64, 128] + ([256] if tier == 'thorough' else [])
  return st.fixed_dictionaries({
      'kind': st.sampled_from(['uni', 'uni', 'bi_modp', 'bi_modn']), 'm': material,
      'N': st.sampled_from(sizes), 'ub': st.integers(1, 130),
      'plant': st.sampled_from([None, 'modp', 'modp', 'modq', 'modn']),
      'deg': st.sampled_from([1, 1, 1, 2]), 'monic': st.booleans(), 'bpow': st.booleans(),
      'rbig': st.sampled_from([False, False, True]), 'split': st.integers(100, 900)})


def _balanced_semiprimes(limit):
  ps = R.primes_below(64)
  out = []
  for i, p in enumerate(ps):
    for q in ps[i + 1:]:
      if p.bit_length() == q.bit_length() and p >= 5 and p * q <= limit:
        out.append((p, q))
  return out


def enum_sr_tiny(tier):
  limit = 400 if tier == 'quick' else 899
  for p, q in _balanced_semiprimes(limit):
    n = p * q
    for lo in range(0, n, 40):
      yield {'p': p, 'q': q, 'lo': lo, 'cnt': min(40, n - lo)}


def run_sr_tiny(desc):
  p, q = desc['p'], desc['q']
  n = p * q
  x = sympy.Symbol('x')
  returned = 0
  for c in range(desc['lo'], desc['lo'] + desc['cnt']):
    for b in (2, 3, 4):
      if b >= p:
        continue
      f = sympy.Poly(x + c, x, modulus=n)
      res = libcall(small_roots.univariate_modp, f, b)
      if res is None:
        continue
      got = _int_roots(res, 1)
      if got is None:
        raise Violation('smallroots:malformed-root', n=n, c=c, bound=b, got=repr(res)[:100])
      returned += 1
      if math.gcd((got[0] + c) % n, n) == 1:
        raise Violation('smallroots:false-root', n=n, poly='x + %d' % c, bound=b, got=got[0],
                        value=(got[0] + c) % n)
  return {'nt': returned > 0, 'cls': ['sr tiny n=%d' % n], 'returned': returned}


# =============================================================================
# PseudoAverage, Bias
# =============================================================================

def _check_pseudo(a, n):
  res = libcall(lattice_suite.PseudoAverage, list(a), n)
  if not _is_int(res):
    raise Violation('pseudoaverage:type', a=a, n=n, got=repr(res))
  cand, nsel, wraps = R.pseudo_average_candidates(a, n)
  if int(res) not in cand:
    raise Violation('pseudoaverage:not-a-minimising-mean', a=a, n=n, got=int(res),
                    admissible=sorted(cand)[:8])
  return nsel, wraps


def run_pseudo(desc):
  n = desc['n']
  if desc['t'] == 'res':
    a = [v % n for v in desc['a']]
  else:
    a = [(desc['c'] + d) % n for d in desc['a']]
  nsel, wraps = _check_pseudo(a, n)
  cls = ['pa m=%d' % len(a) if len(a) < 3 else 'pa m>=3', 'pa n ' + _bucket(n, [2, 12, 1 << 16, 1 << 64])]
  if nsel > 1:
    cls.append('pa several minimising selections')
  if wraps:
    cls.append('pa optimum shifts a proper subset')
  return {'nt': wraps, 'cls': cls}


def strat_pseudo(tier):
  @st.composite
  def s(draw):
    n = draw(st.one_of(st.integers(1, 12), st.integers(1, 1 << 16),
                       st.sampled_from([1 << 32, (1 << 64) - 59, 1 << 256])))
    m = draw(st.integers(1, 10))
    if draw(st.booleans()):
      a = draw(st.lists(st.integers(0, max(0, n - 1)), min_size=m, max_size=m))
      return {'t': 'res', 'n': n, 'a': a}
    spread = draw(st.sampled_from([1, 3, max(1, n // 7), max(1, n // 3), max(1, n // 2)]))
    a = draw(st.lists(st.integers(-spread, spread), min_size=m, max_size=m))
    return {'t': 'clu', 'n': n, 'c': draw(st.integers(0, max(0, n - 1))), 'a': a}
  return s()


def enum_pseudo(tier):
  top = 5 if tier == 'quick' else 6
  for n in range(1, top + 1):
    for m in range(1, 6):
      yield {'n': n, 'm': m}
  for n in (7, 8, 10):
    for m in range(1, 5):
      yield {'n': n, 'm': m}


def run_pseudo_exh(desc):
  n, m = desc['n'], desc['m']
  wrapping = 0
  cnt = 0
  for a in itertools.combinations_with_replacement(range(n), m):
    _, wraps = _check_pseudo(list(reversed(a)), n)
    wrapping += wraps
    cnt += 1
  return {'nt': wrapping > 0, 'cls': ['pa exhaustive multisets'], 'cases': cnt, 'wrapping': wrapping}


def _uniform_sum_tol(count, p):
  return 1e-9 + 1e-8 * p if count <= 36 else 2e-3


def run_bias(desc):
  n = desc['n']
  mat = Material(desc['m'], 'c19-bias')
  tr = [(a % (4 * n), b % (4 * n)) for a, b in desc['tr']]
  shift = desc['shrink']
  sample = [mat.below(n) >> shift for _ in range(desc['len'])]
  if desc['off']:
    sample = [(s + n - desc['off']) % n for s in sample]
  got = libcall(lattice_suite.Bias, list(sample), n, list(tr))
  if not isinstance(got, float):
    raise Violation('bias:type', got=repr(got))
  t = 0
  for s in sample:
    for a, b in tr:
      v = (a * s + b) % n
      t += min(v, n - v)
  count = len(sample) * len(tr)
  p = R.irwin_hall_cdf(count, Fraction(2 * t, n))
  tol = _uniform_sum_tol(count, float(p))
  if not abs(got - float(p)) <= tol:
    raise Violation('bias:p-value', n=n, sample=sample, transforms=tr, got=got, expected=float(p),
                    tolerance=tol)
  cls = ['bias count<=36' if count <= 36 else 'bias count>36',
         'bias p ' + ('<1e-6' if p < Fraction(1, 10 ** 6) else '<0.01' if p < Fraction(1, 100)
                      else 'mid' if p < Fraction(99, 100) else '>0.99')]
  if len(tr) > 1:
    cls.append('bias several transforms')
  return {'nt': len(tr) > 1 or count > 1, 'cls': cls}


def strat_bias(tier):
  tr = st.tuples(st.one_of(st.just(1), st.integers(0, 1 << 70)), st.integers(0, 1 << 70)).map(list)
  return st.fixed_dictionaries({
      'n': st.one_of(st.integers(2, 100), st.sampled_from([1 << 32, 1 << 64, (1 << 127) - 1, 1 << 256])),
      'm': material, 'len': st.integers(1, 33), 'shrink': st.sampled_from([0, 0, 1, 2, 4, 8]),
      'off': st.sampled_from([0, 0, 1, 5]),
      'tr': st.one_of(st.just([[1, 0]]), st.lists(tr, min_size=1, max_size=3))})


# =============================================================================
# UniformSumCdf and the special functions
# =============================================================================

def _x_from(desc_x, n):
  kind = desc_x[0]
  if kind == 'grid':
    return n * desc_x[1] / 400
  if kind == 'hex':
    return float.fromhex(desc_x[1])
  # 'near': integer or half-integer k/2, moved by d ulps
  x = desc_x[1] / 2
  d = desc_x[2]
  for _ in range(abs(d)):
    x = math.nextafter(x, math.inf if d > 0 else -math.inf)
  return x


def run_usc(desc):
  n = desc['n']
  x = _x_from(desc['x'], n)
  got = libcall(util.UniformSumCdf, n, x)
  if not isinstance(got, float):
    raise Violation('uniformsumcdf:type', n=n, x=x, got=repr(got))
  p = float(R.irwin_hall_cdf(n, Fraction(x)))
  tol = _uniform_sum_tol(n, p)
  if not abs(got - p) <= tol:
    raise Violation('uniformsumcdf:value', n=n, x=x, got=got, expected=p, tolerance=tol)
  cls = ['usc exact branch (n<=36)' if n <= 36 else 'usc normal branch (n>36)']
  if x <= 0 or x >= n:
    cls.append('usc outside support')
  elif 2 * x > n:
    cls.append('usc reflected (2x>n)')
  if n in (35, 36, 37, 38):
    cls.append('usc at the switch n=%d' % n)
  return {'nt': 0 < x < n, 'cls': cls}


def strat_usc(tier):
  @st.composite
  def s(draw):
    n = draw(st.one_of(st.integers(1, 100), st.sampled_from([1, 2, 30, 33, 34, 35, 36, 36, 37, 38, 100])))
    x = draw(st.one_of(
        st.tuples(st.just('grid'), st.integers(-4, 404)).map(list),
        st.tuples(st.just('near'), st.integers(-1, 2 * n + 1), st.integers(-2, 2)).map(list),
        st.tuples(st.just('hex'), st.floats(min_value=-1.0, max_value=float(n + 1), allow_nan=False,
                                            allow_subnormal=False).map(float.hex)).map(list),
        st.tuples(st.just('hex'), st.floats(min_value=1e-9, max_value=1.0).map(float.hex)).map(list)))
    return {'n': n, 'x': x}
  return s()


def enum_usc(tier):
  step = 8 if tier == 'quick' else 1
  for n in range(1, 101):
    yield {'n': n, 'step': step}


def run_usc_grid(desc):
  n = desc['n']
  for i in range(0, 401, desc['step']):
    run_usc({'n': n, 'x': ['grid', i]})
  return {'nt': True, 'cls': ['usc grid n<=36' if n <= 36 else 'usc grid n>36'],
          'cases': len(range(0, 401, desc['step']))}


def _close(got, ref, rel, absolute):
  """|got - ref| <= rel * |ref| or <= absolute, ref an mpmath/Fraction value."""
  import mpmath  # pylint: disable=g-import-not-at-top
  with mpmath.workdps(60):
    if isinstance(ref, Fraction):
      ref = mpmath.mpf(ref.numerator) / mpmath.mpf(ref.denominator)
    d = abs(mpmath.mpf(float(got)) - ref)
    return bool(d <= rel * abs(ref) or d <= absolute)


def run_special(desc):
  fn = desc['fn']
  if fn == 'igamc':
    a, x = float.fromhex(desc['a']), float.fromhex(desc['x'])
    got = libcall(util.Igamc, a, x)
    ref = R.mp_igamc(a, x)
    if not _close(got, ref, 1e-9, 1e-300):
      raise Violation('igamc:value', a=a, x=x, got=float(got), expected=float(ref))
    return {'nt': x > 0, 'cls': ['igamc x=0' if x == 0 else 'igamc tail<1e-100' if ref < 1e-100
                                 else 'igamc a ' + _bucket(int(a), [1, 10, 100, 2000])]}
  if fn == 'normal':
    x, mean, var = (float.fromhex(desc[k]) for k in ('x', 'mean', 'var'))
    got = libcall(util.NormalCdf, x, mean, var)
    ref = R.mp_normal_cdf(x, mean, var)
    if not _close(got, ref, 1e-9, 4e-16):
      raise Violation('normalcdf:value', x=x, mean=mean, variance=var, got=float(got),
                      expected=float(ref))
    return {'nt': True, 'cls': ['normal x==mean' if x == mean else 'normal lower' if x < mean
                                else 'normal upper']}
  if fn == 'binom':
    k, m = desc['k'], desc['m']
    got = libcall(util.BinomialCdf, k, m)
    ref = R.binomial_cdf_half(k, m)
    if not _close(got, ref, 1e-9, 1e-200):
      raise Violation('binomialcdf:value', n=k, m=m, got=float(got), expected=float(ref))
    return {'nt': 0 <= k < m, 'cls': ['binom k<0' if k < 0 else 'binom k>=m' if k >= m
                                      else 'binom m ' + _bucket(m, [10, 100, 1000, 20000])]}
  # fisher
  if 'k' in desc:                       # long list derived from material
    mat = Material(desc['m'], 'c19-fisher')
    expo = (1, 1, 4, 40)[desc['mode'] % 4]
    ps = [((1 + mat.below(1 << 53)) / float(1 << 53)) ** expo or 1.0 for _ in range(desc['k'])]
  else:
    ps = [float.fromhex(h) for h in desc['p']]
  if not ps:
    try:
      got = libcall(util.CombinedPValue, [], expect=(ValueError,))
    except ValueError:
      return {'nt': False, 'cls': ['fisher empty -> ValueError']}
    raise Violation('combinedpvalue:empty-accepted', got=repr(got))
  got = libcall(util.CombinedPValue, list(ps))
  if len(ps) == 1:
    if got != ps[0]:
      raise Violation('combinedpvalue:single', p=ps, got=float(got))
    return {'nt': False, 'cls': ['fisher single p-value']}
  if min(ps) == 0:
    if got != 0:
      raise Violation('combinedpvalue:zero', p=ps, got=float(got))
    return {'nt': False, 'cls': ['fisher contains 0']}
  ref = R.mp_fisher(ps)
  if not _close(got, ref, 1e-9, 1e-300):
    raise Violation('combinedpvalue:value', p=ps[:12], count=len(ps), got=float(got),
                    expected=float(ref))
  return {'nt': True, 'cls': ['fisher k ' + _bucket(len(ps), [2, 10, 100, 3000]),
                              'fisher result ' + ('<1e-100' if ref < 1e-100 else '>=1e-100')]}


def strat_special(tier):
  hexf = lambda lo, hi: st.floats(min_value=lo, max_value=hi, allow_nan=False,  # pylint: disable=g-long-lambda
                                  allow_subnormal=False).map(float.hex)
  logf = lambda lo, hi: st.floats(min_value=lo, max_value=hi).map(lambda e: float.hex(10.0 ** e))  # pylint: disable=g-long-lambda
  igamc = st.fixed_dictionaries({
      'fn': st.just('igamc'),
      'a': st.one_of(hexf(0.01, 50.0), logf(-6, 3.3), st.integers(1, 4000).map(lambda v: float.hex(v / 2))),
      'x': st.one_of(st.just(float.hex(0.0)), hexf(0.0, 100.0), logf(-8, 3.69),
                     hexf(0.0, 5000.0))})
  normal = st.fixed_dictionaries({
      'fn': st.just('normal'),
      'x': st.one_of(hexf(-40.0, 40.0), hexf(-1e6, 1e6)),
      'mean': st.one_of(st.just(float.hex(0.0)), hexf(-100.0, 100.0), hexf(-1e6, 1e6)),
      'var': st.one_of(st.just(float.hex(1.0)), logf(-6, 6))})
  mmax = 4000 if tier == 'quick' else 20000

  @st.composite
  def binom(draw):
    m = draw(st.one_of(st.integers(0, 40), st.integers(0, mmax)))
    k = draw(st.one_of(st.integers(-2, m + 2), st.integers(-6, 6).map(lambda d: m // 2 + d),
                       st.floats(0, 12).map(lambda z: int(m / 2 - z * math.sqrt(m + 1)))))
    return {'fn': 'binom', 'k': k, 'm': m}
  pv = st.one_of(hexf(1e-300, 1.0), logf(-300, 0), logf(-3, 0), st.just(float.hex(1.0)))
  kmax = 1400 if tier == 'quick' else 3000
  fisher = st.fixed_dictionaries({
      'fn': st.just('fisher'),
      'p': st.one_of(st.lists(pv, min_size=0, max_size=12), st.lists(pv, min_size=2, max_size=60),
                     st.lists(st.one_of(pv, st.just(float.hex(0.0))), min_size=1, max_size=6))})
  fisher_long = st.fixed_dictionaries({
      'fn': st.just('fisher'), 'm': material, 'mode': st.integers(0, 3),
      'k': st.one_of(st.integers(2, kmax), st.sampled_from([999, 1000, 1001, 1002, kmax]))})
  return st.one_of(igamc, normal, binom(), fisher, fisher_long)


# =============================================================================

ARMS = [
    Arm('sr_trivariate_modp', run_sr_planted, strategy=strat_sr_trimodp, quick=16, thorough=400,
        budget=(150, 1500), weight=9, doc='Herrmann-May, three unknowns, m = 4: planted root found'),
    Arm('sr_bivariate_modp', run_sr_planted, strategy=strat_sr_bimodp, quick=128, thorough=3000,
        budget=(150, 1500), weight=8, doc='Herrmann-May, two unknowns, m = 4: planted root found'),
    Arm('sr_bivariate_modn', run_sr_planted, strategy=strat_sr_bimodn, quick=128, thorough=3000,
        budget=(150, 1500), weight=7, doc='Jochemsz-May, m = 1: planted root found'),
    Arm('sr_univariate', run_sr_planted, strategy=strat_sr_uni, quick=320, thorough=6000,
        budget=(150, 1500), weight=7, doc='Coppersmith/Howgrave-Graham, k = 3: planted root found'),
    Arm('sr_soundness', run_sr_sound, strategy=strat_sr_sound, quick=1600, thorough=30000,
        budget=(150, 1500), weight=6, doc='any returned root is a true root, bounds up to N/2 bits'),
    Arm('sr_tiny_exhaustive', run_sr_tiny, enumerate=enum_sr_tiny, exhaustive=True, weight=6,
        doc='x + c modulo every balanced semiprime: returned roots are true roots'),
    Arm('special_functions', run_special, strategy=strat_special, quick=2400, thorough=40000,
        budget=(150, 1500), weight=5, doc='Igamc, NormalCdf, BinomialCdf, CombinedPValue vs references'),
    Arm('linalg_random', run_linalg_rand, strategy=strat_linalg, quick=24000, thorough=400000,
        weight=4, doc='solve_right / echelon_form on consistent systems up to 8x5'),
    Arm('linalg_exhaustive', run_linalg_exh, enumerate=enum_linalg, exhaustive=True, weight=4),
    Arm('upper_triangular', run_upper_tri, strategy=strat_upper_tri, quick=4000, thorough=40000),
    Arm('twoadic_exhaustive', run_twoadic_exh, enumerate=enum_twoadic, exhaustive=True, weight=3,
        doc='all n < 2^12, k <= 12 vs brute force'),
    Arm('twoadic_random', run_twoadic_rand, strategy=strat_twoadic, quick=8000, thorough=200000),
    Arm('continued_fraction', run_contfrac, strategy=strat_contfrac, quick=4000, thorough=60000),
    Arm('divmod_rounded', run_divmod, strategy=strat_divmod, quick=6000, thorough=100000),
    Arm('divmod_small', run_divmod_small, enumerate=enum_divmod, exhaustive=True),
    Arm('sieve', run_sieve, enumerate=enum_sieve, exhaustive=True, weight=3,
        doc='every n <= 20000 vs trial division'),
    Arm('product_tree', run_tree, strategy=strat_tree, quick=1500, thorough=15000),
    Arm('lll_reduce', run_lll, strategy=strat_lll, quick=800, thorough=10000),
    Arm('pseudo_average', run_pseudo, strategy=strat_pseudo, quick=6000, thorough=100000),
    Arm('pseudo_average_exhaustive', run_pseudo_exh, enumerate=enum_pseudo, exhaustive=True),
    Arm('bias', run_bias, strategy=strat_bias, quick=3000, thorough=40000),
    Arm('uniform_sum_cdf', run_usc, strategy=strat_usc, quick=6000, thorough=100000),
    Arm('uniform_sum_cdf_grid', run_usc_grid, enumerate=enum_usc, exhaustive=True, weight=2,
        doc='n = 1..100 on the grid x = n*i/400'),
]
