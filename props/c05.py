"""C05 - RSA keys with patterned, sparse or smooth primes are always flagged."""

import gmpy2 as gmpy
from hypothesis import strategies as st

from gens import artifacts as art
from gens import rsa_families as fam
from gens.common import Material, material
from harness.core import Arm, Violation, libcall

from paranoid_crypto.lib import rsa_single_checks as single

ID = 'C05'
TITLE = 'RSA keys with patterned, sparse or smooth primes are always flagged'
RULE = (
    'Constructed families (never filtered): (a) p repeats a w-bit word, w in the default pattern list '
    'and w <= N/16, random word and phase, 8-32 deviating low bits, N in {1024,2048,3072,4096}, q random '
    '-> CheckBitPatterns() (and a user list containing w) must flag and record {p,q}; (b) the same with '
    'adjacent 8/16/32/64-bit limbs swapped, odd pattern size < limb size, implied denominator <= N/10 '
    'bits -> CheckPermutedBitPatterns flags and records {p,q}; (c) both primes repeat words of <= 64 bits '
    '-> CheckContinuedFractions flags; (d) both primes of Hamming weight <= 32 -> CheckLowHammingWeight '
    'flags; (e) g | gcd(p-1,q-1), g | m, g >= 2^60, p-1 | m for the documented default Pollard product m '
    '(recomputed by the harness) -> CheckPollardpm1 flags, and records {p,q} when q-1 does not divide m. '
    'Every recorded factor set must equal {p,q}. Non-trivial: every case is inside the asserted region '
    'with p != q; distinct by descriptor hash.')
ASSUMPTIONS = [
    'the default Pollard product m is recomputed from the documented recipe (primes < 2^20, first 150 raised to <= 2^64)',
    'Hamming-weight cases are few in the quick tier because an unfactored search costs up to 90 s',
]
TECHNIQUE = 'property-based testing (Hypothesis) over constructed weak-prime families; oracle = flagged and recorded factors equal the planted primes'

DEFAULT_SIZES = list(range(1, 16, 2)) + [31, 63, 127, 255, 511] + [8, 16, 32, 64, 128, 256]


def _flag(check, n, p, q, clause, need_factors, **ctx):
  key = art.rsa_key(n)
  pre = ctx.pop('pre', None)
  if pre:
    # the same check instance sees a healthy key of another size first: in an earlier call (mode 1)
    # or earlier in the same batch (mode 2) - the verdict on the weak key must not depend on it
    mode, bits, seed = pre
    hp, hq = fam.healthy(Material(seed, 'c05pre'), bits)
    other = art.rsa_key(hp * hq)
    if mode == 1:
      libcall(check.Check, [other])
      ret = libcall(check.Check, [key])
    else:
      ret = libcall(check.Check, [other, key])
    ctx['pre'] = [mode, bits]
  else:
    ret = libcall(check.Check, [key])
  name = type(check).__name__
  e = art.entry(key.test_info, name)
  fs = art.factor_set(key.test_info, 'N_FACTORS')
  if e is None or not e[0] or not ret or not key.test_info.weak:
    raise Violation(clause + ':not-flagged', check=name, n=n, p=p, q=q, **ctx)
  if fs is not None and fs != {p, q}:
    raise Violation(clause + ':wrong-factors', check=name, n=n, got=sorted(fs), **ctx)
  if need_factors and fs is None:
    raise Violation(clause + ':not-factored', check=name, n=n, p=p, q=q, **ctx)
  return fs is not None


def _pre(desc):
  sel = desc.get('pre', 0)
  if not sel:
    return None
  return [1 + sel % 2, [512, 1024, 1024, 4096][sel % 4], desc['m'] % 1000]


# ---------------------------------------------------------------- (a) word repetition

def run_pattern(desc):
  mat = Material(desc['m'], 'c05a')
  N = desc['N']
  L = N // 2
  sizes = [w for w in DEFAULT_SIZES if w <= N // 16]
  w = sizes[desc['w'] % len(sizes)]
  p, word, phase, dev = fam.pattern_prime(mat, L, w, low_dev_bits=32, min_dev=8)
  while True:
    q = mat.prime(N - L, top2=True)
    if q != p and (p * q).bit_length() == N:
      break
  n = p * q
  ctx = dict(N=N, w=w, word=word, phase=phase, dev=dev, pre=_pre(desc))
  if desc['user_list']:
    extra = [1 + Material(desc['m'], 'ul').below(600) for _ in range(desc['user_list'] - 1)]
    lst = Material(desc['m'], 'sh').shuffle(extra + [w])
    check = single.CheckBitPatterns(pattern_sizes=lst)
    ctx['user_list'] = lst
  else:
    check = single.CheckBitPatterns()
  _flag(check, n, p, q, 'pattern', True, **ctx)
  return {'nt': True, 'cls': ['pattern N=%d' % N, 'pattern w=%d' % w,
                              'pattern dev=%s' % ('8-16' if dev <= 16 else '17-32'),
                              'pattern list=%s' % ('user' if desc['user_list'] else 'default')]}


def strat_pattern(tier):
  Ns = [1024, 1024, 2048] if tier == 'quick' else [1024, 2048, 3072, 4096]
  return st.fixed_dictionaries({
      'm': material, 'N': st.sampled_from(Ns), 'w': st.integers(0, 40),
      'user_list': st.sampled_from([0, 0, 1, 3, 6]), 'pre': st.sampled_from([0, 0, 1, 2, 3, 5, 6])})


def enum_pattern(tier):
  """Thorough: every (N, w) combination of the default list, 3 instances each."""
  if tier != 'thorough':
    return
  for N in (1024, 2048, 3072, 4096):
    sizes = [w for w in DEFAULT_SIZES if w <= N // 16]
    for wi in range(len(sizes)):
      for k in range(3):
        yield {'m': N * 1000 + wi * 10 + k, 'N': N, 'w': wi, 'user_list': 0}


# ---------------------------------------------------------------- (b) limb-swapped repetition

def _admissible(N):
  out = []
  for wsize in (8, 16, 32, 64):
    for psize in range(3, wsize, 2):
      if fam.permuted_denominator(psize, wsize).bit_length() <= N // 10:
        out.append((wsize, psize))
  return out


def run_permuted(desc):
  mat = Material(desc['m'], 'c05b')
  N = desc['N']
  L = N // 2
  adm = _admissible(N)
  if 'sel' in desc:
    wsize, psize = adm[desc['sel'] % len(adm)]
  else:
    wsizes = sorted({w for w, _ in adm})
    wsize = wsizes[desc['wsel'] % len(wsizes)]
    psizes = [p for w, p in adm if w == wsize]
    psize = psizes[desc['psel'] % len(psizes)]
  p, word, phase, dev = fam.permuted_pattern_prime(mat, L, psize, wsize, low_dev_bits=16)
  while True:
    q = mat.prime(N - L, top2=True)
    if q != p and (p * q).bit_length() == N:
      break
  _flag(single.CheckPermutedBitPatterns(), p * q, p, q, 'permuted', True,
        N=N, wsize=wsize, psize=psize, word=word, phase=phase, dev=dev, pre=_pre(desc))
  return {'nt': True, 'cls': ['permuted N=%d' % N, 'permuted wsize=%d' % wsize,
                              'permuted psize=%s' % ('3-7' if psize <= 7 else '9-15' if psize <= 15 else '17+')]}


def strat_permuted(tier):
  Ns = [1024, 2048, 2048] if tier == 'quick' else [1024, 2048, 3072, 4096]
  return st.fixed_dictionaries({'m': material, 'N': st.sampled_from(Ns), 'wsel': st.integers(0, 3),
                                'psel': st.integers(0, 40), 'pre': st.sampled_from([0, 0, 1, 2, 3, 5, 6])})


def enum_permuted(tier):
  if tier != 'thorough':
    return
  for N in (1024, 2048, 4096):
    for i in range(len(_admissible(N))):
      for k in range(3):
        yield {'m': N * 1000 + i * 10 + k, 'N': N, 'sel': i}


# ---------------------------------------------------------------- (c) both primes patterned

def run_bothpattern(desc):
  mat = Material(desc['m'], 'c05c')
  N = desc['N']
  L = N // 2
  while True:
    p = fam.pattern_prime(mat, L, desc['w1'], low_dev_bits=12, min_dev=8)[0]
    q = fam.pattern_prime(mat, L, desc['w2'], low_dev_bits=12, min_dev=8)[0]
    if p != q:
      break
  factored = _flag(single.CheckContinuedFractions(), p * q, p, q, 'bothpattern', False,
                   N=N, w1=desc['w1'], w2=desc['w2'])
  return {'nt': True, 'cls': ['bothpattern N=%d' % N,
                              'bothpattern %s' % ('factored' if factored else 'flagged-only')]}


def strat_bothpattern(tier):
  Ns = [1024, 2048] if tier == 'quick' else [1024, 2048, 3072, 4096]
  return st.fixed_dictionaries({'m': material, 'N': st.sampled_from(Ns),
                                'w1': st.integers(2, 64), 'w2': st.integers(2, 64)})


# ---------------------------------------------------------------- (d) low Hamming weight

def run_lowhw(desc):
  mat = Material(desc['m'], 'c05d')
  L = desc['N'] // 2
  while True:
    p = fam.low_hw_prime(mat, L, desc['hw1'])
    q = fam.low_hw_prime(mat, L, desc['hw2'])
    if p != q:
      break
  factored = _flag(single.CheckLowHammingWeight(), p * q, p, q, 'lowhw', False,
                   N=desc['N'], hw1=desc['hw1'], hw2=desc['hw2'])
  return {'nt': True, 'cls': ['lowhw N=%d' % desc['N'],
                              'lowhw max-weight=%s' % ('<=16' if max(desc['hw1'], desc['hw2']) <= 16 else '17-32'),
                              'lowhw %s' % ('factored' if factored else 'flagged-only')]}


def strat_lowhw(tier):
  Ns = [1024, 2048] if tier == 'quick' else [1024, 2048, 4096]
  return st.fixed_dictionaries({'m': material, 'N': st.sampled_from(Ns),
                                'hw1': st.integers(3, 32), 'hw2': st.integers(3, 32)})


# ---------------------------------------------------------------- (e) Pollard p-1

_CHECK = None


def _pollard_check():
  global _CHECK
  if _CHECK is None:
    _CHECK = single.CheckPollardpm1()
  return _CHECK


def run_pollard(desc):
  mat = Material(desc['m'], 'c05e')
  L = desc['L']
  m = fam.pollard_default_m()
  g = fam.smooth_shared_factor(mat, desc['gkind'])
  while True:
    p = fam.smooth_prime(mat, L, g)
    q = fam.smooth_prime(mat, L, g) if desc['both'] else fam.prime_with_factor(mat, L, g)
    if p != q:
      break
  q_smooth = m % (q - 1) == 0
  if not (m % (p - 1) == 0 and (p - 1) % g == 0 and (q - 1) % g == 0 and m % g == 0 and g >= 2**60):
    raise AssertionError('generator outside the asserted region')
  factored = _flag(_pollard_check(), p * q, p, q, 'pollard', not q_smooth,
                   L=L, g_bits=g.bit_length(), both_smooth=q_smooth)
  return {'nt': True, 'cls': ['pollard L=%d' % L, 'pollard %s' % ('both-smooth' if q_smooth else 'one-smooth'),
                              'pollard gkind=%d' % (desc['gkind'] % 5),
                              'pollard %s' % ('factored' if factored else 'flagged-only')]}


def strat_pollard(tier):
  Ls = [512, 512, 1024] if tier == 'quick' else [512, 1024, 1536, 2048]
  return st.fixed_dictionaries({'m': material, 'L': st.sampled_from(Ls), 'gkind': st.integers(0, 4),
                                'both': st.booleans()})


ARMS = [
    Arm('word_pattern', run_pattern, strategy=strat_pattern, quick=640, thorough=4000,
        budget=(170, 1700)),
    Arm('word_pattern_all_sizes', run_pattern, enumerate=enum_pattern, exhaustive=True,
        budget=(170, 2400)),
    Arm('permuted_pattern', run_permuted, strategy=strat_permuted, quick=320, thorough=2000,
        budget=(170, 1700)),
    Arm('permuted_all_sizes', run_permuted, enumerate=enum_permuted, exhaustive=True,
        budget=(170, 2400)),
    Arm('both_patterned', run_bothpattern, strategy=strat_bothpattern, quick=320, thorough=2000,
        budget=(170, 1700)),
    Arm('low_hamming_weight', run_lowhw, strategy=strat_lowhw, quick=16, thorough=320,
        budget=(170, 2400), weight=10),
    Arm('pollard_smooth', run_pollard, strategy=strat_pollard, quick=96, thorough=1200,
        budget=(170, 1700), weight=5),
]
