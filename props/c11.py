"""C11 - elliptic-curve arithmetic is the group law on every input."""

import gmpy2 as gmpy
from hypothesis import strategies as st

from gens.common import Material, material
from harness.core import Arm, Violation, libcall
from refs import ec_ref
from refs import ec_ref_extra as rx

from paranoid_crypto import paranoid_pb2
from paranoid_crypto.lib import ec_util

ID = 'C11'
TITLE = 'Elliptic-curve arithmetic is the group law on every input'
TECHNIQUE = ('exhaustive enumeration of small prime-order groups against their discrete-log '
             'table; Hypothesis-drawn operands on the named curves against textbook affine '
             'arithmetic and OpenSSL')
RULE = (
    'Toy arms: for prime-order curves over small fields (three ways of writing a: the literal '
    '-3, p-3, generic incl. a=0; 11 curve objects with n <= 307 in the quick tier, 99 with n <= 2027 '
    'in the thorough tier, of which those with n <= 320 / 1300 are enumerated completely and the '
    'larger ones by edge rows {0,1,2,(n+-1)/2,n-2,n-1} plus sampled rows) every ordered pair of group elements incl. infinity goes through '
    'Add/Subtract/AddJacobian/BatchAdd/BatchAddX/BatchAddSubtractX/BatchAddList (one row or one '
    'shift of the group per descriptor, so each batched list mixes infinity, equal, opposite and '
    'generic operands), every element through Negate/Double/DoubleJacobian/BatchDouble, every '
    'scalar in [-2n,2n] through Multiply/MultiplyAffine/BatchMultiplyG, every Jacobian '
    'representative (l^2x,l^3y,l) and every (l^2,l^3,0), PointSequence/PointTable for every '
    'length 0..2n+2, BatchInverse on all short lists over GF(p) u {None}. Expected values come '
    'from the discrete-log table of the group (e_i + e_j = e_(i+j mod n)) built by the textbook '
    'reference and validated (n distinct points, nG = infinity). Named-curve arms: Hypothesis '
    'draws symbolic scalars (0, +-1, n-1, n, n+1, 2n, 2^(8j)+-1, comb-tooth boundaries, masks, '
    'random); points are k*G computed by OpenSSL; results are compared with textbook affine '
    'arithmetic and with OpenSSL on the scalar sum/product. A case is non-trivial when its '
    'operands contain a special case (infinity, equal, opposite, scalar 0/negative/multiple of n '
    'or >= n) - batched cases when they mix at least two kinds. Points are compared as points '
    '(coordinates modulo p).')
ASSUMPTIONS = [
    'refs/ec_ref.py textbook affine arithmetic (Python int, pow(x,-1,p)) is correct; for toy curves it is '
    'only used to walk G, 2G, ... and the walk is validated to have exactly n distinct elements',
    'OpenSSL (via cryptography) computes k*G correctly on the nine named curves; its explicit curve '
    'parameters (refs/curves_openssl.json) are the standard ones',
    'affine operands are points on the curve (never off-curve points); Jacobian infinity is given with the '
    'integer 0 as last coordinate, as ec_util documents',
]

INF = ec_util.INFINITY


# ---------------------------------------------------------------- conversions

def _conv(flag):
  return gmpy.mpz if flag else int


def L(P, conv=int, kx=0, ky=0, p=0):
  """Reference point -> library point (optionally with unreduced coordinates)."""
  if P is None:
    return INF
  return (conv(P[0] + kx * p), conv(P[1] + ky * p))


def LJ(J, conv=int):
  return (conv(J[0]), conv(J[1]), conv(J[2]))


def _isint(v):
  return isinstance(v, int) and not isinstance(v, bool) or isinstance(v, type(gmpy.mpz(0)))


def N(res, p, what):
  """Library affine point -> reference point (coordinates reduced mod p)."""
  if not isinstance(res, tuple) or len(res) != 2:
    raise Violation('shape:affine-point', fn=what, got=repr(res)[:120])
  x, y = res
  if x is None and y is None:
    return None
  if not _isint(x) or not _isint(y):
    raise Violation('shape:affine-point', fn=what, got=repr(res)[:120])
  return (int(x) % p, int(y) % p)


def NX(x, p, what):
  if x is None:
    return None
  if not _isint(x):
    raise Violation('shape:x-coordinate', fn=what, got=repr(x)[:120])
  return int(x) % p


def NJ(res, p, what):
  """Library Jacobian point -> reference affine point."""
  if not isinstance(res, tuple) or len(res) != 3 or not all(_isint(v) for v in res):
    raise Violation('shape:jacobian-point', fn=what, got=repr(res)[:120])
  a = rx.jac_to_affine(res, p)
  if a == 'zero':
    raise Violation('jacobian:all-zero-triple', fn=what)
  return a


def _x(P):
  return None if P is None else P[0]


def expect(got, want, what, **kw):
  if got != want:
    raise Violation('grouplaw:' + what, got=got, expected=want, **kw)


def expect_list(res, want, p, what, norm=N, **kw):
  if not isinstance(res, list) or len(res) != len(want):
    raise Violation('shape:list', fn=what, got=repr(res)[:200], expected_len=len(want))
  for idx, (r, w) in enumerate(zip(res, want)):
    g = norm(r, p, what)
    if g != w:
      raise Violation('grouplaw:' + what, index=idx, got=g, expected=w, length=len(want), **kw)


# ---------------------------------------------------------------- toy curves

_TOY = {}


def _toy(c):
  key = (c['p'], c['a'], c['b'], c['gx'], c['gy'], c['n'])
  if key not in _TOY:
    R, elems, dl = ec_ref.toy_group(c)
    assert all(R.on_curve(e) for e in elems)
    assert R.mul(R.g, c['n']) is None
    _TOY[key] = (R, elems, dl)
  return _TOY[key]


def _lib_curve(c, form, g=None):
  """A fresh library curve object (fresh caches) for the toy curve c."""
  p = c['p']
  if form == 'lit':
    assert c['a'] == p - 3
    a = -3
  elif form == 'pm3':
    assert c['a'] == p - 3
    a = p - 3
  else:
    a = c['a']
  gx, gy = (c['gx'], c['gy']) if g is None else g
  return ec_util.EcCurve('toy%d' % p, a, c['b'], p, gx, gy, c['n'])


_TOY_LISTS = {}


def toy_curves(tier):
  """[(curve dict, form)], deterministic."""
  if tier in _TOY_LISTS:
    return _TOY_LISTS[tier]
  if tier == 'quick':
    m3 = ec_ref.find_toy_curves([11, 101, 263], 1, True)
    gen = ec_ref.find_toy_curves([13, 127, 257], 1)
    a0 = rx.find_toy_curves_with_a([37, 139], lambda p: 0)
  else:
    pr = rx.small_primes(7, 2000)
    m3 = ec_ref.find_toy_curves(pr[0:40:3] + pr[40::19], 1, True)
    gen = ec_ref.find_toy_curves(pr[1:40:3] + pr[45::19], 1) + \
        ec_ref.find_toy_curves(pr[2:40:6], 1, start=977)
    a0 = rx.find_toy_curves_with_a([q for q in pr[0::4] if q % 3 == 1][:14], lambda p: 0)
  out = []
  for c in m3:
    out.append((c, 'lit'))
    out.append((c, 'pm3'))
  for c in gen + a0:
    out.append((c, 'gen'))
  _TOY_LISTS[tier] = out
  return out


def _lam(mat, p):
  """A Jacobian scaling factor: 1, p-1 or random non-zero."""
  r = mat.below(8)
  if r == 0:
    return 1
  if r == 1:
    return p - 1
  return 1 + mat.below(p - 1)


def _base_cls(c, form):
  return ['a-form=%s' % form, 'order-bits=%d' % c['n'].bit_length()]


# ---- op 'pair': one fixed element e_i against every element e_j

def _toy_pair(d):
  c, form, i = d['c'], d['f'], d['i']
  R, E, _ = _toy(c)
  n, p = c['n'], c['p']
  conv = _conv(d.get('mpz', True))
  ec = _lib_curve(c, form)
  mat = Material(i * 1000003 + p, 'c11pair')
  P = E[i]
  lp = L(P, conv)
  orders = [list(range(n)), mat.shuffle(range(n))]
  for j in range(n):
    Q = E[j]
    lq = L(Q, conv)
    S, D = E[(i + j) % n], E[(i - j) % n]
    expect(N(libcall(ec.Add, lp, lq), p, 'Add'), S, 'Add', i=i, j=j)
    expect(N(libcall(ec.Subtract, lp, lq), p, 'Subtract'), D, 'Subtract', i=i, j=j)
    l1, l2 = _lam(mat, p), _lam(mat, p)
    j1, j2 = rx.jac_rep(P, l1, p), rx.jac_rep(Q, l2, p)
    r = libcall(ec.AddJacobian, LJ(j1, conv), LJ(j2, conv))
    expect(NJ(r, p, 'AddJacobian'), S, 'AddJacobian', i=i, j=j, lam=[l1, l2])
    # the library's own conversion of its own result
    expect(N(libcall(ec.JacobianToAffine, r), p, 'JacobianToAffine'), S,
           'JacobianToAffine(AddJacobian)', i=i, j=j, lam=[l1, l2])
  for order in orders:
    qs = [L(E[j], conv) for j in order]
    sums = [E[(i + j) % n] for j in order]
    diffs = [E[(i - j) % n] for j in order]
    expect_list(libcall(ec.BatchAdd, lp, list(qs)), sums, p, 'BatchAdd', i=i)
    expect_list(libcall(ec.BatchAddX, lp, list(qs)), [_x(s) for s in sums], p, 'BatchAddX',
                norm=NX, i=i)
    r = libcall(ec.BatchAddSubtractX, lp, list(qs))
    if not isinstance(r, tuple) or len(r) != 2:
      raise Violation('shape:pair-of-lists', fn='BatchAddSubtractX', got=repr(r)[:120])
    expect_list(r[0], [_x(s) for s in sums], p, 'BatchAddSubtractX.sums', norm=NX, i=i)
    expect_list(r[1], [_x(s) for s in diffs], p, 'BatchAddSubtractX.diffs', norm=NX, i=i)
    expect_list(libcall(ec.BatchAddList, [lp] * n, list(qs)), sums, p, 'BatchAddList', i=i)
  return {'nt': True,
          'cls': ['pair-row(all q for one p)'] + _base_cls(c, form) +
                 (['p=infinity'] if i == 0 else [])}


# ---- op 'shift': pairs (e_j, e_(j+i)) for all j in one BatchAddList call

def _toy_shift(d):
  c, form, i = d['c'], d['f'], d['i']
  _, E, _ = _toy(c)
  n, p = c['n'], c['p']
  conv = _conv(d.get('mpz', True))
  ec = _lib_curve(c, form)
  mat = Material(i * 1000003 + p, 'c11shift')
  for order in (list(range(n)), mat.shuffle(range(n))):
    ps = [L(E[j], conv) for j in order]
    qs = [L(E[(j + i) % n], conv) for j in order]
    want = [E[(2 * j + i) % n] for j in order]
    expect_list(libcall(ec.BatchAddList, ps, qs), want, p, 'BatchAddList', shift=i)
    # prefixes: the special cases sit at different distances from the end of the list
    for ln in (0, 1, 2, n // 2):
      expect_list(libcall(ec.BatchAddList, ps[:ln], qs[:ln]), want[:ln], p, 'BatchAddList',
                  shift=i, prefix=ln)
  return {'nt': True, 'cls': ['shift-row(BatchAddList over the whole group)'] + _base_cls(c, form)}


# ---- op 'unary': every element through Negate / Double / DoubleJacobian / BatchDouble

def _toy_unary(d):
  c, form = d['c'], d['f']
  _, E, _ = _toy(c)
  n, p = c['n'], c['p']
  conv = _conv(d.get('mpz', True))
  ec = _lib_curve(c, form)
  mat = Material(p, 'c11unary')
  for i in range(n):
    lp = L(E[i], conv)
    expect(N(libcall(ec.Negate, lp), p, 'Negate'), E[-i % n], 'Negate', i=i)
    expect(N(libcall(ec.Double, lp), p, 'Double'), E[2 * i % n], 'Double', i=i)
    j = libcall(ec.AffineToJacobian, lp)
    expect(NJ(j, p, 'AffineToJacobian'), E[i], 'AffineToJacobian', i=i)
    expect(N(libcall(ec.JacobianToAffine, j), p, 'JacobianToAffine'), E[i], 'JacobianToAffine', i=i)
  for order in (list(range(n)), mat.shuffle(range(n)), [], [0], [0, 0], [1], [0, 1, 0]):
    ps = [L(E[j], conv) for j in order]
    expect_list(libcall(ec.BatchDouble, ps), [E[2 * j % n] for j in order], p, 'BatchDouble')
  return {'nt': True, 'cls': ['unary(all elements)'] + _base_cls(c, form)}


# ---- op 'jac': every Jacobian representative of one element

def _toy_jac(d):
  c, form, i = d['c'], d['f'], d['i']
  _, E, _ = _toy(c)
  n, p = c['n'], c['p']
  conv = _conv(d.get('mpz', True))
  ec = _lib_curve(c, form)
  mat = Material(i * 1000003 + p, 'c11jac')
  P = E[i]
  reps = []
  unreduced = bool(d.get('unred'))
  for lam in range(1, p):
    if unreduced:
      # unreduced coordinates: x, y any representative; z any non-zero representative
      kx, ky, kz = mat.between(-2, 2), mat.between(-2, 2), mat.between(-2, 2)
    else:
      kx = ky = kz = 0
    rep = LJ(rx.jac_rep(P, lam, p, kx, ky, kz), conv)
    reps.append(rep)
    expect(NJ(libcall(ec.DoubleJacobian, rep), p, 'DoubleJacobian'), E[2 * i % n],
           'DoubleJacobian', i=i, lam=lam, rep=rep)
    expect(N(libcall(ec.JacobianToAffine, rep), p, 'JacobianToAffine'), P,
           'JacobianToAffine', i=i, lam=lam, rep=rep)
    # a second representative of the same point, of the opposite point, of another point
    l2 = 1 + mat.below(p - 1)
    same = LJ(rx.jac_rep(P, l2, p), conv)
    opp = LJ(rx.jac_rep(E[-i % n], l2, p), conv)
    k = mat.below(n)
    other = LJ(rx.jac_rep(E[k], l2, p), conv)
    for a, b, w, tag in ((rep, same, E[2 * i % n], 'equal'), (same, rep, E[2 * i % n], 'equal'),
                         (rep, opp, None, 'opposite'), (opp, rep, None, 'opposite'),
                         (rep, other, E[(i + k) % n], 'other'),
                         (other, rep, E[(i + k) % n], 'other')):
      r = libcall(ec.AddJacobian, a, b)
      expect(NJ(r, p, 'AddJacobian'), w, 'AddJacobian(%s)' % tag, i=i, k=k, a=a, b=b)
      expect(N(libcall(ec.JacobianToAffine, r), p, 'JacobianToAffine'), w,
             'JacobianToAffine(AddJacobian)', i=i, k=k, a=a, b=b)
  want = [P] * len(reps)
  expect_list(libcall(ec.BatchJacobianToAffine, list(reps)), want, p, 'BatchJacobianToAffine', i=i)
  expect_list(libcall(ec.BatchJacobianToX, list(reps)), [_x(P)] * len(reps), p,
              'BatchJacobianToX', norm=NX, i=i)
  # a list mixing representatives of this element, of infinity and of other elements
  idx = [mat.choice([i, 0, mat.below(n)]) for _ in range(24)]
  mixed = [LJ(rx.jac_rep(E[k], 1 + mat.below(p - 1), p), conv) for k in idx]
  for ln in (0, 1, 2, 24):
    expect_list(libcall(ec.BatchJacobianToAffine, mixed[:ln]), [E[k] for k in idx[:ln]], p,
                'BatchJacobianToAffine', idx=idx[:ln])
    expect_list(libcall(ec.BatchJacobianToX, mixed[:ln]), [_x(E[k]) for k in idx[:ln]], p,
                'BatchJacobianToX', norm=NX, idx=idx[:ln])
  cls = ['jacobian(all representatives of one element)'] + _base_cls(c, form)
  if i == 0:
    cls.append('all (l^2,l^3,0) of infinity')
  if unreduced:
    cls.append('jacobian-unreduced-coordinates')
  return {'nt': True, 'cls': cls}


# ---- op 'mul': one element times scalars

def _toy_mul(d):
  c, form, i = d['c'], d['f'], d['i']
  _, E, _ = _toy(c)
  n, p = c['n'], c['p']
  conv = _conv(d.get('mpz', True))
  ec = _lib_curve(c, form)
  lp = L(E[i], conv)
  lo, hi = d.get('range', [-2 * n, 2 * n])
  for k in range(lo, hi + 1):
    w = E[i * k % n]
    expect(N(libcall(ec.Multiply, lp, conv(k)), p, 'Multiply'), w, 'Multiply', i=i, k=k)
    expect(N(libcall(ec.MultiplyAffine, lp, conv(k)), p, 'MultiplyAffine'), w,
           'MultiplyAffine', i=i, k=k)
  return {'nt': lo <= 0, 'cls': ['multiply(scalars %s)' % ('[-2n,2n]' if 'range' not in d else
                                                          'edge window')] + _base_cls(c, form)}


# ---- op 'bmg': BatchMultiplyG with generator e_g, every scalar in [-2n, 2n]

def _toy_bmg(d):
  c, form, g = d['c'], d['f'], d['i']
  _, E, _ = _toy(c)
  n, p = c['n'], c['p']
  conv = _conv(d.get('mpz', True))
  mat = Material(g * 1000003 + p, 'c11bmg')
  assert g % n
  scal = list(range(-2 * n, 2 * n + 1))
  ec = _lib_curve(c, form, E[g])
  expect_list(libcall(ec.BatchMultiplyG, [conv(k) for k in scal]), [E[g * k % n] for k in scal],
              p, 'BatchMultiplyG', g=g, scalars='-2n..2n')
  # second call on the same object (warm cache), other order, repeated scalars
  sh = mat.shuffle(scal)[:n] + [0, 0, n, -n, 1]
  expect_list(libcall(ec.BatchMultiplyG, [conv(k) for k in sh]), [E[g * k % n] for k in sh],
              p, 'BatchMultiplyG', g=g, scalars=sh[:20], call='second')
  # cold cache, short lists
  for ks in ([], [0], [n], [-1], [2 * n - 1, 1 - 2 * n], [mat.between(-2 * n, 2 * n)]):
    ec = _lib_curve(c, form, E[g])
    expect_list(libcall(ec.BatchMultiplyG, [conv(k) for k in ks]), [E[g * k % n] for k in ks],
                p, 'BatchMultiplyG', g=g, scalars=ks)
  steps, teeth = rx.comb(n.bit_length())
  return {'nt': True, 'cls': ['batch-multiply-g(all scalars)', 'comb-steps=%d' % steps,
                              'comb-teeth=%d' % len(teeth)] + _base_cls(c, form)}


# ---- op 'seq': PointSequence / PointTable

def _check_table(tab, R, base, count, p, **kw):
  if not isinstance(tab, dict):
    raise Violation('shape:dict', fn='PointTable', got=repr(tab)[:120])
  mult = {}
  acc = None
  top = max([count] + [int(v) for v in tab.values() if _isint(v)]) + 1
  xs = []
  for t in range(top):
    xs.append(_x(acc))
    acc = R.add(acc, base)
  for key, v in tab.items():
    if not _isint(v) or v < 0:
      raise Violation('shape:table-value', fn='PointTable', key=repr(key), value=repr(v))
    if key is not None and not _isint(key):
      raise Violation('shape:table-key', fn='PointTable', key=repr(key))
    if NX(key, p, 'PointTable') != xs[int(v)]:
      raise Violation('grouplaw:PointTable.entry', key=repr(key), value=int(v),
                      expected_x=xs[int(v)], count=count, **kw)
    mult[None if key is None else int(key)] = int(v)
  for t in range(count):
    if xs[t] not in mult:
      raise Violation('grouplaw:PointTable.missing', t=t, x=xs[t], count=count, **kw)


def _toy_seq(d):
  c, form, i = d['c'], d['f'], d['i']
  R, E, _ = _toy(c)
  n, p = c['n'], c['p']
  conv = _conv(d.get('mpz', True))
  ec = _lib_curve(c, form)
  lp = L(E[i], conv)
  counts = d['counts']
  if counts == 'all':
    counts = list(range(1, 2 * n + 3))
  fns = d.get('fns', ['PointSequence', 'PointTable'])
  for cnt in counts:
    if 'PointSequence' in fns:
      expect_list(libcall(ec.PointSequence, lp, cnt), [E[i * t % n] for t in range(cnt)], p,
                  'PointSequence', i=i, count=cnt)
    if 'PointTable' in fns:
      _check_table(libcall(ec.PointTable, lp, cnt), R, E[i], cnt, p, i=i)
  return {'nt': True, 'cls': ['point-sequence/table'] + _base_cls(c, form) +
                             (['zero-length'] if 0 in counts else []) +
                             (['base=infinity'] if i == 0 else [])}


# ---- op 'binv': BatchInverse over GF(p)

def _check_binv(ec, vals, p, conv):
  arg = [None if v is None else conv(v) for v in vals]
  res = libcall(ec.BatchInverse, arg)
  if not isinstance(res, list) or len(res) != len(vals):
    raise Violation('shape:list', fn='BatchInverse', got=repr(res)[:200], expected_len=len(vals))
  for idx, (v, r) in enumerate(zip(vals, res)):
    if v is None or v == 0:
      if r is not None:
        raise Violation('batchinverse:none-expected', index=idx, values=vals, got=repr(r))
    else:
      if not _isint(r) or int(r) % p != pow(v, -1, p):
        raise Violation('batchinverse:value', index=idx, values=vals, got=repr(r),
                        expected=pow(v, -1, p))


def _toy_binv(d):
  c, form = d['c'], d['f']
  p = c['p']
  conv = _conv(d.get('mpz', True))
  ec = _lib_curve(c, form)
  alphabet = [None] + list(range(p))
  maxlen = d['maxlen']
  cnt = 0
  def rec(prefix):
    nonlocal cnt
    _check_binv(ec, prefix, p, conv)
    cnt += 1
    if len(prefix) < maxlen:
      for v in alphabet:
        rec(prefix + [v])
  rec([])
  mat = Material(p, 'c11binv')
  for _ in range(200):
    ln = mat.between(0, 40)
    vals = [mat.choice([None, 0, 1, p - 1, 1 + mat.below(p - 1), 1 + mat.below(p - 1)])
            for _ in range(ln)]
    _check_binv(ec, vals, p, conv)
  return {'nt': True, 'cls': ['batch-inverse(all lists up to length %d)' % maxlen], 'lists': cnt}


# ---- op 'unred': affine operands with unreduced coordinates (x + kp, y + k'p)

def _toy_unred(d):
  c, form, i = d['c'], d['f'], d['i']
  _, E, _ = _toy(c)
  n, p = c['n'], c['p']
  conv = _conv(d.get('mpz', True))
  ec = _lib_curve(c, form)
  mat = Material(i * 1000003 + p, 'c11unred')
  ks = (-1, 0, 1, 2)
  def U(P):
    return L(P, conv, mat.choice(ks), mat.choice(ks), p)
  P = E[i]
  for j in range(n):
    Q = E[j]
    S, D = E[(i + j) % n], E[(i - j) % n]
    a, b = U(P), U(Q)
    expect(N(libcall(ec.Add, a, b), p, 'Add'), S, 'Add(unreduced)', i=i, j=j, pt=a, q=b)
    expect(N(libcall(ec.Subtract, a, b), p, 'Subtract'), D, 'Subtract(unreduced)', i=i, j=j,
           pt=a, q=b)
  a = U(P)
  expect(N(libcall(ec.Negate, a), p, 'Negate'), E[-i % n], 'Negate(unreduced)', i=i, pt=a)
  expect(N(libcall(ec.Double, a), p, 'Double'), E[2 * i % n], 'Double(unreduced)', i=i, pt=a)
  order = mat.shuffle(range(n))
  qs = [U(E[j]) for j in order]
  sums = [E[(i + j) % n] for j in order]
  diffs = [E[(i - j) % n] for j in order]
  a = U(P)
  expect_list(libcall(ec.BatchAdd, a, list(qs)), sums, p, 'BatchAdd(unreduced)', i=i, pt=a)
  expect_list(libcall(ec.BatchAddX, a, list(qs)), [_x(s) for s in sums], p, 'BatchAddX(unreduced)',
              norm=NX, i=i, pt=a)
  r = libcall(ec.BatchAddSubtractX, a, list(qs))
  expect_list(r[0], [_x(s) for s in sums], p, 'BatchAddSubtractX.sums(unreduced)', norm=NX, i=i)
  expect_list(r[1], [_x(s) for s in diffs], p, 'BatchAddSubtractX.diffs(unreduced)', norm=NX, i=i)
  ps = [U(P) for _ in order]
  expect_list(libcall(ec.BatchAddList, ps, list(qs)), sums, p, 'BatchAddList(unreduced)', i=i)
  expect_list(libcall(ec.BatchDouble, list(qs)), [E[2 * j % n] for j in order], p,
              'BatchDouble(unreduced)')
  for k in (-n - 1, -2, -1, 0, 1, 2, 3, n - 1, n, n + 1):
    a = U(P)
    expect(N(libcall(ec.Multiply, a, k), p, 'Multiply'), E[i * k % n], 'Multiply(unreduced)',
           i=i, k=k, pt=a)
    expect(N(libcall(ec.MultiplyAffine, a, k), p, 'MultiplyAffine'), E[i * k % n],
           'MultiplyAffine(unreduced)', i=i, k=k, pt=a)
  return {'nt': True, 'cls': ['affine-unreduced-coordinates'] + _base_cls(c, form)}


# ---- op 'unred1': one explicit pair of unreduced operands (replayable minimal form)

def _toy_unred1(d):
  c, form, i, j = d['c'], d['f'], d['i'], d['j']
  _, E, _ = _toy(c)
  n, p = c['n'], c['p']
  conv = _conv(d.get('mpz', True))
  ec = _lib_curve(c, form)
  a = L(E[i], conv, d['kp'][0], d['kp'][1], p)
  b = L(E[j], conv, d['kq'][0], d['kq'][1], p)
  S, D = E[(i + j) % n], E[(i - j) % n]
  info = dict(i=i, j=j, pt=a, q=b)
  expect(N(libcall(ec.Add, a, b), p, 'Add'), S, 'Add(unreduced)', **info)
  expect(N(libcall(ec.Subtract, a, b), p, 'Subtract'), D, 'Subtract(unreduced)', **info)
  expect_list(libcall(ec.BatchAdd, a, [b]), [S], p, 'BatchAdd(unreduced)', **info)
  expect_list(libcall(ec.BatchAddX, a, [b]), [_x(S)], p, 'BatchAddX(unreduced)', norm=NX, **info)
  r = libcall(ec.BatchAddSubtractX, a, [b])
  expect_list(r[0], [_x(S)], p, 'BatchAddSubtractX.sums(unreduced)', norm=NX, **info)
  expect_list(r[1], [_x(D)], p, 'BatchAddSubtractX.diffs(unreduced)', norm=NX, **info)
  expect_list(libcall(ec.BatchAddList, [a], [b]), [S], p, 'BatchAddList(unreduced)', **info)
  kind = 'inf' if 0 in (i, j) else 'equal' if i == j else 'opposite' if (i + j) % n == 0 else 'generic'
  return {'nt': kind != 'generic',
          'cls': ['affine-unreduced-explicit-pair', 'unreduced-' + kind] + _base_cls(c, form)}


_TOY_OPS = {'pair': _toy_pair, 'shift': _toy_shift, 'unary': _toy_unary, 'jac': _toy_jac,
            'mul': _toy_mul, 'bmg': _toy_bmg, 'seq': _toy_seq, 'binv': _toy_binv,
            'unred': _toy_unred, 'unred1': _toy_unred1}


def run_toy(d):
  return _TOY_OPS[d['op']](d)


# ---------------------------------------------------------------- toy enumerations

def _rows(n, full, mat_seed, extra=()):
  """All indices when the curve is small enough, else edges + a deterministic sample."""
  if n <= full:
    return list(range(n))
  mat = Material(mat_seed, 'c11rows')
  s = {0, 1, 2, n - 1, n - 2, (n + 1) // 2, (n - 1) // 2}
  s.update(extra)
  while len(s) < min(24, n):
    s.add(mat.below(n))
  return sorted(s)


def enum_toy_pairs(tier):
  full = 320 if tier == 'quick' else 1300
  for ci, (c, form) in enumerate(toy_curves(tier)):
    n = c['n']
    for i in _rows(n, full, n):
      yield {'op': 'pair', 'c': c, 'f': form, 'i': i, 'mpz': (i + ci) % 3 != 0}
    for i in _rows(n, full, n + 1):
      yield {'op': 'shift', 'c': c, 'f': form, 'i': i, 'mpz': (i + ci) % 3 != 1}
    yield {'op': 'unary', 'c': c, 'f': form, 'mpz': True}
    yield {'op': 'unary', 'c': c, 'f': form, 'mpz': False}


def enum_toy_jac(tier):
  full = 140 if tier == 'quick' else 600
  for ci, (c, form) in enumerate(toy_curves(tier)):
    n = c['n']
    for i in _rows(n, full, n + 2):
      yield {'op': 'jac', 'c': c, 'f': form, 'i': i, 'mpz': (i + ci) % 2 == 0}
    for i in _rows(n, 0, n + 3):
      yield {'op': 'jac', 'c': c, 'f': form, 'i': i, 'mpz': (i + ci) % 2 == 1, 'unred': True}


def enum_toy_mul(tier):
  full = 140 if tier == 'quick' else 520
  for ci, (c, form) in enumerate(toy_curves(tier)):
    n = c['n']
    rows = _rows(n, full, n + 4)
    for i in rows:
      yield {'op': 'mul', 'c': c, 'f': form, 'i': i, 'mpz': (i + ci) % 2 == 0}
    if n > full:
      # every element against the edge scalars
      for i in range(n):
        if i not in rows:
          for lo in (-2 * n, -n - 2, -3, n - 2, 2 * n - 4):
            yield {'op': 'mul', 'c': c, 'f': form, 'i': i, 'mpz': True, 'range': [lo, lo + 5]}


def enum_toy_bmg(tier):
  full = 140 if tier == 'quick' else 520
  for ci, (c, form) in enumerate(toy_curves(tier)):
    n = c['n']
    for g in _rows(n, full, n + 5):
      if g:
        yield {'op': 'bmg', 'c': c, 'f': form, 'i': g, 'mpz': (g + ci) % 2 == 0}


def enum_toy_seq(tier):
  full = 40 if tier == 'quick' else 120
  edge = lambda n: [1, 2, 3, 4, 5, n - 1, n, n + 1, 2 * n, 2 * n + 1, 2 * n + 2]
  for ci, (c, form) in enumerate(toy_curves(tier)):
    n = c['n']
    for i in _rows(n, 320 if tier == 'quick' else 700, n + 7):
      if n <= full or i in ((0, 1, 2, n - 1) if n <= 700 else (0, 1)):
        yield {'op': 'seq', 'c': c, 'f': form, 'i': i, 'counts': 'all', 'mpz': (i + ci) % 2 == 0}
      else:
        yield {'op': 'seq', 'c': c, 'f': form, 'i': i, 'counts': edge(n), 'mpz': (i + ci) % 2 == 0}


def enum_toy_seq0(tier):
  for c, form in toy_curves(tier)[:4]:
    for i in (0, 1):
      for fn in ('PointSequence', 'PointTable'):
        yield {'op': 'seq', 'c': c, 'f': form, 'i': i, 'counts': [0], 'fns': [fn], 'mpz': True}


def enum_toy_binv(tier):
  seen = set()
  for c, form in toy_curves(tier):
    p = c['p']
    if p in seen:
      continue
    seen.add(p)
    maxlen = 4 if p <= 13 else 3 if p <= 40 else 2 if p <= (300 if tier == 'quick' else 700) else 1
    yield {'op': 'binv', 'c': c, 'f': form, 'maxlen': maxlen, 'mpz': True}
    yield {'op': 'binv', 'c': c, 'f': form, 'maxlen': min(maxlen, 2), 'mpz': False}


def enum_toy_unred(tier):
  full = 140 if tier == 'quick' else 600
  for ci, (c, form) in enumerate(toy_curves(tier)):
    n = c['n']
    for i in _rows(n, full, n + 6):
      yield {'op': 'unred', 'c': c, 'f': form, 'i': i, 'mpz': (i + ci) % 2 == 0}
    # equal / opposite / infinity pairs with every combination of coordinate offsets
    if n <= 40:
      for i in range(n):
        for j in sorted({i, -i % n, 0, 1}):
          for kq in ([1, 0], [0, 1], [-1, 2], [2, -1]):
            for kp in ([0, 0], [1, 1]):
              yield {'op': 'unred1', 'c': c, 'f': form, 'i': i, 'j': j, 'kp': kp, 'kq': kq,
                     'mpz': (i + j) % 2 == 0}


# ---------------------------------------------------------------- toy curves, Hypothesis-drawn mixtures

def run_toy_mix(d):
  """Batched operations on lists of random length mixing every kind of special case."""
  c, form = d['c'], d['f']
  _, E, _ = _toy(c)
  n, p = c['n'], c['p']
  conv = _conv(d.get('mpz', True))
  ec = _lib_curve(c, form)
  mat = Material(d['m'], 'c11mix')
  i = d['p'] % n
  pairs = []
  kinds = set()
  for a, rel, b in d['pairs']:
    a %= n
    if rel == 'same':
      b = a
    elif rel == 'opp':
      b = -a % n
    elif rel == 'inf':
      b = 0
    elif rel == 'p':       # equal to the fixed point of BatchAdd
      a = b = i
    elif rel == '-p':
      a = b = -i % n
    else:
      b %= n
    pairs.append((a, b))
  def kind(a, b):
    if a == 0 or b == 0:
      return 'inf'
    if a == b:
      return 'equal'
    if (a + b) % n == 0:
      return 'opposite'
    return 'generic'
  for a, b in pairs:
    kinds.add(kind(a, b))
  ps = [L(E[a], conv) for a, _ in pairs]
  qs = [L(E[b], conv) for _, b in pairs]
  expect_list(libcall(ec.BatchAddList, list(ps), list(qs)), [E[(a + b) % n] for a, b in pairs], p,
              'BatchAddList', pairs=pairs)
  expect_list(libcall(ec.BatchDouble, list(ps)), [E[2 * a % n] for a, _ in pairs], p, 'BatchDouble',
              idx=[a for a, _ in pairs])
  lp = L(E[i], conv)
  kinds2 = {kind(i, b) for _, b in pairs}
  sums = [E[(i + b) % n] for _, b in pairs]
  diffs = [E[(i - b) % n] for _, b in pairs]
  expect_list(libcall(ec.BatchAdd, lp, list(qs)), sums, p, 'BatchAdd', i=i, idx=[b for _, b in pairs])
  expect_list(libcall(ec.BatchAddX, lp, list(qs)), [_x(s) for s in sums], p, 'BatchAddX', norm=NX,
              i=i, idx=[b for _, b in pairs])
  r = libcall(ec.BatchAddSubtractX, lp, list(qs))
  if not isinstance(r, tuple) or len(r) != 2:
    raise Violation('shape:pair-of-lists', fn='BatchAddSubtractX', got=repr(r)[:120])
  expect_list(r[0], [_x(s) for s in sums], p, 'BatchAddSubtractX.sums', norm=NX, i=i,
              idx=[b for _, b in pairs])
  expect_list(r[1], [_x(s) for s in diffs], p, 'BatchAddSubtractX.diffs', norm=NX, i=i,
              idx=[b for _, b in pairs])
  reps = [LJ(rx.jac_rep(E[a], _lam(mat, p), p), conv) for a, _ in pairs]
  expect_list(libcall(ec.BatchJacobianToAffine, list(reps)), [E[a] for a, _ in pairs], p,
              'BatchJacobianToAffine', idx=[a for a, _ in pairs])
  expect_list(libcall(ec.BatchJacobianToX, list(reps)), [_x(E[a]) for a, _ in pairs], p,
              'BatchJacobianToX', norm=NX, idx=[a for a, _ in pairs])
  ks = [int(k) for k in d['ks']]
  if ks or d.get('bmg_empty'):
    g = 1 + d['g'] % (n - 1)
    ecg = _lib_curve(c, form, E[g])
    half = len(ks) // 2
    for part in (ks[:half], ks[half:]):     # the second call sees the first call's cache
      expect_list(libcall(ecg.BatchMultiplyG, [conv(k) for k in part]), [E[g * k % n] for k in part],
                  p, 'BatchMultiplyG', g=g, scalars=part)
  _check_binv(ec, [None if v is None else v % p for v in d['inv']], p, conv)
  cls = ['mix-len=%s' % ('0' if not pairs else '1' if len(pairs) == 1 else '2-8' if len(pairs) <= 8
                         else '9+')]
  cls += ['list-kinds=%d' % len(kinds), 'batchadd-kinds=%d' % len(kinds2)] + _base_cls(c, form)
  return {'nt': len(kinds) >= 2 or len(kinds2) >= 2, 'cls': cls}


def strat_toy_mix(tier):
  curves = toy_curves(tier)
  rel = st.sampled_from(['same', 'opp', 'inf', 'p', '-p', 'any', 'any', 'any'])
  @st.composite
  def s(draw):
    c, form = draw(st.sampled_from(curves))
    n = c['n']
    idx = st.one_of(st.integers(0, n - 1), st.sampled_from([0, 0, 1, n - 1]))
    lo, hi = draw(st.sampled_from([(0, 1), (1, 3), (2, 8), (2, 8), (5, 20), (10, 40)]))
    pairs = draw(st.lists(st.tuples(idx, rel, idx).map(list), min_size=lo, max_size=hi))
    ks = draw(st.lists(st.one_of(st.integers(-3 * n, 3 * n), st.sampled_from([0, n, -n, 2 * n]),
                                 st.integers(-2**20, 2**20)), max_size=12))
    inv = draw(st.lists(st.one_of(st.none(), st.integers(0, c['p'] - 1), st.just(0)), max_size=20))
    return {'c': c, 'f': form, 'p': draw(idx), 'pairs': pairs, 'ks': ks, 'g': draw(st.integers(0, n)),
            'inv': inv, 'm': draw(material), 'mpz': draw(st.booleans()),
            'bmg_empty': draw(st.booleans())}
  return s()


# ---------------------------------------------------------------- named curves

NAMED = {}
for _k, _c in ec_util.CURVE_FACTORY.items():
  if _c is not None:
    NAMED[paranoid_pb2.CurveType.Name(_k)] = _k
NAMED_LIST = sorted(NAMED)
_OSSL = {k.upper(): k for k in ec_ref.OPENSSL_NAMES}


def _ref_name(enum_name):
  """CURVE_SECP256R1 -> secp256r1 (the name refs/ec_ref.py files OpenSSL's parameters under)."""
  return _OSSL.get(enum_name[len('CURVE_'):])


def _named_lib(enum_name):
  """A fresh copy (fresh caches) of the library's curve object."""
  c = ec_util.CURVE_FACTORY[NAMED[enum_name]]
  return ec_util.EcCurve(c.name, c.a, c.b, c.mod, c.g[0], c.g[1], c.n, c.h)


_KG = {}


def _kg(R, k, deep=False):
  """k*G on the reference curve: OpenSSL, cross-checked (textbook double-and-add when deep)."""
  k %= R.n
  if k == 0:
    return None
  key = (R.name, k)
  if key not in _KG:
    P = ec_ref.openssl_mul_g(R.name, k)
    if P is None:
      P = R.mul(R.g, k)
    assert R.on_curve(P)
    if len(_KG) > 20000:
      _KG.clear()
    _KG[key] = P
  P = _KG[key]
  if deep:
    assert R.mul(R.g, k) == P, 'the two oracles disagree'
  return P


def scalar(spec, n, nbits):
  """Symbolic scalar -> integer."""
  t = spec[0]
  steps, teeth = rx.comb(nbits)
  if t == 'n':          # multiple of the order plus a small offset
    return spec[1] * n + spec[2]
  if t == 'pow':        # 2^e + d
    return (1 << spec[1]) + spec[2]
  if t == 'pow8':       # 2^(8j) + d
    return (1 << (8 * spec[1])) + spec[2]
  if t == 'tooth':      # 2^(steps*j + i) + d : bit of comb tooth j in comb row i
    j, i, dd = spec[1] % (len(teeth) + 1), spec[2] % steps, spec[3]
    return (1 << (steps * j + i)) + dd
  if t == 'mask':       # all teeth of row i
    return sum(1 << u for u in teeth) << (spec[1] % steps)
  if t == 'ones':       # 2^(nbits + e) - 1
    return (1 << (nbits + spec[1])) - 1
  if t == 'half':
    return (n + 1) // 2 + spec[1]
  if t == 'rand':
    return Material(spec[1], 'c11scalar').below(n)
  if t == 'raw':
    return spec[1]
  if t == 'neg':
    return -scalar(spec[1], n, nbits)
  raise AssertionError(spec)


def st_scalar(nbits_max=530):
  small = st.integers(-3, 3)
  base = st.one_of(
      st.tuples(st.just('n'), st.integers(-2, 3), st.integers(-3, 3)),
      st.tuples(st.just('pow'), st.integers(0, nbits_max + 9), small),
      st.tuples(st.just('pow8'), st.integers(0, 67), st.sampled_from([-1, 1, 0])),
      st.tuples(st.just('tooth'), st.integers(0, 9), st.integers(0, 70), st.sampled_from([-1, 0, 1])),
      st.tuples(st.just('mask'), st.integers(0, 70)),
      st.tuples(st.just('ones'), st.integers(-2, 9)),
      st.tuples(st.just('half'), st.integers(-1, 1)),
      st.tuples(st.just('rand'), st.integers(0, 2**32)),
      st.tuples(st.just('rand'), st.integers(0, 2**32)),
      st.tuples(st.just('raw'), st.integers(-2**nbits_max, 2**nbits_max)),
      st.tuples(st.just('raw'), st.integers(-300, 300)),
  ).map(list)
  return st.one_of(base, base, base.map(lambda s: ['neg', s]))


def _scalar_cls(k, n):
  out = []
  if k % n == 0:
    out.append('scalar=0 mod n')
  if k < 0:
    out.append('scalar<0')
  if k >= n:
    out.append('scalar>=n')
  if k % n in (1, n - 1):
    out.append('scalar=+-1 mod n')
  return out


def _named_pairs(R, d):
  """Expands [[specA, specB or relation], ...] into scalar pairs."""
  n, nb = R.n, R.n.bit_length()
  out = []
  for sa, sb in d['pairs']:
    ka = scalar(sa, n, nb)
    if sb[0] == 'same':
      kb = ka + sb[1] * n
    elif sb[0] == 'opp':
      kb = -ka + sb[1] * n
    elif sb[0] == 'near':
      kb = sb[1] * ka + sb[2]
    else:
      kb = scalar(sb, n, nb)
    out.append((ka % n, kb % n))
  return out


def _kind(ka, kb, n):
  if ka % n == 0 or kb % n == 0:
    return 'inf'
  if (ka - kb) % n == 0:
    return 'equal'
  if (ka + kb) % n == 0:
    return 'opposite'
  return 'generic'


def run_named_affine(d):
  name = _ref_name(d['curve'])
  R = ec_ref.named(name)
  ec = _named_lib(d['curve'])
  n, p = R.n, R.p
  conv = _conv(d.get('mpz', True))
  mat = Material(d['m'], 'c11named')
  pairs = _named_pairs(R, d)
  deep = bool(d.get('deep'))
  A = [_kg(R, ka, deep) for ka, _ in pairs]
  B = [_kg(R, kb) for _, kb in pairs]
  S = [R.add(a, b) for a, b in zip(A, B)]
  D = [R.sub(a, b) for a, b in zip(A, B)]
  D2 = [R.add(a, a) for a in A]
  for (ka, kb), s_, d_, d2 in zip(pairs, S, D, D2):   # the two oracles must agree
    assert s_ == _kg(R, ka + kb) and d_ == _kg(R, ka - kb) and d2 == _kg(R, 2 * ka)
  la = [L(a, conv) for a in A]
  lb = [L(b, conv) for b in B]
  kinds = set()
  for idx, (ka, kb) in enumerate(pairs):
    kinds.add(_kind(ka, kb, n))
    info = dict(curve=name, ka=ka, kb=kb)
    expect(N(libcall(ec.Add, la[idx], lb[idx]), p, 'Add'), S[idx], 'Add', **info)
    expect(N(libcall(ec.Subtract, la[idx], lb[idx]), p, 'Subtract'), D[idx], 'Subtract', **info)
    expect(N(libcall(ec.Double, la[idx]), p, 'Double'), D2[idx], 'Double', **info)
    expect(N(libcall(ec.Negate, la[idx]), p, 'Negate'), R.neg(A[idx]), 'Negate', **info)
    l1, l2 = _lam(mat, p), _lam(mat, p)
    j1, j2 = LJ(rx.jac_rep(A[idx], l1, p), conv), LJ(rx.jac_rep(B[idx], l2, p), conv)
    r = libcall(ec.AddJacobian, j1, j2)
    expect(NJ(r, p, 'AddJacobian'), S[idx], 'AddJacobian', lam=[l1, l2], **info)
    expect(N(libcall(ec.JacobianToAffine, r), p, 'JacobianToAffine'), S[idx],
           'JacobianToAffine(AddJacobian)', lam=[l1, l2], **info)
    expect(NJ(libcall(ec.DoubleJacobian, j1), p, 'DoubleJacobian'), D2[idx], 'DoubleJacobian',
           lam=[l1], **info)
  expect_list(libcall(ec.BatchAddList, list(la), list(lb)), S, p, 'BatchAddList', curve=name,
              pairs=pairs)
  expect_list(libcall(ec.BatchDouble, list(la)), D2, p, 'BatchDouble', curve=name)
  kinds2 = set()
  if pairs:
    k0 = pairs[d['fixed'] % len(pairs)][0]
    P0 = _kg(R, k0)
    lp = L(P0, conv)
    sums = [R.add(P0, b) for b in B]
    diffs = [R.sub(P0, b) for b in B]
    kinds2 = {_kind(k0, kb, n) for _, kb in pairs}
    expect_list(libcall(ec.BatchAdd, lp, list(lb)), sums, p, 'BatchAdd', curve=name, k0=k0)
    expect_list(libcall(ec.BatchAddX, lp, list(lb)), [_x(s) for s in sums], p, 'BatchAddX',
                norm=NX, curve=name, k0=k0)
    r = libcall(ec.BatchAddSubtractX, lp, list(lb))
    if not isinstance(r, tuple) or len(r) != 2:
      raise Violation('shape:pair-of-lists', fn='BatchAddSubtractX', got=repr(r)[:120])
    expect_list(r[0], [_x(s) for s in sums], p, 'BatchAddSubtractX.sums', norm=NX, curve=name, k0=k0)
    expect_list(r[1], [_x(s) for s in diffs], p, 'BatchAddSubtractX.diffs', norm=NX, curve=name,
                k0=k0)
  reps = [LJ(rx.jac_rep(a, _lam(mat, p), p), conv) for a in A]
  expect_list(libcall(ec.BatchJacobianToAffine, list(reps)), A, p, 'BatchJacobianToAffine', curve=name)
  expect_list(libcall(ec.BatchJacobianToX, list(reps)), [_x(a) for a in A], p, 'BatchJacobianToX',
              norm=NX, curve=name)
  vals = [None if v is None else Material(d['m'] + v, 'c11inv').below(p) if v > 1 else v
          for v in d['inv']]
  _check_binv(ec, vals, p, conv)
  cls = ['named:%s' % name, 'named-affine/batch',
         'list-kinds=%d' % len(kinds), 'batchadd-kinds=%d' % len(kinds2)]
  cls += ['has-' + k for k in sorted(kinds | kinds2)]
  return {'nt': len(kinds) >= 2 or len(kinds2) >= 2 or (len(pairs) == 1 and 'generic' not in kinds),
          'cls': cls}


def strat_named_affine(tier):
  sc = st_scalar()
  second = st.one_of(
      sc, sc,
      st.tuples(st.just('same'), st.integers(0, 1)).map(list),
      st.tuples(st.just('opp'), st.integers(0, 1)).map(list),
      st.tuples(st.just('near'), st.sampled_from([1, -1, 2, -2]), st.integers(-2, 2)).map(list),
      st.just(['raw', 0]))
  edge_first = st.sampled_from([['raw', 0], ['raw', 1], ['raw', -1], ['raw', 2], ['n', 1, -1],
                                ['n', 1, 0], ['n', 1, 1], ['half', 0]])
  pair = st.tuples(st.one_of(sc, edge_first), second).map(list)
  return st.fixed_dictionaries({
      'curve': st.sampled_from(NAMED_LIST),
      'pairs': st.one_of(st.lists(pair, min_size=0, max_size=3), st.lists(pair, min_size=2, max_size=10)),
      'fixed': st.integers(0, 9),
      'inv': st.lists(st.one_of(st.none(), st.integers(0, 40)), max_size=10),
      'm': material, 'mpz': st.booleans(),
      'deep': st.integers(0, 15).map(lambda v: v == 0),
  })


def run_named_mul(d):
  name = _ref_name(d['curve'])
  R = ec_ref.named(name)
  ec = _named_lib(d['curve'])
  n, p, nb = R.n, R.p, R.n.bit_length()
  conv = _conv(d.get('mpz', True))
  kp = scalar(d['point'], n, nb)
  P = _kg(R, kp, bool(d.get('deep')))
  lp = L(P, conv)
  cls = ['named:%s' % name, 'named-multiply']
  nt = P is None
  for spec in d['ks']:
    k = scalar(spec, n, nb)
    w = _kg(R, kp * k)
    if d.get('deep'):
      assert R.mul(P, k) == w, 'the two oracles disagree'
    expect(N(libcall(ec.Multiply, lp, conv(k)), p, 'Multiply'), w, 'Multiply', curve=name, kp=kp, k=k)
    expect(N(libcall(ec.MultiplyAffine, lp, conv(k)), p, 'MultiplyAffine'), w, 'MultiplyAffine',
           curve=name, kp=kp, k=k)
    c_ = _scalar_cls(k, n)
    nt = nt or bool(c_)
    cls += c_
  cnt = d['count']
  if cnt:
    expect_list(libcall(ec.PointSequence, lp, cnt), [_kg(R, kp * t) for t in range(cnt)], p,
                'PointSequence', curve=name, kp=kp, count=cnt)
    _check_table(libcall(ec.PointTable, lp, cnt), R, P, cnt, p, curve=name, kp=kp)
    cls.append('named-sequence/table')
    if cnt > 40:
      nt = True
      cls.append('named-long-sequence')
  return {'nt': nt, 'cls': sorted(set(cls))}


def strat_named_mul(tier):
  sc = st_scalar()
  return st.fixed_dictionaries({
      'curve': st.sampled_from(NAMED_LIST),
      'point': st.one_of(sc, st.sampled_from([['raw', 1], ['raw', 0], ['raw', -1], ['raw', 2],
                                              ['n', 1, -1], ['half', 0]])),
      'ks': st.lists(sc, min_size=1, max_size=4),
      'count': st.one_of(st.just(0), st.integers(1, 40)),
      'mpz': st.booleans(),
      'deep': st.integers(0, 15).map(lambda v: v == 0),
  })


def enum_named_long_sequences(tier):
  """PointSequence / PointTable lengths around powers of two (block boundaries of any batched conversion)."""
  counts = set()
  for k in range(5, 12 if tier == 'quick' else 14):
    counts.update((2**k - 1, 2**k, 2**k + 1))
  counts.update((1000, 1536, 2049) if tier == 'quick' else (1000, 1536, 3073, 5000, 3 * 1024 + 1))
  curves = NAMED_LIST[:2] if tier == 'quick' else NAMED_LIST
  for c in curves:
    for i, cnt in enumerate(sorted(counts)):
      yield {'curve': c, 'point': [['raw', 1], ['rand', cnt], ['raw', -1]][i % 3], 'ks': [], 'count': cnt,
             'mpz': bool(i % 2), 'deep': False}


def run_named_bmg(d):
  name = _ref_name(d['curve'])
  R = ec_ref.named(name)
  n, p, nb = R.n, R.p, R.n.bit_length()
  conv = _conv(d.get('mpz', True))
  cls = ['named:%s' % name, 'named-batch-multiply-g']
  nt = False
  ec = _named_lib(d['curve'])
  for call in d['calls']:      # consecutive calls on one object share its cache
    ks = [scalar(s, n, nb) for s in call]
    want = [_kg(R, k, bool(d.get('deep'))) for k in ks]
    expect_list(libcall(ec.BatchMultiplyG, [conv(k) for k in ks]), want, p, 'BatchMultiplyG',
                curve=name, scalars=ks)
    for k in ks:
      c_ = _scalar_cls(k, n)
      nt = nt or bool(c_)
      cls += c_
    if any(k.bit_length() >= nb and k > 0 for k in ks):
      cls.append('scalar-top-bit-set')
  return {'nt': nt, 'cls': sorted(set(cls))}


def strat_named_bmg(tier):
  sc = st_scalar()
  return st.fixed_dictionaries({
      'curve': st.sampled_from(NAMED_LIST),
      'calls': st.lists(st.lists(sc, min_size=0, max_size=5), min_size=1, max_size=2),
      'mpz': st.booleans(),
      'deep': st.integers(0, 31).map(lambda v: v == 0),
  })


def enum_named_edges(tier):
  """Every named curve with the fixed edge operands and scalars of the property statement."""
  edge_pts = [['raw', 0], ['raw', 1], ['raw', -1], ['raw', 2], ['n', 1, -1]]
  for cname in NAMED_LIST:
    c = ec_util.CURVE_FACTORY[NAMED[cname]]
    nb = int(c.n).bit_length()
    steps, teeth = rx.comb(nb)
    pairs = [[a, b] for a in edge_pts for b in edge_pts]
    yield ('affine', {'curve': cname, 'pairs': pairs, 'fixed': 1, 'inv': [None, 0, 1, 5, None, 7, 0],
                      'm': 11, 'mpz': True, 'deep': True})
    yield ('affine', {'curve': cname, 'pairs': pairs[::-1], 'fixed': 3, 'inv': [], 'm': 12,
                      'mpz': False, 'deep': False})
    ks = [['raw', 0], ['raw', 1], ['raw', -1], ['n', 1, -1], ['n', 1, 0], ['n', 1, 1], ['n', -1, 0],
          ['n', 2, 0], ['n', 2, 1], ['ones', 0], ['ones', 1], ['half', 0]]
    pw = [['pow8', j, dd] for j in range(0, nb // 8 + 2) for dd in (-1, 1)]
    tb = [['tooth', j, i, dd] for j in range(len(teeth) + 1) for i in (0, 1, steps - 1)
          for dd in (-1, 0, 1)]
    mk = [['mask', i] for i in (0, 1, steps // 2, steps - 1)]
    allk = ks + pw + tb + mk
    allk = allk + [['neg', s] for s in allk[::3]]
    yield ('bmg', {'curve': cname, 'calls': [allk, allk[::-5]], 'mpz': True, 'deep': False})
    for pt in edge_pts + [['rand', 7]]:
      for off in range(0, len(allk), 12):
        yield ('mul', {'curve': cname, 'point': pt, 'ks': allk[off:off + 12],
                       'count': 12 if off == 0 else 0, 'mpz': off % 24 == 0, 'deep': False})


def run_named_edge(d):
  kind, desc = d
  return {'affine': run_named_affine, 'mul': run_named_mul, 'bmg': run_named_bmg}[kind](desc)


# ---------------------------------------------------------------- curve constants

def run_constants(d):
  if d.get('registry'):
    # the registry offers exactly the nine prime-field curves OpenSSL's parameters were taken for
    have = sorted(_ref_name(k) or k for k in NAMED_LIST)
    if have != sorted(ec_ref.OPENSSL_NAMES):
      raise Violation('constants:registry', have=have, expected=sorted(ec_ref.OPENSSL_NAMES))
    return {'nt': True, 'cls': ['constants:registry']}
  cname = d['curve']
  name = _ref_name(cname)
  c = ec_util.CURVE_FACTORY[NAMED[cname]]
  q = ec_ref.named_params()[name]
  p, a, b, n = int(c.mod), int(c.a), int(c.b), int(c.n)
  gx, gy = int(c.g[0]), int(c.g[1])
  for field, got, want in (('p', p, q['p']), ('a', a % q['p'], q['a']), ('b', b, q['b']),
                           ('gx', gx, q['gx']), ('gy', gy, q['gy']), ('n', n, q['n']),
                           ('h', int(c.h), q['h'])):
    if got != want:
      raise Violation('constants:differs-from-openssl', curve=name, field=field, got=got, expected=want)
  if not rx.is_prime(p) or not bool(gmpy.is_prime(p, 64)):
    raise Violation('constants:field-not-prime', curve=name)
  if not rx.is_prime(n) or not bool(gmpy.is_prime(n, 64)):
    raise Violation('constants:order-not-prime', curve=name)
  if (4 * a * a * a + 27 * b * b) % p == 0:
    raise Violation('constants:singular', curve=name)
  if not (0 <= gx < p and 0 <= gy < p) or (gy * gy - (gx * gx * gx + a * gx + b)) % p:
    raise Violation('constants:generator-not-on-curve', curve=name)
  R = ec_ref.RefCurve(p, a, b, gx, gy, n)      # built from the library's own constants
  if R.mul(R.g, n) is not None or R.mul(R.g, 1) is None:
    raise Violation('constants:generator-order', curve=name)
  if R.mul(R.g, n - 1) != R.neg(R.g):
    raise Violation('constants:generator-order', curve=name, what='(n-1)G != -G')
  if (p + 1 - n) ** 2 > 4 * p:
    raise Violation('constants:hasse-bound', curve=name)
  if not libcall(c.OnCurve, c.g):
    raise Violation('constants:OnCurve(G)-false', curve=name)
  return {'nt': True, 'cls': ['constants:%s' % name]}


def enum_constants(tier):
  yield {'registry': True}
  for cname in NAMED_LIST:
    yield {'curve': cname}


# ---------------------------------------------------------------- arms

# ------------------------------------------------------------------ curves with a cofactor (constructor parameter h)

def _cofactor_curves(maxp):
  """Toy curves whose group order N = h * n with n prime and h > 1, generator of order n (brute force)."""
  out = []
  for p in (p for p in range(11, maxp) if all(p % q for q in range(2, int(p ** 0.5) + 1))):
    for b in range(1, p):
      a = 1
      if (4 * a ** 3 + 27 * b * b) % p == 0:
        continue
      pts = ec_ref.toy_points(p, a, b)
      N = len(pts) + 1
      for n in range(N // 2, 6, -1):
        if N % n == 0 and all(n % q for q in range(2, int(n ** 0.5) + 1)) and N // n > 1 and (N // n) % n:
          R = ec_ref.RefCurve(p, a, b)
          g = next((R.mul(P, N // n) for P in pts if R.mul(P, N // n) is not None), None)
          if g is not None:
            out.append({'p': p, 'a': a, 'b': b, 'gx': g[0], 'gy': g[1], 'n': n, 'h': N // n})
          break
      if len(out) and out[-1]['p'] == p:
        break
    if len(out) >= 6:
      break
  return out


def run_cofactor_multiply(desc):
  """Multiply / MultiplyAffine on EVERY point of a curve with cofactor h > 1 (points outside the subgroup of
  the generator included) for every scalar in [-2N, 2N]: the textbook multiple."""
  c = desc['c']
  R = ec_ref.RefCurve(c['p'], c['a'], c['b'])
  curve = libcall(ec_util.EcCurve, 'toy-h', c['a'], c['b'], c['p'], c['gx'], c['gy'], c['n'], c['h'])
  pts = ec_ref.toy_points(c['p'], c['a'], c['b'])
  N = c['n'] * c['h']
  outside = 0
  for P in pts[desc['lo']::desc['step']]:
    in_sub = R.mul(P, c['n']) is None
    outside += not in_sub
    if P[1] == 0:
      continue   # 2-torsion: the affine doubling formula is not defined (DoubleJacobian handles it)
    for k in range(-2 * N, 2 * N + 1):
      want = R.mul(P, k)
      got = libcall(curve.Multiply, (gmpy.mpz(P[0]), gmpy.mpz(P[1])), k)
      g = None if got == ec_util.INFINITY else (int(got[0]) % c['p'], int(got[1]) % c['p'])
      if g != want:
        raise Violation('grouplaw:Multiply-on-cofactor-curve', curve=c, point=list(P), k=k,
                        got=None if g is None else list(g), expected=None if want is None else list(want),
                        point_in_subgroup=in_sub)
    valid = libcall(curve.IsValidPublicKey, (gmpy.mpz(P[0]), gmpy.mpz(P[1])))
    if bool(valid) != in_sub:
      raise Violation('grouplaw:subgroup-membership', curve=c, point=list(P), got=bool(valid), expected=in_sub)
  return {'nt': outside > 0, 'cls': ['cofactor h=%d' % c['h']] + (['cofactor: points outside the subgroup'] if outside else [])}


def enum_cofactor(tier):
  for c in _cofactor_curves(60 if tier == 'quick' else 200):
    for lo in range(4):
      yield {'c': c, 'lo': lo, 'step': 4}


ARMS = [
    Arm('cofactor_multiply', run_cofactor_multiply, enumerate=enum_cofactor, exhaustive=True, budget=(200, 1500)),
    Arm('toy_pairs', run_toy, enumerate=enum_toy_pairs, exhaustive=True, weight=3,
        doc='all ordered pairs of every toy group through the affine/Jacobian/batched additions; '
            'all elements through Negate/Double/BatchDouble'),
    Arm('toy_jacobian', run_toy, enumerate=enum_toy_jac, exhaustive=True,
        doc='every Jacobian representative of every element incl. every (l^2,l^3,0)'),
    Arm('toy_multiply', run_toy, enumerate=enum_toy_mul, exhaustive=True, weight=2,
        doc='every scalar in [-2n,2n] times every element: Multiply, MultiplyAffine'),
    Arm('toy_batch_multiply_g', run_toy, enumerate=enum_toy_bmg, exhaustive=True,
        doc='BatchMultiplyG with every generator and every scalar in [-2n,2n]'),
    Arm('toy_sequence', run_toy, enumerate=enum_toy_seq, exhaustive=True, weight=4,
        doc='PointSequence/PointTable for every length 1..2n+2'),
    Arm('toy_sequence_empty', run_toy, enumerate=enum_toy_seq0, exhaustive=True,
        doc='PointSequence/PointTable of length 0'),
    Arm('toy_batch_inverse', run_toy, enumerate=enum_toy_binv, exhaustive=True,
        doc='BatchInverse on every short list over GF(p) u {None}'),
    Arm('toy_unreduced', run_toy, enumerate=enum_toy_unred, exhaustive=True,
        doc='affine operands written with unreduced coordinates (x+kp, y+k\'p)'),
    Arm('toy_mix', run_toy_mix, strategy=strat_toy_mix, quick=6000, thorough=100000,
        doc='batched operations on random-length lists mixing all special cases'),
    Arm('named_edges', run_named_edge, enumerate=enum_named_edges, exhaustive=True, weight=5,
        doc='the fixed edge operands/scalars of the statement on all nine curves'),
    Arm('named_affine', run_named_affine, strategy=strat_named_affine, quick=1600, thorough=30000,
        weight=5),
    Arm('named_long_sequences', run_named_mul, enumerate=enum_named_long_sequences, exhaustive=True, weight=4,
        doc='PointSequence/PointTable of 2^k-1, 2^k, 2^k+1 points (k = 5..11, thorough ..13) on named curves'),
    Arm('named_multiply', run_named_mul, strategy=strat_named_mul, quick=1200, thorough=20000,
        weight=5),
    Arm('named_batch_multiply_g', run_named_bmg, strategy=strat_named_bmg, quick=800,
        thorough=12000, weight=5),
    Arm('constants', run_constants, enumerate=enum_constants, exhaustive=True, weight=6,
        doc='CURVE_FACTORY constants vs OpenSSL; primality; discriminant; G; order; Hasse'),
]

# The machine is shared: budgets are generous so that a loaded host leaves nothing unexplored
# (an exhausted budget is never a violation, but the exhaustive arms should really be exhaustive).
for _a in ARMS:
  _a.budget = (900, 5400)


def zero_length_predicate(arm_name, desc, violation):
  """Matches exactly the zero-length PointSequence/PointTable defect (see the report for C11).

  Not registered: KNOWN stays empty until the coordinator either fixes /repo or lists the defect in
  known_findings.json under an id (then: KNOWN = {'<id>': zero_length_predicate}).
  """
  return (arm_name == 'toy_sequence_empty' and desc.get('counts') == [0] and violation.clause in (
      'raises:IndexError@ec_util.py:PointSequence', 'raises:ZeroDivisionError@ec_util.py:PointTable'))


KNOWN = {}
