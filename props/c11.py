"""C11 - elliptic-curve arithmetic is the group law on every input."""

import gmpy2 as gmpy
from hypothesis import strategies as st

from gens.common import Material, material
from harness.core import Arm, Violation, libcall
from refs import ec_ref
from refs import ec_ref_extra as rx

from paranoid_crypto import paranoid_pb2
from paranoid_crypto.lib import ec_util

ID = 'C11'
TITLE = 'Elliptic-curve arithmetic is the group law on every input'
TECHNIQUE = ('exhaustive enumeration of small prime-order groups against their discrete-log '
             'table; Hypothesis-drawn operands on the named curves against textbook affine '
             'arithmetic and OpenSSL')
RULE = (
    'Toy arms: for prime-order curves over small fields (three ways of writing a: the literal '
    '-3, p-3, generic incl. a=0) every ordered pair of group elements incl. infinity goes through '
    'Add/Subtract/AddJacobian/BatchAdd/BatchAddX/BatchAddSubtractX/BatchAddList (one row or one '
    'shift of the group per descriptor, so each batched list mixes infinity, equal, opposite and '
    'generic operands), every element through Negate/Double/DoubleJacobian/BatchDouble, every '
    'scalar in [-2n,2n] through Multiply/MultiplyAffine/BatchMultiplyG, every Jacobian '
    'representative (l^2x,l^3y,l) and every (l^2,l^3,0), PointSequence/PointTable for every '
    'length 0..2n+2, BatchInverse on all short lists over GF(p) u {None}. Expected values come '
    'from the discrete-log table of the group (e_i + e_j = e_(i+j mod n)) built by the textbook '
    'reference and validated (n distinct points, nG = infinity). Named-curve arms: Hypothesis '
    'draws symbolic scalars (0, +-1, n-1, n, n+1, 2n, 2^(8j)+-1, comb-tooth boundaries, masks, '
    'random); points are k*G computed by OpenSSL; results are compared with textbook affine '
    'arithmetic and with OpenSSL on the scalar sum/product. A case is non-trivial when its '
    'operands contain a special case (infinity, equal, opposite, scalar 0/negative/multiple of n '
    'or >= n) - batched cases when they mix at least two kinds. Points are compared as points '
    '(coordinates modulo p).')
ASSUMPTIONS = [
    'refs/ec_ref.py textbook affine arithmetic (Python int, pow(x,-1,p)) is correct; for toy curves it is '
    'only used to walk G, 2G, ... and the walk is validated to have exactly n distinct elements',
    'OpenSSL (via cryptography) computes k*G correctly on the nine named curves; its explicit curve '
    'parameters (refs/curves_openssl.json) are the standard ones',
    'affine operands are points on the curve (never off-curve points); Jacobian infinity is given with the '
    'integer 0 as last coordinate, as ec_util documents',
]

INF = ec_util.INFINITY


# ---------------------------------------------------------------- conversions

def _conv(flag):
  return gmpy.mpz if flag else int


def L(P, conv=int, kx=0, ky=0, p=0):
  """Reference point -> library point (optionally with unreduced coordinates)."""
  if P is None:
    return INF
  return (conv(P[0] + kx * p), conv(P[1] + ky * p))


def LJ(J, conv=int):
  return (conv(J[0]), conv(J[1]), conv(J[2]))


def _isint(v):
  return isinstance(v, int) and not isinstance(v, bool) or isinstance(v, type(gmpy.mpz(0)))


def N(res, p, what):
  """Library affine point -> reference point (coordinates reduced mod p)."""
  if not isinstance(res, tuple) or len(res) != 2:
    raise Violation('shape:affine-point', fn=what, got=repr(res)[:120])
  x, y = res
  if x is None and y is None:
    return None
  if not _isint(x) or not _isint(y):
    raise Violation('shape:affine-point', fn=what, got=repr(res)[:120])
  return (int(x) % p, int(y) % p)


def NX(x, p, what):
  if x is None:
    return None
  if not _isint(x):
    raise Violation('shape:x-coordinate', fn=what, got=repr(x)[:120])
  return int(x) % p


def NJ(res, p, what):
  """Library Jacobian point -> reference affine point."""
  if not isinstance(res, tuple) or len(res) != 3 or not all(_isint(v) for v in res):
    raise Violation('shape:jacobian-point', fn=what, got=repr(res)[:120])
  a = rx.jac_to_affine(res, p)
  if a == 'zero':
    raise Violation('jacobian:all-zero-triple', fn=what)
  return a


def _x(P):
  return None if P is None else P[0]


def expect(got, want, what, **kw):
  if got != want:
    raise Violation('grouplaw:' + what, got=got, expected=want, **kw)


def expect_list(res, want, p, what, norm=N, **kw):
  if not isinstance(res, list) or len(res) != len(want):
    raise Violation('shape:list', fn=what, got=repr(res)[:200], expected_len=len(want))
  for idx, (r, w) in enumerate(zip(res, want)):
    g = norm(r, p, what)
    if g != w:
      raise Violation('grouplaw:' + what, index=idx, got=g, expected=w, length=len(want), **kw)


# ---------------------------------------------------------------- toy curves

_TOY = {}


def _toy(c):
  key = (c['p'], c['a'], c['b'], c['gx'], c['gy'], c['n'])
  if key not in _TOY:
    R, elems, dl = ec_ref.toy_group(c)
    assert all(R.on_curve(e) for e in elems)
    assert R.mul(R.g, c['n']) is None
    _TOY[key] = (R, elems, dl)
  return _TOY[key]


def _lib_curve(c, form, g=None):
  """A fresh library curve object (fresh caches) for the toy curve c."""
  p = c['p']
  if form == 'lit':
    assert c['a'] == p - 3
    a = -3
  elif form == 'pm3':
    assert c['a'] == p - 3
    a = p - 3
  else:
    a = c['a']
  gx, gy = (c['gx'], c['gy']) if g is None else g
  return ec_util.EcCurve('toy%d' % p, a, c['b'], p, gx, gy, c['n'])


_TOY_LISTS = {}


def toy_curves(tier):
  """[(curve dict, form)], deterministic."""
  if tier in _TOY_LISTS:
    return _TOY_LISTS[tier]
  if tier == 'quick':
    m3 = ec_ref.find_toy_curves([11, 101, 263], 1, True)
    gen = ec_ref.find_toy_curves([13, 127, 257], 1)
    a0 = rx.find_toy_curves_with_a([37, 139], lambda p: 0)
  else:
    pr = rx.small_primes(7, 2000)
    m3 = ec_ref.find_toy_curves(pr[0:40:3] + pr[40::19], 1, True)
    gen = ec_ref.find_toy_curves(pr[1:40:3] + pr[45::19], 1) + \
        ec_ref.find_toy_curves(pr[2:40:6], 1, start=977)
    a0 = rx.find_toy_curves_with_a([q for q in pr[0::4] if q % 3 == 1][:14], lambda p: 0)
  out = []
  for c in m3:
    out.append((c, 'lit'))
    out.append((c, 'pm3'))
  for c in gen + a0:
    out.append((c, 'gen'))
  _TOY_LISTS[tier] = out
  return out


def _lam(mat, p):
  """A Jacobian scaling factor: 1, p-1 or random non-zero."""
  r = mat.below(8)
  if r == 0:
    return 1
  if r == 1:
    return p - 1
  return 1 + mat.below(p - 1)


def _base_cls(c, form):
  return ['a-form=%s' % form, 'order-bits=%d' % c['n'].bit_length()]


# ---- op 'pair': one fixed element e_i against every element e_j

def _toy_pair(d):
  c, form, i = d['c'], d['f'], d['i']
  R, E, _ = _toy(c)
  n, p = c['n'], c['p']
  conv = _conv(d.get('mpz', True))
  ec = _lib_curve(c, form)
  mat = Material(i * 1000003 + p, 'c11pair')
  P = E[i]
  lp = L(P, conv)
  orders = [list(range(n)), mat.shuffle(range(n))]
  for j in range(n):
    Q = E[j]
    lq = L(Q, conv)
    S, D = E[(i + j) % n], E[(i - j) % n]
    expect(N(libcall(ec.Add, lp, lq), p, 'Add'), S, 'Add', i=i, j=j)
    expect(N(libcall(ec.Subtract, lp, lq), p, 'Subtract'), D, 'Subtract', i=i, j=j)
    l1, l2 = _lam(mat, p), _lam(mat, p)
    j1, j2 = rx.jac_rep(P, l1, p), rx.jac_rep(Q, l2, p)
    r = libcall(ec.AddJacobian, LJ(j1, conv), LJ(j2, conv))
    expect(NJ(r, p, 'AddJacobian'), S, 'AddJacobian', i=i, j=j, lam=[l1, l2])
    # the library's own conversion of its own result
    expect(N(libcall(ec.JacobianToAffine, r), p, 'JacobianToAffine'), S,
           'JacobianToAffine(AddJacobian)', i=i, j=j, lam=[l1, l2])
  for order in orders:
    qs = [L(E[j], conv) for j in order]
    sums = [E[(i + j) % n] for j in order]
    diffs = [E[(i - j) % n] for j in order]
    expect_list(libcall(ec.BatchAdd, lp, list(qs)), sums, p, 'BatchAdd', i=i)
    expect_list(libcall(ec.BatchAddX, lp, list(qs)), [_x(s) for s in sums], p, 'BatchAddX',
                norm=NX, i=i)
    r = libcall(ec.BatchAddSubtractX, lp, list(qs))
    if not isinstance(r, tuple) or len(r) != 2:
      raise Violation('shape:pair-of-lists', fn='BatchAddSubtractX', got=repr(r)[:120])
    expect_list(r[0], [_x(s) for s in sums], p, 'BatchAddSubtractX.sums', norm=NX, i=i)
    expect_list(r[1], [_x(s) for s in diffs], p, 'BatchAddSubtractX.diffs', norm=NX, i=i)
    expect_list(libcall(ec.BatchAddList, [lp] * n, list(qs)), sums, p, 'BatchAddList', i=i)
  return {'nt': True,
          'cls': ['pair-row(all q for one p)'] + _base_cls(c, form) +
                 (['p=infinity'] if i == 0 else [])}


# ---- op 'shift': pairs (e_j, e_(j+i)) for all j in one BatchAddList call

def _toy_shift(d):
  c, form, i = d['c'], d['f'], d['i']
  _, E, _ = _toy(c)
  n, p = c['n'], c['p']
  conv = _conv(d.get('mpz', True))
  ec = _lib_curve(c, form)
  mat = Material(i * 1000003 + p, 'c11shift')
  for order in (list(range(n)), mat.shuffle(range(n))):
    ps = [L(E[j], conv) for j in order]
    qs = [L(E[(j + i) % n], conv) for j in order]
    want = [E[(2 * j + i) % n] for j in order]
    expect_list(libcall(ec.BatchAddList, ps, qs), want, p, 'BatchAddList', shift=i)
    # prefixes: the special cases sit at different distances from the end of the list
    for ln in (0, 1, 2, n // 2):
      expect_list(libcall(ec.BatchAddList, ps[:ln], qs[:ln]), want[:ln], p, 'BatchAddList',
                  shift=i, prefix=ln)
  return {'nt': True, 'cls': ['shift-row(BatchAddList over the whole group)'] + _base_cls(c, form)}


# ---- op 'unary': every element through Negate / Double / DoubleJacobian / BatchDouble

def _toy_unary(d):
  c, form = d['c'], d['f']
  _, E, _ = _toy(c)
  n, p = c['n'], c['p']
  conv = _conv(d.get('mpz', True))
  ec = _lib_curve(c, form)
  mat = Material(p, 'c11unary')
  for i in range(n):
    lp = L(E[i], conv)
    expect(N(libcall(ec.Negate, lp), p, 'Negate'), E[-i % n], 'Negate', i=i)
    expect(N(libcall(ec.Double, lp), p, 'Double'), E[2 * i % n], 'Double', i=i)
    j = libcall(ec.AffineToJacobian, lp)
    expect(NJ(j, p, 'AffineToJacobian'), E[i], 'AffineToJacobian', i=i)
    expect(N(libcall(ec.JacobianToAffine, j), p, 'JacobianToAffine'), E[i], 'JacobianToAffine', i=i)
  for order in (list(range(n)), mat.shuffle(range(n)), [], [0], [0, 0], [1], [0, 1, 0]):
    ps = [L(E[j], conv) for j in order]
    expect_list(libcall(ec.BatchDouble, ps), [E[2 * j % n] for j in order], p, 'BatchDouble')
  return {'nt': True, 'cls': ['unary(all elements)'] + _base_cls(c, form)}


# ---- op 'jac': every Jacobian representative of one element

def _toy_jac(d):
  c, form, i = d['c'], d['f'], d['i']
  _, E, _ = _toy(c)
  n, p = c['n'], c['p']
  conv = _conv(d.get('mpz', True))
  ec = _lib_curve(c, form)
  mat = Material(i * 1000003 + p, 'c11jac')
  P = E[i]
  reps = []
  unreduced = bool(d.get('unred'))
  for lam in range(1, p):
    if unreduced:
      # unreduced coordinates: x, y any representative; z any non-zero representative
      kx, ky, kz = mat.between(-2, 2), mat.between(-2, 2), mat.between(-2, 2)
    else:
      kx = ky = kz = 0
    rep = LJ(rx.jac_rep(P, lam, p, kx, ky, kz), conv)
    reps.append(rep)
    expect(NJ(libcall(ec.DoubleJacobian, rep), p, 'DoubleJacobian'), E[2 * i % n],
           'DoubleJacobian', i=i, lam=lam, rep=rep)
    expect(N(libcall(ec.JacobianToAffine, rep), p, 'JacobianToAffine'), P,
           'JacobianToAffine', i=i, lam=lam, rep=rep)
    # a second representative of the same point, of the opposite point, of another point
    l2 = 1 + mat.below(p - 1)
    same = LJ(rx.jac_rep(P, l2, p), conv)
    opp = LJ(rx.jac_rep(E[-i % n], l2, p), conv)
    k = mat.below(n)
    other = LJ(rx.jac_rep(E[k], l2, p), conv)
    for a, b, w, tag in ((rep, same, E[2 * i % n], 'equal'), (same, rep, E[2 * i % n], 'equal'),
                         (rep, opp, None, 'opposite'), (opp, rep, None, 'opposite'),
                         (rep, other, E[(i + k) % n], 'other'),
                         (other, rep, E[(i + k) % n], 'other')):
      r = libcall(ec.AddJacobian, a, b)
      expect(NJ(r, p, 'AddJacobian'), w, 'AddJacobian(%s)' % tag, i=i, k=k, a=a, b=b)
      expect(N(libcall(ec.JacobianToAffine, r), p, 'JacobianToAffine'), w,
             'JacobianToAffine(AddJacobian)', i=i, k=k, a=a, b=b)
  want = [P] * len(reps)
  expect_list(libcall(ec.BatchJacobianToAffine, list(reps)), want, p, 'BatchJacobianToAffine', i=i)
  expect_list(libcall(ec.BatchJacobianToX, list(reps)), [_x(P)] * len(reps), p,
              'BatchJacobianToX', norm=NX, i=i)
  # a list mixing representatives of this element, of infinity and of other elements
  idx = [mat.choice([i, 0, mat.below(n)]) for _ in range(24)]
  mixed = [LJ(rx.jac_rep(E[k], 1 + mat.below(p - 1), p), conv) for k in idx]
  for ln in (0, 1, 2, 24):
    expect_list(libcall(ec.BatchJacobianToAffine, mixed[:ln]), [E[k] for k in idx[:ln]], p,
                'BatchJacobianToAffine', idx=idx[:ln])
    expect_list(libcall(ec.BatchJacobianToX, mixed[:ln]), [_x(E[k]) for k in idx[:ln]], p,
                'BatchJacobianToX', norm=NX, idx=idx[:ln])
  cls = ['jacobian(all representatives of one element)'] + _base_cls(c, form)
  if i == 0:
    cls.append('all (l^2,l^3,0) of infinity')
  if unreduced:
    cls.append('jacobian-unreduced-coordinates')
  return {'nt': True, 'cls': cls}


# ---- op 'mul': one element times scalars

def _toy_mul(d):
  c, form, i = d['c'], d['f'], d['i']
  _, E, _ = _toy(c)
  n, p = c['n'], c['p']
  conv = _conv(d.get('mpz', True))
  ec = _lib_curve(c, form)
  lp = L(E[i], conv)
  lo, hi = d.get('range', [-2 * n, 2 * n])
  for k in range(lo, hi + 1):
    w = E[i * k % n]
    expect(N(libcall(ec.Multiply, lp, conv(k)), p, 'Multiply'), w, 'Multiply', i=i, k=k)
    expect(N(libcall(ec.MultiplyAffine, lp, conv(k)), p, 'MultiplyAffine'), w,
           'MultiplyAffine', i=i, k=k)
  return {'nt': lo <= 0, 'cls': ['multiply(scalars %s)' % ('[-2n,2n]' if 'range' not in d else
                                                          'edge window')] + _base_cls(c, form)}


# ---- op 'bmg': BatchMultiplyG with generator e_g, every scalar in [-2n, 2n]

def _toy_bmg(d):
  c, form, g = d['c'], d['f'], d['i']
  _, E, _ = _toy(c)
  n, p = c['n'], c['p']
  conv = _conv(d.get('mpz', True))
  mat = Material(g * 1000003 + p, 'c11bmg')
  assert g % n
  scal = list(range(-2 * n, 2 * n + 1))
  ec = _lib_curve(c, form, E[g])
  expect_list(libcall(ec.BatchMultiplyG, [conv(k) for k in scal]), [E[g * k % n] for k in scal],
              p, 'BatchMultiplyG', g=g, scalars='-2n..2n')
  # second call on the same object (warm cache), other order, repeated scalars
  sh = mat.shuffle(scal)[:n] + [0, 0, n, -n, 1]
  expect_list(libcall(ec.BatchMultiplyG, [conv(k) for k in sh]), [E[g * k % n] for k in sh],
              p, 'BatchMultiplyG', g=g, scalars=sh[:20], call='second')
  # cold cache, short lists
  for ks in ([], [0], [n], [-1], [2 * n - 1, 1 - 2 * n], [mat.between(-2 * n, 2 * n)]):
    ec = _lib_curve(c, form, E[g])
    expect_list(libcall(ec.BatchMultiplyG, [conv(k) for k in ks]), [E[g * k % n] for k in ks],
                p, 'BatchMultiplyG', g=g, scalars=ks)
  steps, teeth = rx.comb(n.bit_length())
  return {'nt': True, 'cls': ['batch-multiply-g(all scalars)', 'comb-steps=%d' % steps,
                              'comb-teeth=%d' % len(teeth)] + _base_cls(c, form)}


# ---- op 'seq': PointSequence / PointTable

def _check_table(tab, R, base, count, p, **kw):
  if not isinstance(tab, dict):
    raise Violation('shape:dict', fn='PointTable', got=repr(tab)[:120])
  mult = {}
  acc = None
  top = max([count] + [int(v) for v in tab.values() if _isint(v)]) + 1
  xs = []
  for t in range(top):
    xs.append(_x(acc))
    acc = R.add(acc, base)
  for key, v in tab.items():
    if not _isint(v) or v < 0:
      raise Violation('shape:table-value', fn='PointTable', key=repr(key), value=repr(v))
    if key is not None and not _isint(key):
      raise Violation('shape:table-key', fn='PointTable', key=repr(key))
    if NX(key, p, 'PointTable') != xs[int(v)]:
      raise Violation('grouplaw:PointTable.entry', key=repr(key), value=int(v),
                      expected_x=xs[int(v)], count=count, **kw)
    mult[None if key is None else int(key)] = int(v)
  for t in range(count):
    if xs[t] not in mult:
      raise Violation('grouplaw:PointTable.missing', t=t, x=xs[t], count=count, **kw)


def _toy_seq(d):
  c, form, i = d['c'], d['f'], d['i']
  R, E, _ = _toy(c)
  n, p = c['n'], c['p']
  conv = _conv(d.get('mpz', True))
  ec = _lib_curve(c, form)
  lp = L(E[i], conv)
  counts = d['counts']
  if counts == 'all':
    counts = list(range(1, 2 * n + 3))
  for cnt in counts:
    expect_list(libcall(ec.PointSequence, lp, cnt), [E[i * t % n] for t in range(cnt)], p,
                'PointSequence', i=i, count=cnt)
    _check_table(libcall(ec.PointTable, lp, cnt), R, E[i], cnt, p, i=i)
  return {'nt': True, 'cls': ['point-sequence/table'] + _base_cls(c, form) +
                             (['zero-length'] if 0 in counts else []) +
                             (['base=infinity'] if i == 0 else [])}


# ---- op 'binv': BatchInverse over GF(p)

def _check_binv(ec, vals, p, conv):
  arg = [None if v is None else conv(v) for v in vals]
  res = libcall(ec.BatchInverse, arg)
  if not isinstance(res, list) or len(res) != len(vals):
    raise Violation('shape:list', fn='BatchInverse', got=repr(res)[:200], expected_len=len(vals))
  for idx, (v, r) in enumerate(zip(vals, res)):
    if v is None or v == 0:
      if r is not None:
        raise Violation('batchinverse:none-expected', index=idx, values=vals, got=repr(r))
    else:
      if not _isint(r) or int(r) % p != pow(v, -1, p):
        raise Violation('batchinverse:value', index=idx, values=vals, got=repr(r),
                        expected=pow(v, -1, p))


def _toy_binv(d):
  c, form = d['c'], d['f']
  p = c['p']
  conv = _conv(d.get('mpz', True))
  ec = _lib_curve(c, form)
  alphabet = [None] + list(range(p))
  maxlen = d['maxlen']
  cnt = 0
  def rec(prefix):
    nonlocal cnt
    _check_binv(ec, prefix, p, conv)
    cnt += 1
    if len(prefix) < maxlen:
      for v in alphabet:
        rec(prefix + [v])
  rec([])
  mat = Material(p, 'c11binv')
  for _ in range(200):
    ln = mat.between(0, 40)
    vals = [mat.choice([None, 0, 1, p - 1, 1 + mat.below(p - 1), 1 + mat.below(p - 1)])
            for _ in range(ln)]
    _check_binv(ec, vals, p, conv)
  return {'nt': True, 'cls': ['batch-inverse(all lists up to length %d)' % maxlen], 'lists': cnt}


# ---- op 'unred': affine operands with unreduced coordinates (x + kp, y + k'p)

def _toy_unred(d):
  c, form, i = d['c'], d['f'], d['i']
  _, E, _ = _toy(c)
  n, p = c['n'], c['p']
  conv = _conv(d.get('mpz', True))
  ec = _lib_curve(c, form)
  mat = Material(i * 1000003 + p, 'c11unred')
  ks = (-1, 0, 1, 2)
  def U(P):
    return L(P, conv, mat.choice(ks), mat.choice(ks), p)
  P = E[i]
  for j in range(n):
    Q = E[j]
    S, D = E[(i + j) % n], E[(i - j) % n]
    a, b = U(P), U(Q)
    expect(N(libcall(ec.Add, a, b), p, 'Add'), S, 'Add(unreduced)', i=i, j=j, p=a, q=b)
    expect(N(libcall(ec.Subtract, a, b), p, 'Subtract'), D, 'Subtract(unreduced)', i=i, j=j,
           p=a, q=b)
  a = U(P)
  expect(N(libcall(ec.Negate, a), p, 'Negate'), E[-i % n], 'Negate(unreduced)', i=i, p=a)
  expect(N(libcall(ec.Double, a), p, 'Double'), E[2 * i % n], 'Double(unreduced)', i=i, p=a)
  order = mat.shuffle(range(n))
  qs = [U(E[j]) for j in order]
  sums = [E[(i + j) % n] for j in order]
  diffs = [E[(i - j) % n] for j in order]
  a = U(P)
  expect_list(libcall(ec.BatchAdd, a, list(qs)), sums, p, 'BatchAdd(unreduced)', i=i, p=a)
  expect_list(libcall(ec.BatchAddX, a, list(qs)), [_x(s) for s in sums], p, 'BatchAddX(unreduced)',
              norm=NX, i=i, p=a)
  r = libcall(ec.BatchAddSubtractX, a, list(qs))
  expect_list(r[0], [_x(s) for s in sums], p, 'BatchAddSubtractX.sums(unreduced)', norm=NX, i=i)
  expect_list(r[1], [_x(s) for s in diffs], p, 'BatchAddSubtractX.diffs(unreduced)', norm=NX, i=i)
  ps = [U(P) for _ in order]
  expect_list(libcall(ec.BatchAddList, ps, list(qs)), sums, p, 'BatchAddList(unreduced)', i=i)
  expect_list(libcall(ec.BatchDouble, list(qs)), [E[2 * j % n] for j in order], p,
              'BatchDouble(unreduced)')
  for k in (-n - 1, -2, -1, 0, 1, 2, 3, n - 1, n, n + 1):
    a = U(P)
    expect(N(libcall(ec.Multiply, a, k), p, 'Multiply'), E[i * k % n], 'Multiply(unreduced)',
           i=i, k=k, p=a)
    expect(N(libcall(ec.MultiplyAffine, a, k), p, 'MultiplyAffine'), E[i * k % n],
           'MultiplyAffine(unreduced)', i=i, k=k, p=a)
  return {'nt': True, 'cls': ['affine-unreduced-coordinates'] + _base_cls(c, form)}


_TOY_OPS = {'pair': _toy_pair, 'shift': _toy_shift, 'unary': _toy_unary, 'jac': _toy_jac,
            'mul': _toy_mul, 'bmg': _toy_bmg, 'seq': _toy_seq, 'binv': _toy_binv,
            'unred': _toy_unred}


def run_toy(d):
  return _TOY_OPS[d['op']](d)


# ---------------------------------------------------------------- toy enumerations

def _rows(n, full, mat_seed, extra=()):
  """All indices when the curve is small enough, else edges + a deterministic sample."""
  if n <= full:
    return list(range(n))
  mat = Material(mat_seed, 'c11rows')
  s = {0, 1, 2, n - 1, n - 2, (n + 1) // 2, (n - 1) // 2}
  s.update(extra)
  while len(s) < 24:
    s.add(mat.below(n))
  return sorted(s)


def enum_toy_pairs(tier):
  full = 320 if tier == 'quick' else 2100
  for ci, (c, form) in enumerate(toy_curves(tier)):
    n = c['n']
    for i in _rows(n, full, n):
      yield {'op': 'pair', 'c': c, 'f': form, 'i': i, 'mpz': (i + ci) % 3 != 0}
    for i in _rows(n, full, n + 1):
      yield {'op': 'shift', 'c': c, 'f': form, 'i': i, 'mpz': (i + ci) % 3 != 1}
    yield {'op': 'unary', 'c': c, 'f': form, 'mpz': True}
    yield {'op': 'unary', 'c': c, 'f': form, 'mpz': False}


def enum_toy_jac(tier):
  full = 140 if tier == 'quick' else 600
  for ci, (c, form) in enumerate(toy_curves(tier)):
    n = c['n']
    for i in _rows(n, full, n + 2):
      yield {'op': 'jac', 'c': c, 'f': form, 'i': i, 'mpz': (i + ci) % 2 == 0}
    for i in _rows(n, 0, n + 3):
      yield {'op': 'jac', 'c': c, 'f': form, 'i': i, 'mpz': (i + ci) % 2 == 1, 'unred': True}


def enum_toy_mul(tier):
  full = 140 if tier == 'quick' else 520
  for ci, (c, form) in enumerate(toy_curves(tier)):
    n = c['n']
    rows = _rows(n, full, n + 4)
    for i in rows:
      yield {'op': 'mul', 'c': c, 'f': form, 'i': i, 'mpz': (i + ci) % 2 == 0}
    if n > full:
      # every element against the edge scalars
      for i in range(n):
        if i not in rows:
          for lo in (-2 * n, -n - 2, -3, n - 2, 2 * n - 4):
            yield {'op': 'mul', 'c': c, 'f': form, 'i': i, 'mpz': True, 'range': [lo, lo + 5]}


def enum_toy_bmg(tier):
  full = 140 if tier == 'quick' else 520
  for ci, (c, form) in enumerate(toy_curves(tier)):
    n = c['n']
    for g in _rows(n, full, n + 5):
      if g:
        yield {'op': 'bmg', 'c': c, 'f': form, 'i': g, 'mpz': (g + ci) % 2 == 0}


def enum_toy_seq(tier):
  full = 40 if tier == 'quick' else 120
  edge = lambda n: [1, 2, 3, 4, 5, n - 1, n, n + 1, 2 * n, 2 * n + 1, 2 * n + 2]
  for ci, (c, form) in enumerate(toy_curves(tier)):
    n = c['n']
    for i in range(n):
      if n <= full or i in (0, 1, 2, n - 1):
        yield {'op': 'seq', 'c': c, 'f': form, 'i': i, 'counts': 'all', 'mpz': (i + ci) % 2 == 0}
      else:
        yield {'op': 'seq', 'c': c, 'f': form, 'i': i, 'counts': edge(n), 'mpz': (i + ci) % 2 == 0}


def enum_toy_seq0(tier):
  for c, form in toy_curves(tier)[:4]:
    for i in (0, 1):
      yield {'op': 'seq', 'c': c, 'f': form, 'i': i, 'counts': [0], 'mpz': True}


def enum_toy_binv(tier):
  seen = set()
  for c, form in toy_curves(tier):
    p = c['p']
    if p in seen:
      continue
    seen.add(p)
    maxlen = 4 if p <= 13 else 3 if p <= 40 else 2 if p <= (300 if tier == 'quick' else 700) else 1
    yield {'op': 'binv', 'c': c, 'f': form, 'maxlen': maxlen, 'mpz': True}
    yield {'op': 'binv', 'c': c, 'f': form, 'maxlen': min(maxlen, 2), 'mpz': False}


def enum_toy_unred(tier):
  full = 140 if tier == 'quick' else 600
  for ci, (c, form) in enumerate(toy_curves(tier)):
    n = c['n']
    for i in _rows(n, full, n + 6):
      yield {'op': 'unred', 'c': c, 'f': form, 'i': i, 'mpz': (i + ci) % 2 == 0}
