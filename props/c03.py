"""C03 - shared-factor detection across a batch is exact for every batch shape."""

import math

import gmpy2 as gmpy
from hypothesis import strategies as st

from gens import artifacts as art
from gens.common import Material, material
from harness.core import Arm, Violation, libcall

from paranoid_crypto.lib import ntheory_util
from paranoid_crypto.lib import rsa_aggregate_checks
from paranoid_crypto.lib import rsa_single_checks
from paranoid_crypto.lib import rsa_util

ID = 'C03'
TITLE = 'Shared-factor detection across a batch is exact for every batch shape'
RULE = (
    'Cases are Hypothesis-drawn descriptors (pool of primes derived from a 64-bit material '
    'integer by SHAKE-256; values are products of pool subsets, so sharing, nesting and '
    'duplicates are constructed, not filtered) plus an enumeration of every number of distinct '
    'values 0..130. Oracle: naive gcd(v_i, other * prod of the distinct w != v_i) element-wise; '
    'CheckGCD/CheckGCDN1 flag exactly / record exactly what that reference says (in a third of the CheckGCD cases '
    'some protobufs were first handled by CheckFermat and may already carry a factor record). A case is '
    'non-trivial when some value shares a factor with another distinct value and some level of '
    'the product tree has an odd node count (>1); distinctness by SHA-256 of the descriptor.')
ASSUMPTIONS = [
    'gmpy2 gcd/multiplication and Python integer arithmetic are correct (reference model uses them naively)',
    'values are >= 2 (moduli >= 2^63, n-1 values likewise), as every caller passes',
]


def _pool(mat, nbits, npool):
  ps = []
  tries = 0
  while len(ps) < npool:
    tries += 1
    # small sizes do not have npool distinct primes: widen after a few tries
    p = mat.prime(nbits + (tries // 8 if tries >= 8 else 0))
    if p not in ps:
      ps.append(p)
  return ps


def _ref_gcds(values, other=None):
  distinct = list(dict.fromkeys(int(v) for v in values))
  out = []
  for v in values:
    prod = other if other else 1
    for w in distinct:
      if w != int(v):
        prod *= w
    out.append(math.gcd(int(v), prod))
  return out


def _odd_level(ndistinct):
  d = ndistinct
  while d > 1:
    if d % 2 == 1:
      return True
    d = (d + 1) // 2
  return False


def _shares(values):
  distinct = list(dict.fromkeys(int(v) for v in values))
  for i, v in enumerate(distinct):
    for w in distinct[i + 1:]:
      if math.gcd(v, w) != 1:
        return True
  return False


# ---------------------------------------------------------------- BatchGCD

def _expand_values(desc):
  mat = Material(desc['m'], 'c03')
  pool = _pool(mat, desc['pb'], desc['np'])
  vals = []
  for idx in desc['vals']:
    v = 1
    for i in idx:
      v *= pool[i % len(pool)]
    vals.append(v)
  other = None
  if desc.get('other') is not None:
    other = 1
    for i in desc['other']:
      other *= pool[i % len(pool)] if i >= 0 else mat.prime(desc['pb'])
  return vals, other


def run_batchgcd(desc):
  vals, other = _expand_values(desc)
  conv = gmpy.mpz if desc.get('mpz', True) else int
  args = [conv(v) for v in vals]
  if other is None:
    res = libcall(rsa_util.BatchGCD, list(args))
  else:
    res = libcall(rsa_util.BatchGCD, list(args), conv(other))
  ref = _ref_gcds(vals, other)
  if not isinstance(res, list) or len(res) != len(vals):
    raise Violation('batchgcd:shape', got=repr(res)[:200], expected_len=len(vals))
  for i, (r, e) in enumerate(zip(res, ref)):
    if int(r) != e:
      raise Violation('batchgcd:value', index=i, value=vals[i], got=int(r), expected=e,
                      n=len(vals), ndistinct=len(set(vals)))
  nd = len(set(vals))
  shares = _shares(vals)
  cls = ['len=%s' % ('0' if not vals else '1' if len(vals) == 1 else '2-8' if len(vals) <= 8
                     else '9-64' if len(vals) <= 64 else '65+')]
  if len(vals) != nd:
    cls.append('has-duplicates')
  if other is not None:
    cls.append('with-other-product')
  if any(e == v for e, v in zip(ref, vals)):
    cls.append('gcd-equals-value(nested/covered)')
  if shares:
    cls.append('shares-factor')
  if _odd_level(nd):
    cls.append('odd-tree-level')
  return {'nt': shares and _odd_level(nd), 'cls': cls, 'n': len(vals), 'ndistinct': nd}


def strat_batchgcd(tier):
  big = 1024 if tier == 'thorough' else 256
  pb = st.one_of(st.integers(2, 48), st.sampled_from([64, 128, big]))
  @st.composite
  def s(draw):
    np_ = draw(st.integers(1, 14))
    idx = st.integers(0, np_ - 1)
    maxlen = draw(st.sampled_from([3, 8, 20, 40, 70 if tier == 'quick' else 200]))
    vals = draw(st.lists(st.lists(idx, min_size=1, max_size=4), min_size=0, max_size=maxlen))
    other = draw(st.one_of(st.none(), st.lists(st.integers(-1, np_ - 1), min_size=0, max_size=4)))
    return {'pb': draw(pb), 'np': np_, 'm': draw(material), 'vals': vals,
            'other': other, 'mpz': draw(st.booleans())}
  return s()


def _len_desc(L, variant):
  """L distinct values p_i*p_j over a pool of about L primes (deterministic)."""
  mat = Material(variant * 1000003 + L, 'c03len')
  # dense to sparse sharing: with a pool of L primes most values are fully covered by
  # their neighbours (gcd == value); with 8L most values share nothing
  npool = max(3, L * (1, 2, 4, 8)[variant % 4])
  seen = set()
  vals = []
  while len(vals) < L:
    i, j = mat.below(npool), mat.below(npool)
    k = (min(i, j), max(i, j))
    if k in seen:
      continue
    seen.add(k)
    vals.append([i, j])
  # variant 2 mod 3 appends duplicates of earlier values (distinct count stays L)
  if variant % 3 == 2 and L:
    for _ in range(1 + mat.below(3)):
      vals.insert(mat.below(len(vals) + 1), vals[mat.below(len(vals))])
  return {'pb': 20 + variant % 13, 'np': npool, 'm': variant * 7919 + L, 'vals': vals,
          'other': None if variant % 5 else [0, 1], 'mpz': True}


def enum_len(tier):
  variants = 4 if tier == 'quick' else 16
  for L in range(0, 131):
    for v in range(variants):
      yield _len_desc(L, v)
  if tier == 'thorough':
    for L in (200, 255, 256, 257, 500, 777, 1023, 1024, 1025, 1500, 2000):
      for v in range(2):
        yield _len_desc(L, v)
  else:
    for L in (255, 257, 600):
      yield _len_desc(L, 0)


# ---------------------------------------------------------------- product trees

def run_tree(desc):
  mat = Material(desc['m'], 'c03tree')
  vals = [max(1, mat.bits(b)) if b else 1 for b in desc['bits']]
  p = libcall(ntheory_util.FastProduct, [gmpy.mpz(v) for v in vals])
  if int(p) != math.prod(vals):
    raise Violation('fastproduct', values=vals, got=int(p))
  if vals:
    tree, t = libcall(ntheory_util.ExtendedProductTree, [gmpy.mpz(v) for v in vals])
    level = list(vals)
    for li, lv in enumerate(tree):
      if [int(x) for x in lv] != level:
        raise Violation('producttree:level', level=li, got=[int(x) for x in lv][:6],
                        expected=level[:6])
      if len(level) == 1:
        if li != len(tree) - 1:
          raise Violation('producttree:extra-level', levels=len(tree))
        break
      level = [level[i] * (level[i + 1] if i + 1 < len(level) else 1)
               for i in range(0, len(level), 2)]
    else:
      raise Violation('producttree:missing-root', levels=len(tree))
    P = math.prod(vals)
    T = sum(P // v for v in vals)
    if int(t) != T:
      raise Violation('producttree:T', n=len(vals), got=int(t), expected=T)
  return {'nt': len(vals) >= 3 and _odd_level(len(vals)),
          'cls': ['tree-len=%d' % len(vals) if len(vals) < 4 else 'tree-len>=4']}


def strat_tree(tier):
  return st.fixed_dictionaries({
      'm': material,
      'bits': st.lists(st.integers(0, 200), min_size=0, max_size=70),
  })


# ---------------------------------------------------------------- CheckGCD

def _keys_from(desc):
  mat = Material(desc['m'], 'c03keys')
  pool = _pool(mat, 33, desc['np'])
  ns = []
  for idx in desc['keys']:
    n = 1
    for i in idx:
      n *= pool[i % len(pool)]
    ns.append(n)
  return ns


def run_checkgcd(desc):
  ns = _keys_from(desc)
  keys = [art.rsa_key(n, pad_n=(1 if desc.get('pad') and i % 2 else 0)) for i, n in enumerate(ns)]
  # some protobufs were already handled by a single-key factoring check (as CheckAllRSA does before the
  # aggregate checks) and may carry its factor record and weak flag
  pre = set()
  for j in desc.get('pre') or []:
    if keys:
      k = keys[j % len(keys)]
      libcall(rsa_single_checks.CheckFermat().Check, [k])
      if art.factor_set(k.test_info, 'N_FACTORS') is not None:
        pre.add(j % len(keys))
  ret = libcall(rsa_aggregate_checks.CheckGCD().Check, keys)
  ref = _ref_gcds(ns)
  if not isinstance(ret, bool) and ret not in (0, 1):
    raise Violation('checkgcd:return-type', got=repr(ret))
  if bool(ret) != any(g != 1 for g in ref):
    raise Violation('checkgcd:return', got=ret, ref=ref)
  for i, (k, n, g) in enumerate(zip(keys, ns, ref)):
    e = art.entry(k.test_info, 'CheckGCD')
    if e is None:
      raise Violation('checkgcd:no-entry', index=i)
    fs = art.factor_set(k.test_info, 'N_FACTORS')
    if g != 1:
      if not e[0] or not k.test_info.weak:
        raise Violation('checkgcd:missed', index=i, n=n, gcd=g, ns=ns)
      # the gcd and its cofactor are recorded; when gcd == n the check may add a proper
      # divisor found with an individual partner (every recorded value must divide n)
      if fs is None or not {g, n // g} <= fs or any(f < 1 or n % f for f in fs) or (
          g != n and i not in pre and fs != {g, n // g}):
        raise Violation('checkgcd:record', index=i, n=n, gcd=g, got=sorted(fs or []))
    else:
      if e[0] or (i not in pre and (k.test_info.weak or fs is not None)):
        raise Violation('checkgcd:false-accusation', index=i, n=n, ns=ns,
                        record=sorted(fs or []))
  if not ns and (ret is not False):
    raise Violation('checkgcd:empty', got=repr(ret))
  cls = ['keys=%s' % ('0' if not ns else '1' if len(ns) == 1 else '2+')]
  if len(set(ns)) != len(ns):
    cls.append('duplicate-moduli')
  if any(g == n for g, n in zip(ref, ns)):
    cls.append('gcd==n')
  if any(1 < g < n for g, n in zip(ref, ns)):
    cls.append('proper-shared-factor')
  if all(g == 1 for g in ref) and len(ns) > 1:
    cls.append('nothing-shared')
  if pre:
    cls.append('some-keys-factored-before')
    if any(g != 1 and i in pre for i, g in enumerate(ref)):
      cls.append('factored-before-and-sharing')
  return {'nt': _shares(ns) and _odd_level(len(set(ns))), 'cls': cls, 'nkeys': len(ns)}


def strat_checkgcd(tier):
  @st.composite
  def s(draw):
    np_ = draw(st.integers(2, 16))
    idx = st.integers(0, np_ - 1)
    key = st.one_of(
        st.lists(idx, min_size=2, max_size=2),
        st.lists(idx, min_size=2, max_size=4))
    keys = draw(st.lists(key, min_size=0, max_size=draw(st.sampled_from([2, 5, 12, 30]))))
    pre = draw(st.one_of(st.just([]), st.just([]), st.lists(st.integers(0, 29), min_size=1, max_size=3)))
    return {'m': draw(material), 'np': np_, 'keys': keys, 'pad': draw(st.booleans()), 'pre': pre}
  return s()


# ---------------------------------------------------------------- CheckGCDN1

def _n1_values(desc):
  mat = Material(desc['m'], 'c03n1')
  pool = _pool(mat, desc.get('pb', 24), desc['np'])
  ns = []
  for k in desc['keys']:
    v = 1
    for i in k['g']:
      v *= pool[i % len(pool)]
    co = Material(desc['m'] * 31 + k['c'], 'cof').bits(64) | (1 << 63)
    v *= co
    if k.get('even'):
      v *= 2
    ns.append(v + 1)
  return ns


def run_checkgcdn1(desc):
  ns = _n1_values(desc)
  ref = _ref_gcds([n - 1 for n in ns])
  sel = desc['bound']
  if sel[0] == 'pow':
    bound = 1 << sel[1]
  elif not ref:
    bound = 2
  else:
    bound = max(2, ref[sel[1] % len(ref)] + sel[2])
  keys = [art.rsa_key(n) for n in ns]
  ret = libcall(rsa_aggregate_checks.CheckGCDN1(gcd_bound=bound).Check, keys)
  if bool(ret) != any(g >= bound for g in ref):
    raise Violation('checkgcdn1:return', got=ret, ref=ref, bound=bound)
  hit = False
  for i, (k, n, g) in enumerate(zip(keys, ns, ref)):
    e = art.entry(k.test_info, 'CheckGCDN1')
    if e is None:
      raise Violation('checkgcdn1:no-entry', index=i)
    fs = art.factor_set(k.test_info, 'N-1_FACTORS')
    if g >= bound:
      hit = True
      if not e[0] or not k.test_info.weak:
        raise Violation('checkgcdn1:missed', index=i, n=n, gcd=g, bound=bound)
      if fs != {g}:
        raise Violation('checkgcdn1:record', index=i, n=n, gcd=g, got=sorted(fs or []))
    else:
      if e[0] or k.test_info.weak or fs is not None:
        raise Violation('checkgcdn1:false-accusation', index=i, n=n, gcd=g, bound=bound)
  near = any(abs(g - bound) <= 1 for g in ref)
  cls = ['n1-keys=%s' % ('0' if not ns else '1' if len(ns) == 1 else '2+')]
  if near:
    cls.append('bound-within-1-of-a-gcd')
  if hit:
    cls.append('n1-flagged')
  return {'nt': len(set(ns)) >= 2 and near, 'cls': cls, 'bound_bits': bound.bit_length()}


def strat_checkgcdn1(tier):
  @st.composite
  def s(draw):
    np_ = draw(st.integers(1, 8))
    idx = st.integers(0, np_ - 1)
    key = st.fixed_dictionaries({
        'g': st.lists(idx, min_size=0, max_size=5),
        'c': st.integers(0, 6),
        'even': st.booleans()})
    keys = draw(st.lists(key, min_size=0, max_size=draw(st.sampled_from([2, 4, 9, 20]))))
    bound = draw(st.one_of(
        st.tuples(st.just('ref'), st.integers(0, 30), st.integers(-1, 1)),
        st.tuples(st.just('pow'), st.integers(1, 200))))
    return {'m': draw(material), 'np': np_, 'pb': draw(st.sampled_from([8, 24, 40])),
            'keys': keys, 'bound': list(bound)}
  return s()


ARMS = [
    Arm('batchgcd', run_batchgcd, strategy=strat_batchgcd, quick=24000, thorough=240000,
        doc='BatchGCD vs naive gcd-with-product-of-others'),
    Arm('batchgcd_len', run_batchgcd, enumerate=enum_len, exhaustive=True,
        doc='every number of distinct values 0..130 (tree shape) plus sampled larger'),
    Arm('product_tree', run_tree, strategy=strat_tree, quick=6000, thorough=60000),
    Arm('checkgcd', run_checkgcd, strategy=strat_checkgcd, quick=8000, thorough=80000),
    Arm('checkgcdn1', run_checkgcdn1, strategy=strat_checkgcdn1, quick=8000, thorough=80000),
]
