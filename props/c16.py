"""C16 - verdict bookkeeping is faithful and monotone (histories of check calls)."""

import os
import re

from hypothesis import strategies as st

from gens import artifacts as art
from gens import ecdsa_gen as eg
from gens import rsa_families as fam
from gens.common import Material, material
from harness import boot
from harness.core import Arm, Violation, libcall

from paranoid_crypto import paranoid_pb2
from paranoid_crypto.lib import paranoid
from paranoid_crypto.lib import ec_aggregate_checks
from paranoid_crypto.lib import ec_single_checks
from paranoid_crypto.lib import ecdsa_sig_checks as sc
from paranoid_crypto.lib import rsa_aggregate_checks
from paranoid_crypto.lib import rsa_single_checks
from props.c18 import _install_cheap_factory

ID = 'C16'
TITLE = 'Verdict bookkeeping is faithful and monotone'
RULE = (
    'A case is a history: a pool of RSA / EC / ECDSA artifacts (weak and healthy, small sizes) built from the '
    'descriptor, followed by a drawn list of operations - an all-checks entry point on the pool, one check '
    'class (default or with drawn constructor parameters) on a sub-batch, re-runs, and a serialise/parse round '
    'trip of every protobuf (an "earlier library run"). Model: after an entry point on fresh artifacts every '
    'artifact has exactly one entry per applicable active check, named after the class, with the class\'s '
    'public severity (README table cross-checked; SEVERITY_UNKNOWN for the unfactored low-Hamming-weight case; '
    'highest failed severity of the issuer key for CheckIssuerKey), the version of paranoid_crypto/VERSION, '
    'weak iff some entry is positive, return value iff some artifact is weak (asserted again when the same entry '
    'point is re-run over annotations that only it wrote; on other re-runs: returned True implies a weak artifact); CheckIssuerKey equals the verdict '
    'of CheckAllEC run by the harness on fresh copies of the issuer keys. Invariants after every step against a '
    'snapshot: weak never cleared, positive entries stay positive, severities never decrease, factor records '
    'only grow, no duplicate entry names, version unchanged. Non-trivial: a history that re-runs something on '
    'annotated artifacts after a positive entry; distinct by descriptor hash.')
ASSUMPTIONS = [
    'all-checks factory uses CheckECKeySmallDifference(max_diff=2^10) and a step-bounded CheckLowHammingWeight (documented parameters) to bound cost',
    'signatures use curves without a java.util.Random model except in a few cases (that check costs seconds per signature pair)',
]
TECHNIQUE = 'model-based testing of call histories (Hypothesis-generated operation lists, whole-history shrinking) with invariants checked after every step'

SEV = paranoid_pb2.SeverityType
README_SEVERITIES = {}


def _readme():
  if not README_SEVERITIES:
    with open(os.path.join(boot.REPO, 'README.md')) as f:
      for line in f:
        m = re.match(r'^\|\s*(Check\w+)\s*\|[^|]*\|\s*(SEVERITY_\w+)\s*\|', line)
        if m:
          README_SEVERITIES[m.group(1)] = getattr(SEV, m.group(2))
  return README_SEVERITIES


def _version():
  with open(os.path.join(boot.REPO, 'paranoid_crypto', 'VERSION')) as f:
    return f.read().strip()


RSA_NAMES = ['CheckSizes', 'CheckExponents', 'CheckROCA', 'CheckROCAVariant', 'CheckFermat',
             'CheckHighAndLowBitsEqual', 'CheckOpensslDenylist', 'CheckContinuedFractions',
             'CheckBitPatterns', 'CheckPermutedBitPatterns', 'CheckPollardpm1', 'CheckLowHammingWeight',
             'CheckUnseededRand', 'CheckSmallUpperDifferences', 'CheckKeypairDenylist', 'CheckGCD',
             'CheckGCDN1']
EC_NAMES_ALL = ['CheckValidECKey']
EC_NAMES_KNOWN = ['CheckWeakCurve', 'CheckWeakECPrivateKey', 'CheckECKeySmallDifference']
SIG_NAMES_KNOWN = ['CheckLCGNonceGMP', 'CheckLCGNonceJavaUtilRandom', 'CheckNonceMSB',
                   'CheckNonceCommonPrefix', 'CheckNonceCommonPostfix', 'CheckNonceGeneralized',
                   'CheckCr50U2f']
SIG_NAMES_ALL = ['CheckIssuerKey']


def _class_severity(name):
  for mod in (rsa_single_checks, rsa_aggregate_checks, ec_single_checks, ec_aggregate_checks, sc):
    if hasattr(mod, name):
      return int(getattr(mod, name)().severity)
  raise KeyError(name)


_SEVS = {}


def _sev(name):
  if name not in _SEVS:
    _SEVS[name] = _class_severity(name)
  return _SEVS[name]


# ---------------------------------------------------------------- pool construction

def _build_pool(desc, mat):
  rsa, ec, sig = [], [], []
  primes = []
  for spec in desc['rsa']:
    kind, k = spec
    if kind == 'healthy':
      p, q = fam.healthy(mat, [512, 768, 1024, 2048][k % 4])
      primes += [p, q]
      n = p * q
    elif kind == 'fermat':
      p, q, _ = fam.fermat_close(mat, 256, k % 100)
      n = p * q
    elif kind == 'shared' and primes:
      n = primes[k % len(primes)] * mat.prime(256, top2=True)
    elif kind == 'fermat2048':
      p, q, _ = fam.fermat_close(mat, 1024, k % 100)
      n = p * q
    elif kind == 'lowhw_unbalanced':   # flagged but not factored by the low-Hamming-weight search
      n = fam.low_hw_prime(mat, 240, 4) * fam.low_hw_prime(mat, 272, 4)
    elif kind == 'even':
      n = 2 * mat.prime(511)
    elif kind == 'lowhw':
      n = fam.low_hw_prime(mat, 256, 3 + k % 4) * fam.low_hw_prime(mat, 256, 4 + k % 3)
    elif kind == 'dup' and rsa:
      n = art.b2i(rsa[k % len(rsa)].rsa_info.n)
    else:
      p, q = fam.healthy(mat, 512)
      primes += [p, q]
      n = p * q
    rsa.append(art.rsa_key(n, [65537, 3][k % 7 == 0]))
  ds = {}
  for spec in desc['ec']:
    cid = [eg.C.CURVE_BRAINPOOLP256R1, eg.C.CURVE_SECP224R1, eg.C.CURVE_SECP192R1, 0, 8,
           eg.C.CURVE_BRAINPOOLP256R1][spec[0] % 6]
    kind, k = spec[1], spec[2]
    if cid in eg.CURVE_NAMES:
      n = eg.ref(cid).n
      if kind == 'small':
        d = 1 + k % 1000
      elif kind == 'near' and cid in ds:
        d = (ds[cid] + 1 + k % 500) % n or 1
      else:
        d = 1 + mat.below(n - 1)
      ds[cid] = d
      x, y = eg.mul_g(cid, d)
      if kind == 'off':
        y = (y + 1) % eg.ref(cid).p
    else:
      x, y = mat.bits(200), mat.bits(200)
    ec.append(art.ec_key(cid, x, y))
  issuers = []
  for spec in desc['sig']:
    cid = [eg.C.CURVE_BRAINPOOLP256R1, eg.C.CURVE_SECP224R1, eg.C.CURVE_SECP384R1, 0,
           eg.C.CURVE_SECP256R1, eg.C.CURVE_SECP192R1][spec[0] % 6]
    kind, k, m = spec[1], spec[2], spec[3]
    if kind == 'same_point_other_curve' and sig:
      # equal coordinates, different curve type (unknown id or another prime curve)
      prev = sig[-1]
      other = [0, 8, eg.C.CURVE_SECP256K1, eg.C.CURVE_BRAINPOOLP256R1][k % 4]
      if other == prev.issuer_key_info.curve_type:
        other = 0
      c = type(prev)()
      c.CopyFrom(prev)
      c.issuer_key_info.curve_type = other
      c.ClearField('test_info')
      sig.insert(len(sig) - (k % 2), c)
      continue
    if cid not in eg.CURVE_NAMES:
      for _ in range(m):
        sig.append(art.ecdsa_sig(cid, mat.bits(200), mat.bits(200), 1 + mat.bits(200), 1 + mat.bits(200),
                                 mat.bytes(32)))
      continue
    n = eg.ref(cid).n
    if kind == 'same_issuer' and issuers and issuers[-1].curve_type == cid:
      iss = issuers[-1]
    elif kind == 'weak_issuer_key':
      iss = eg.Issuer(cid, 1 + k % 1000)
    else:
      iss = eg.Issuer(cid, 1 + mat.below(n - 1))
    issuers.append(iss)
    if kind == 'biased':
      ks = eg.nonces_msb(mat, n, 64, max(6, m) if n.bit_length() <= 256 else 9)
    else:
      ks = eg.nonces_uniform(mat, n, m)
    for kk in ks:
      s = iss.sig(kk, mat.bytes(32))
      if s is not None:
        if kind == 'off_curve_issuer':
          s.issuer_key_info.y = art.i2b((iss.pub[1] + 1) % eg.ref(cid).p)
        sig.append(s)
  return {'rsa': rsa, 'ec': ec, 'sig': sig}


# ---------------------------------------------------------------- invariants

def _snap(pool):
  return {t: [art.snapshot(a) for a in arts] for t, arts in pool.items()}


def _parse_set(v):
  try:
    import ast  # pylint: disable=g-import-not-at-top
    return {int(x, 16) for x in ast.literal_eval(v)}
  except Exception:  # pylint: disable=broad-except
    return None


def _check_monotone(before, after, step):
  for t in before:
    for i, (b, a) in enumerate(zip(before[t], after[t])):
      ctx = dict(type=t, index=i, step=step)
      for name, entries in a['results'].items():
        if len(entries) != 1:
          raise Violation('monotone:duplicate-entry', name=name, **ctx)
      if b['weak'] and not a['weak']:
        raise Violation('monotone:weak-cleared', **ctx)
      if b['version'] and a['version'] != b['version']:
        raise Violation('monotone:version-changed', before=b['version'], after=a['version'], **ctx)
      for name, entries in b['results'].items():
        if name not in a['results']:
          raise Violation('monotone:entry-removed', name=name, **ctx)
        (br, bs), (ar, as_) = entries[0], a['results'][name][0]
        if br and not ar:
          raise Violation('monotone:positive-entry-cleared', name=name, **ctx)
        if as_ < bs:
          raise Violation('monotone:severity-lowered', name=name, before=bs, after=as_, **ctx)
      for iname, val in b['info'].items():
        if iname not in a['info']:
          raise Violation('monotone:record-removed', info=iname, **ctx)
        if iname in ('N_FACTORS', 'N-1_FACTORS'):
          bset, aset = _parse_set(val), _parse_set(a['info'][iname])
          if bset is None or aset is None or not bset <= aset:
            raise Violation('monotone:factor-removed', info=iname, before=val[:200],
                            after=a['info'][iname][:200], **ctx)
      if a['weak'] != any(e[0][0] for e in a['results'].values()) and not b['weak']:
        raise Violation('monotone:weak-flag-inconsistent', weak=a['weak'],
                        positives=[n for n, e in a['results'].items() if e[0][0]], **ctx)


def _expected_names(t, a):
  if t == 'rsa':
    return set(RSA_NAMES)
  if t == 'ec':
    return set(EC_NAMES_ALL + (EC_NAMES_KNOWN if a.ec_info.curve_type in eg.CURVE_NAMES else []))
  return set(SIG_NAMES_ALL + (SIG_NAMES_KNOWN if a.issuer_key_info.curve_type in eg.CURVE_NAMES else []))


EARLIER_VERSION = '0.9.0-earlier-run'


def _check_entry_point(t, arts, ret, step, rerun=False):
  version = _version()
  readme = _readme()
  any_weak = False
  issuer_verdicts = None
  if t == 'sig':
    # the harness runs CheckAllEC on fresh copies of the distinct issuer keys
    uniq = {}
    for s in arts:
      key = (s.issuer_key_info.curve_type, bytes(s.issuer_key_info.x), bytes(s.issuer_key_info.y))
      if key not in uniq:
        uniq[key] = paranoid_pb2.ECKey(ec_info=s.issuer_key_info)
    libcall(paranoid.CheckAllEC, list(uniq.values()))
    issuer_verdicts = {k: (bool(v.test_info.weak), max([int(r.severity) for r in v.test_info.test_results
                                                         if r.result] or [None]))
                       for k, v in uniq.items()}
  for i, a in enumerate(arts):
    ctx = dict(type=t, index=i, step=step)
    res = art.results(a.test_info)
    names = set(res)
    exp = _expected_names(t, a)
    if names != exp:
      raise Violation('entrypoint:entry-set', missing=sorted(exp - names), unexpected=sorted(names - exp), **ctx)
    # (artifacts reloaded from an earlier library run keep the version recorded then: SetTestResult only
    # fills an empty field, and the property asks no more than that a version is recorded)
    if a.test_info.paranoid_lib_version not in (version, EARLIER_VERSION if rerun else version):
      raise Violation('entrypoint:version', got=a.test_info.paranoid_lib_version, expected=version, **ctx)
    pos = False
    for name, entries in res.items():
      if len(entries) != 1:
        raise Violation('entrypoint:duplicate-entry', name=name, **ctx)
      r, sev = entries[0]
      pos |= r
      want = _sev(name)
      if name == 'CheckLowHammingWeight' and r and art.attached(a.test_info, 'N_FACTORS') is None:
        want = int(SEV.SEVERITY_UNKNOWN)
      if name == 'CheckIssuerKey':
        key = (a.issuer_key_info.curve_type, bytes(a.issuer_key_info.x), bytes(a.issuer_key_info.y))
        w, hs = issuer_verdicts[key]
        if r != w:
          raise Violation('entrypoint:issuer-verdict', entry=r, ec_checks_weak=w, **ctx)
        want = hs if r else int(SEV.SEVERITY_UNKNOWN)
      elif name == 'CheckLowHammingWeight' and r and art.attached(a.test_info, 'N_FACTORS') is not None:
        # the factors may have been recorded by another check: accept either documented severity
        if sev not in (int(SEV.SEVERITY_UNKNOWN), _sev(name)):
          raise Violation('entrypoint:severity', name=name, got=sev, **ctx)
        want = sev
      if sev != want:
        raise Violation('entrypoint:severity', name=name, got=sev, expected=want, **ctx)
      if name in readme and _sev(name) != readme[name]:
        raise Violation('entrypoint:severity-differs-from-readme', name=name, code=_sev(name),
                        readme=int(readme[name]), **ctx)
    if bool(a.test_info.weak) != pos:
      raise Violation('entrypoint:weak-flag', weak=bool(a.test_info.weak), some_entry_positive=pos, **ctx)
    any_weak |= pos
  if bool(ret) != any_weak or not isinstance(ret, bool):
    raise Violation('entrypoint:return-value', returned=ret, some_artifact_weak=any_weak, type=t, step=step)


def _single_check(t, name, param):
  if t == 'rsa':
    if name == 'CheckFermat':
      return rsa_single_checks.CheckFermat(max_steps=[0, 10, 100000][param % 3])
    if name == 'CheckContinuedFractions':
      return rsa_single_checks.CheckContinuedFractions(bound=2 ** [64, 48, 8][param % 3])
    if name == 'CheckGCDN1':
      return rsa_aggregate_checks.CheckGCDN1(gcd_bound=2 ** [200, 128, 1][param % 3])
    if name in ('CheckGCD',):
      return rsa_aggregate_checks.CheckGCD()
    if name == 'CheckLowHammingWeight':
      from props.c01 import _LowHW  # pylint: disable=g-import-not-at-top
      return _LowHW([30, 2000, 20000][param % 3])
    return getattr(rsa_single_checks, name)()
  if t == 'ec':
    if name == 'CheckECKeySmallDifference':
      return ec_aggregate_checks.CheckECKeySmallDifference(max_diff=2 ** [1, 4, 10][param % 3])
    return getattr(ec_single_checks, name)()
  return getattr(sc, name)()


SINGLE_BY_TYPE = {
    'rsa': ['CheckSizes', 'CheckExponents', 'CheckFermat', 'CheckGCD', 'CheckGCDN1', 'CheckContinuedFractions',
            'CheckBitPatterns', 'CheckLowHammingWeight', 'CheckROCA', 'CheckHighAndLowBitsEqual'],
    'ec': ['CheckValidECKey', 'CheckWeakCurve', 'CheckECKeySmallDifference'],
    'sig': ['CheckNonceMSB', 'CheckNonceCommonPrefix', 'CheckCr50U2f', 'CheckIssuerKey', 'CheckLCGNonceGMP'],
}
ENTRY = {'rsa': paranoid.CheckAllRSA, 'ec': paranoid.CheckAllEC, 'sig': paranoid.CheckAllECDSASigs}


def run_history(desc):
  _install_cheap_factory()
  mat = Material(desc['m'], 'c16')
  pool = _build_pool(desc, mat)
  fresh = {t: True for t in pool}
  only_all = {t: True for t in pool}   # so far the type was only handled by its all-checks entry point
  had_positive = False
  rerun_after_positive = False
  nsteps = 0
  repeated_all = False
  for step, op in enumerate(desc['ops']):
    kind, t = op[0], ['rsa', 'ec', 'sig'][op[1] % 3]
    arts = pool[t]
    if not arts and kind != 'all':
      continue
    before = _snap(pool)
    if kind not in ('all', 'reparse'):
      only_all[t] = False
    annotated = any(len(a.test_info.test_results) for a in arts)
    if had_positive and annotated:
      rerun_after_positive = True
    if kind == 'all':
      ret = libcall(ENTRY[t], arts)
      after = _snap(pool)
      _check_monotone(before, after, step)
      if fresh[t] or only_all[t]:
        # first run, or a re-run over annotations that this very entry point wrote: the same checks give the
        # same verdicts, so the whole bookkeeping clause (including the return value) applies again
        _check_entry_point(t, arts, ret, step, rerun=not fresh[t])
      else:
        if ret is True and not any(a.test_info.weak for a in arts):
          raise Violation('rerun:returned-true-without-weak-artifact', type=t, step=step)
        # annotations of differently configured checks may keep an artifact weak although this run
        # returns False: only the entry set and the per-artifact consistency are asserted
        for i, a in enumerate(arts):
          if set(art.results(a.test_info)) != _expected_names(t, a) | set(before[t][i]['results']):
            raise Violation('rerun:entry-set', type=t, index=i, step=step)
      fresh[t] = False
      if not fresh[t] and only_all[t] and step and any(o[0] == 'all' and o[1] % 3 == op[1] % 3
                                                       for o in desc['ops'][:step]):
        repeated_all = True
    elif kind == 'check':
      names = SINGLE_BY_TYPE[t]
      name = names[op[2] % len(names)]
      sub = [a for i, a in enumerate(arts) if (op[3] >> (i % 16)) & 1] or arts
      ret = libcall(_single_check(t, name, op[2]).Check, sub)
      after = _snap(pool)
      _check_monotone(before, after, step)
      if not isinstance(ret, bool):
        raise Violation('check:return-type', name=name, got=repr(ret)[:60])
      fresh[t] = False
    elif kind == 'recheck':
      # the same check twice: weakest configuration on a sub-batch, then the strongest on all
      names = SINGLE_BY_TYPE[t]
      name = names[op[2] % len(names)]
      sub = [a for i, a in enumerate(arts) if (op[3] >> (i % 16)) & 1] or arts[:1]
      for batch, param in ((sub, 0), (arts, 2)):
        b2 = _snap(pool)
        ret = libcall(_single_check(t, name, param).Check, batch)
        _check_monotone(b2, _snap(pool), step)
        if not isinstance(ret, bool):
          raise Violation('check:return-type', name=name, got=repr(ret)[:60])
      fresh[t] = False
      rerun_after_positive |= any(a.test_info.weak for a in arts)
    elif kind == 'preannotate':
      # annotations written by an earlier library run (other severities, positive verdicts, more factors)
      a = arts[op[2] % len(arts)]
      if a.test_info.test_results:
        e = a.test_info.test_results[op[3] % len(a.test_info.test_results)]
        mode = op[3] % 3
        if mode in (0, 2):
          e.severity = SEV.SEVERITY_CRITICAL
        if mode in (1, 2):
          e.result = True
          a.test_info.weak = True
        if t == 'rsa' and op[3] % 2:
          n = art.b2i(a.rsa_info.n)
          old = art.factor_set(a.test_info, 'N_FACTORS') or set()
          rec = [x for x in a.test_info.attached_info if x.info_name == 'N_FACTORS']
          val = str({format(f, 'x') for f in old | {1, n}})
          if rec:
            rec[0].value = val
          else:
            x = a.test_info.attached_info.add()
            x.info_name, x.value = 'N_FACTORS', val
        fresh[t] = False
      nsteps -= 1
    else:   # 'reparse': an earlier library run stored and reloaded
      pool[t] = [type(a).FromString(a.SerializeToString()) for a in arts]
      after = _snap(pool)
      if after != before:
        raise Violation('reparse:annotations-changed', type=t, step=step)
      if (desc['m'] + step) % 2 == 0:
        # the stored annotations come from an earlier library version
        for a in pool[t]:
          if a.test_info.paranoid_lib_version:
            a.test_info.paranoid_lib_version = EARLIER_VERSION
    nsteps += 1
    had_positive |= any(a.test_info.weak for arts2 in pool.values() for a in arts2)
  cls = ['history steps=%s' % (nsteps if nsteps < 4 else '4+')]
  if rerun_after_positive:
    cls.append('history rerun-on-annotated-after-positive')
  if repeated_all:
    cls.append('history entry-point-repeated-on-own-annotations')
  if any(op[0] == 'reparse' for op in desc['ops']):
    cls.append('history with-reparse')
  cls += ['pool %s=%s' % (t, len(v) if len(v) < 3 else '3+') for t, v in pool.items()]
  return {'nt': rerun_after_positive, 'cls': cls}


def strat_history(tier):
  rsa = st.tuples(st.sampled_from(['healthy', 'fermat', 'shared', 'even', 'lowhw', 'dup', 'fermat2048',
                                   'fermat2048', 'lowhw_unbalanced']),
                  st.integers(0, 1000)).map(list)
  ec = st.tuples(st.integers(0, 5), st.sampled_from(['random', 'small', 'near', 'off']),
                 st.integers(0, 1000)).map(list)
  sig = st.tuples(st.sampled_from([0, 0, 1, 2, 3, 0, 1, 4, 5, 5]),
                  st.sampled_from(['healthy', 'biased', 'weak_issuer_key', 'same_issuer', 'off_curve_issuer',
                                   'same_point_other_curve']),
                  st.integers(0, 1000), st.integers(1, 3)).map(list)
  op = st.one_of(
      st.tuples(st.just('all'), st.integers(0, 2)),
      st.tuples(st.just('all'), st.integers(0, 2)),
      st.tuples(st.just('check'), st.integers(0, 2), st.integers(0, 1000), st.integers(1, 65535)),
      st.tuples(st.just('preannotate'), st.integers(0, 2), st.integers(0, 1000), st.integers(0, 1000)),
      st.tuples(st.just('recheck'), st.integers(0, 2), st.integers(0, 1000), st.integers(1, 65535)),
      st.tuples(st.just('check'), st.just(0), st.just(0), st.just(65535)),
      st.tuples(st.just('reparse'), st.integers(0, 2))).map(list)

  @st.composite
  def s(draw):
    which = draw(st.sampled_from(['rsa', 'rsa', 'ec', 'sig', 'sig', 'mixed']))
    sigs = draw(st.lists(sig, min_size=1, max_size=3)) if which in ('sig', 'mixed') else []
    if sigs and draw(st.integers(0, 3)) == 0:
      # one issuer with biased nonces and one healthy issuer on two different curves, in either order
      a = draw(st.integers(0, 5))
      b = (a + draw(st.integers(1, 5))) % 6
      sigs = [[a, 'biased', draw(st.integers(0, 1000)), draw(st.integers(1, 3))],
              [b, 'healthy', draw(st.integers(0, 1000)), draw(st.integers(1, 3))]]
      if draw(st.booleans()):
        sigs.reverse()
    return {
        'm': draw(material),
        'rsa': draw(st.lists(rsa, min_size=1, max_size=4)) if which in ('rsa', 'mixed') else [],
        'ec': draw(st.lists(ec, min_size=1, max_size=4)) if which in ('ec', 'mixed') else [],
        'sig': sigs,
        'ops': ([['all', {'rsa': 0, 'ec': 1, 'sig': 2, 'mixed': draw(st.integers(0, 2))}[which]]]
                if draw(st.booleans()) else []) + draw(st.lists(op, min_size=2, max_size=7)),
    }
  return s()


ARMS = [
    Arm('history', run_history, strategy=strat_history, quick=480, thorough=6000, budget=(170, 2400)),
]
