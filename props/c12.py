"""C12 - NIST SP 800-22 statistics and p-values are computed as specified."""

import math
from fractions import Fraction

from hypothesis import strategies as st

from gens.common import Material, material
from harness.core import Arm, Violation, libcall
from refs import nist_ref as R

from paranoid_crypto.lib.randomness_tests import berlekamp_massey as bm
from paranoid_crypto.lib.randomness_tests import extended_nist_suite as X
from paranoid_crypto.lib.randomness_tests import nist_suite as N
from paranoid_crypto.lib.randomness_tests import util

ID = 'C12'
TITLE = 'NIST SP 800-22 statistics and p-values are computed as specified'
TECHNIQUE = 'differential testing against bit-list transcriptions of SP 800-22 + metamorphic relations + exact table derivations'
RULE = (
    'A case is (test, parameters, bit string). Bit strings are expanded deterministically from a '
    'descriptor {family, length, 64-bit material, shape parameter}: random, constant, alternating, '
    'periodic, block-constant, biased, single-bit, one-sided-walk, mean-reverting walk, exact number '
    'of zero-crossing cycles, de Bruijn, LFSR output, low-rank rows, inserted long runs, repeated '
    'blocks, literal. Lengths are drawn from both sides (+-2) of every threshold in the code (100, '
    '128, 6272, 750000, 38rc, 4096.., 387840, 904960, 50*2^m fast-path bound of FrequencyCount, '
    'template-length ladder, block-size ladder, 200*block, 2^16, 2^20) and from 1..2^14; all strings '
    'of length <= 12 (quick) / 16 (thorough) are enumerated for the tests that accept them. Oracle: '
    'refs/nist_ref.py (math/mpmath only) within abs 1e-9 + rel 1e-6 (stated looser bounds for the '
    'table-driven tests); InsufficientDataError exactly below each documented minimum; 0 <= p <= 1 + '
    '1e-12; complement / reversal / rotation invariances library-vs-library; embedded tables against '
    'exact derivations to one unit of the last printed digit. A case is non-trivial when the string '
    'is not constant and (the length is within 2 of a threshold of that test or an observation falls '
    'into the first or the last chi-square class / the walk is one-sided / a parameter is not the '
    'default); distinctness by SHA-256 of the descriptor.')
ASSUMPTIONS = [
    'mpmath.gammainc (30 digits) and math.erfc are correct; refs/nist_ref.py uses nothing else',
    'the transcription reads SP 800-22 rev.1a as: printed pi tables of 2.4.4; exact pi of 3.10 or their '
    'printed form for 2.10; Runs without the optional pre-test of 2.3.4(2) except for constant strings '
    '(p = 0, the limit of the formula); for odd n the spectral N0 may be .95 n/2 or .95 floor(n/2); when '
    'the walk ends in 0 the appended zero of S\' may or may not count as a cycle',
    'parameter choices the standard leaves open are accepted when admissible under its recommendation: '
    'block-frequency M (>= 20, > n/100, N < 100), template length 2..10 of the default non-overlapping '
    'test, Universal L with n >= the bound of 2.9.7 for L, ApproximateEntropy m_max <= log2(n) - 6',
    'cumulative-sums p-values are compared (and range-checked) only for n >= 100; below, the truncation '
    'of the series is ambiguous in the standard',
    'for n > 2^14 the spectral reference uses numpy.fft (cross-checked against the pure-Python DFT below)',
    'UniversalImpl is exercised for block sizes L >= 2 only: for L = 1 the factor c of SP 800-22 2.9.4 is '
    'negative (0.7 - 0.8/L + ...), so the specified formula itself leaves [0, 1]',
    'domain of the explicit-parameter entry points: NonOverlappingTemplateMatching with n // blocks >= m, '
    'OverlappingTemplateMatching with block_size >= m + 4 (all six classes possible), BinaryMatrixRank '
    'with columns >= rows >= k >= 1, Serial n >= m_max, ApproximateEntropy n >= m_max + 1, n >= 1',
]

TOL_ABS = 1e-9
TOL_REL = 1e-6
INSUFF = N.InsufficientDataError


# ---------------------------------------------------------------- comparison helpers

def close(got, exp, extra=0.0):
  return abs(got - exp) <= TOL_ABS + TOL_REL * abs(exp) + extra


def is_number(x):
  return isinstance(x, (int, float)) and not isinstance(x, bool)


def check_range(test, got, **ctx):
  if not is_number(got) or got != got:
    raise Violation('range:' + test, got=repr(got), **ctx)
  if not -1e-12 <= got <= 1.0 + 1e-12:
    raise Violation('range:' + test, got=float(got), **ctx)


def check_p(test, got, expected, extra=0.0, **ctx):
  """got must lie in [0, 1] and equal one of the admissible expected values."""
  check_range(test, got, **ctx)
  if not isinstance(expected, (list, tuple)):
    expected = [expected]
  for i, e in enumerate(expected):
    if close(got, e, extra):
      return i
  raise Violation('pvalue:' + test, got=float(got), expected=[float(e) for e in expected], **ctx)


def call(test, fn, args, insufficient, **ctx):
  """Calls a library test. `insufficient` says whether the documented minimum is not met.

  Returns None when InsufficientDataError was (correctly) raised.
  """
  try:
    res = libcall(fn, *args, expect=(INSUFF,))
  except INSUFF:
    if not insufficient:
      raise Violation('minsize:' + test + ':unexpected-insufficient', **ctx)
    return None
  if insufficient:
    raise Violation('minsize:' + test + ':not-raised', got=repr(res)[:200], **ctx)
  return res


def named(test, res, **ctx):
  """Validates the shape of a NamedPValues result and returns it as an ordered dict."""
  if not isinstance(res, list):
    raise Violation('shape:' + test, got=repr(res)[:200], **ctx)
  out = {}
  for item in res:
    if not (isinstance(item, tuple) and len(item) == 2 and isinstance(item[0], str)):
      raise Violation('shape:' + test, got=repr(item)[:200], **ctx)
    if item[0] in out:
      raise Violation('shape:' + test + ':duplicate-name', name=item[0], **ctx)
    out[item[0]] = item[1]
  return out


def near(n, thresholds, d=2):
  return any(abs(n - t) <= d for t in thresholds)


# ---------------------------------------------------------------- bit string families

FAMILIES = ['rand', 'zeros', 'ones', 'alt0', 'alt1', 'period', 'runs', 'biased', 'single',
            'onesided', 'endext', 'revert', 'cycles', 'debruijn', 'lfsr', 'lowrank', 'longrun',
            'blockrep', 'lit']


def _from_list(b):
  return R.to_int(b)


def _debruijn(k):
  """Binary de Bruijn sequence of order k (prefer-one greedy), length 2^k."""
  seen = set()
  seq = [0] * k
  seen.add(tuple(seq))
  while True:
    tail = tuple(seq[-(k - 1):]) if k > 1 else ()
    for bit in (1, 0):
      cand = tail + (bit,)
      if cand not in seen:
        seen.add(cand)
        seq.append(bit)
        break
    else:
      break
  return seq[:1 << k]  # cyclic sequence


def make_string(desc):
  """Expands a string descriptor into (bits, n). Pure function of the descriptor."""
  fam = desc['fam']
  n = desc['n']
  p = desc.get('p', 0)
  mat = Material(desc.get('m', 0), 'c12:' + fam)
  if fam == 'lit':
    return desc['bits'] & ((1 << n) - 1), n
  if n <= 0 and fam != 'cycles':
    return 0, 0
  full = (1 << n) - 1 if n > 0 else 0
  if fam == 'rand':
    return mat.bits(n), n
  if fam == 'zeros':
    return 0, n
  if fam == 'ones':
    return full, n
  if fam in ('alt0', 'alt1'):
    pat = int('10' * ((n + 1) // 2), 2) & full   # bit 0 = 0, bit 1 = 1, ...
    return (pat if fam == 'alt0' else pat ^ full), n
  if fam == 'period':
    plen = 2 + p % 69
    word = mat.bits(plen) | 1
    reps = n // plen + 1
    v = int(format(word, '0%db' % plen) * reps, 2)
    return v & full, n
  if fam == 'runs':
    mean = 1 + p % 200
    out = []
    bit = mat.below(2)
    while len(out) < n:
      out.extend([bit] * (1 + mat.below(2 * mean)))
      bit ^= 1
    return _from_list(out[:n]), n
  if fam == 'biased':
    a, b2, c = mat.bits(n), mat.bits(n), mat.bits(n)
    k = p % 4
    v = (a & b2, a | b2, a & b2 & c, a | b2 | c)[k]
    return v, n
  if fam == 'single':
    pos = p % n
    v = 1 << pos
    return (v if (p // n) % 2 == 0 else v ^ full), n
  if fam == 'onesided':
    # random walk reflected so that it never goes below 0 (p odd: never above 0)
    raw = R.bitlist(mat.bits(n), n)
    s = 0
    out = []
    for x in raw:
      if s == 0:
        x = 1
      s += 2 * x - 1
      out.append(x)
    v = _from_list(out)
    return (v ^ full if p % 2 else v), n
  if fam == 'endext':
    # one-sided walk that ends at its extreme: word^k with a word of positive drift
    words = ['1', '101', '110', '10101', '1101', '11010', '1011']
    w = words[p % len(words)]
    s = (w * (n // len(w) + 1))[:n]
    s = s[:-1] + '1'
    v = int(s[::-1], 2)
    return (v ^ full if (p // len(words)) % 2 else v), n
  if fam == 'revert':
    # mean reverting walk: many zero crossings
    strength = 1 + p % 3   # steps toward 0 with probability 1 - 2^-(strength+1)
    raw = mat.bytes(n)
    s = 0
    out = []
    for i in range(n):
      r = raw[i]
      toward = (r & ((2 << strength) - 1)) != 0
      if s == 0:
        x = r >> 7
      elif s > 0:
        x = 0 if toward else 1
      else:
        x = 1 if toward else 0
      s += 2 * x - 1
      out.append(x)
    return _from_list(out), n
  if fam == 'cycles':
    # exactly p complete cycles (excursions from 0 back to 0), then an optional tail
    out = []
    for _ in range(p):
      sign = mat.below(2)
      h = 1 + mat.below(6)
      wig = mat.below(4)
      up = [sign] * h
      body = []
      for _ in range(wig):
        body += [1 - sign, sign]
      out += up + body + [1 - sign] * h
    tail = desc.get('tail', 0)
    if tail:
      sign = mat.below(2)
      out += [sign] * tail
    return _from_list(out), len(out)
  if fam == 'debruijn':
    k = 2 + p % 13
    base = _debruijn(k)
    rot = mat.below(len(base))
    base = base[rot:] + base[:rot]
    out = (base * (n // len(base) + 1))[:n]
    return _from_list(out), n
  if fam == 'lfsr':
    deg = 1 + p % 40
    taps = mat.bits(deg) | (1 << (deg - 1))
    state = mat.bits(deg) | 1
    out = []
    for _ in range(n):
      out.append(state & 1)
      fb = (state & taps).bit_count() & 1
      state = (state >> 1) | (fb << (deg - 1))
    return _from_list(out), n
  if fam == 'lowrank':
    c = desc.get('c', 32)
    dim = 1 + p % max(1, c)
    basis = [mat.bits(c) for _ in range(dim)]
    v = 0
    rows = n // c + 1
    sel = mat.bits(rows * dim)
    for i in range(rows):
      r = 0
      for j in range(dim):
        if (sel >> (i * dim + j)) & 1:
          r ^= basis[j]
      v |= r << (i * c)
    return v & full, n
  if fam == 'longrun':
    v = mat.bits(n)
    length = 1 + p % 40
    for _ in range(1 + mat.below(8)):
      pos = mat.below(n)
      v |= ((1 << length) - 1) << pos
    return v & full, n
  if fam == 'blockrep':
    bl = 1 + p % 16
    dsize = 1 + (p // 16) % 8
    words = [mat.bits(bl) for _ in range(dsize)]
    nb = n // bl + 1
    v = 0
    idx = mat.bytes(nb)
    for i in range(nb):
      v |= words[idx[i] % dsize] << (i * bl)
    return v & full, n
  raise ValueError('unknown family ' + fam)


def string_labels(fam, n, bits):
  cls = ['fam=' + fam]
  if n <= 16:
    cls.append('n<=16')
  elif n <= 1 << 10:
    cls.append('n<=2^10')
  elif n <= 1 << 14:
    cls.append('n<=2^14')
  elif n <= 1 << 17:
    cls.append('n<=2^17')
  else:
    cls.append('n>2^17')
  return cls


def is_constant(bits, n):
  return bits == 0 or bits == (1 << n) - 1


# ---------------------------------------------------------------- per-test oracles
# Every checker gets (bits, n, b, prm, cls) where b is the bit list, prm the test
# parameters of the descriptor and cls the label list to extend; it returns True when the
# case is non-trivial in the sense of RULE (apart from "string not constant").

def split_blocks(b, m, count=None):
  """Consecutive m-bit blocks as integers (bit j of block i = b[i*m + j])."""
  nb = len(b) // m if count is None else count
  return [R.to_int(b[i * m:(i + 1) * m]) for i in range(nb)]


def chk_frequency(bits, n, b, prm, cls):
  got = call('Frequency', N.Frequency, (bits, n), False, n=n)
  check_p('Frequency', got, R.frequency(b), n=n)
  return False


BF_THRESHOLDS = [100, 1600, 2000, 3200, 6400, 12800, 25600]


def _bf_ladder(n):
  m = 16
  while n // m >= 100:
    m *= 2
  return max(20, m)


def chk_block_frequency(bits, n, b, prm, cls):
  got = call('BlockFrequency', N.BlockFrequency, (bits, n), n < 100, n=n)
  if got is None:
    cls.append('insufficient')
    return near(n, [100])
  check_range('BlockFrequency', got, n=n)
  m0 = _bf_ladder(n)
  info = {}
  if R.block_frequency_admissible(n, m0) and close(got, R.block_frequency(b, m0, info)):
    cls.append('blockfreq-M=ladder')
  else:
    # any block size admissible under section 2.2.7 is accepted
    pre = [0]
    for x in b:
      pre.append(pre[-1] + x)
    found = None
    for m in range(max(20, n // 100 + 1), n + 1):
      if not R.block_frequency_admissible(n, m):
        continue
      nb = n // m
      chi = 4.0 * m * math.fsum(((pre[(i + 1) * m] - pre[i * m]) / m - 0.5) ** 2 for i in range(nb))
      if abs(R.igamc(nb / 2.0, chi / 2.0) - got) <= 1e-6 + 1e-4 * got and close(got, R.block_frequency(b, m)):
        found = m
        break
    if found is None:
      raise Violation('pvalue:BlockFrequency', got=float(got), n=n,
                      expected_for_ladder_M=[m0, R.block_frequency(b, m0)])
    cls.append('blockfreq-M=other-admissible')
  return near(n, BF_THRESHOLDS) or info.get('chi', 0) == 0


def chk_block_frequency_impl(bits, n, b, prm, cls):
  m = prm['M']
  blocks = split_blocks(b, m)
  if not blocks:
    return False
  got = libcall(N.BlockFrequencyImpl, blocks, m)
  check_p('BlockFrequencyImpl', got, R.block_frequency(b, m), n=n, M=m)
  cls.append('blockfreq-explicit-M')
  return True


def chk_runs(bits, n, b, prm, cls):
  info = {}
  exp = R.runs(b, info)
  got = call('Runs', N.Runs, (bits, n), False, n=n, bits=bits if n <= 64 else None)
  check_p('Runs', got, exp, n=n)
  if info['pretest_fails']:
    cls.append('runs-pretest-would-fail')
  return False


LR_THRESHOLDS = [128, 6272, 750000]


def chk_longest_runs(bits, n, b, prm, cls):
  got = call('LongestRuns', N.LongestRuns, (bits, n), n < 128, n=n)
  if got is None:
    cls.append('insufficient')
    return near(n, [128])
  info = {}
  check_p('LongestRuns', got, R.longest_runs(b, info), n=n)
  cls.append('longestruns-M=%d' % info['M'])
  last = info['v'][-1] > 0
  if last:
    cls.append('chi-last-bin')
  return near(n, LR_THRESHOLDS) or last


def _rank_extra(v, probs, k, p0):
  """p-value uncertainty caused by one unit of the 8th decimal in each table entry."""
  extra = 0.0
  for i in range(len(probs)):
    q = list(probs)
    q[i] += 1e-8
    extra += abs(R.chi_square_p(v, q, k)[0] - p0)
  return 2 * extra


def chk_rank(bits, n, b, prm, cls):
  r, c, k = prm.get('r', 32), prm.get('c', 32), prm.get('k', 3)
  check_size = prm.get('check_size', True)
  default = 'r' not in prm
  if check_size:
    insuff = n < 38 * r * c
  else:
    insuff = (n // c) // r < 1
  args = (bits, n) if default else (bits, n, r, c, k, check_size)
  got = call('BinaryMatrixRank', N.BinaryMatrixRank, args, insuff, n=n, r=r, c=c, k=k)
  if got is None:
    cls.append('insufficient')
    return near(n, [38 * r * c, r * c])
  info = {}
  exp = R.binary_matrix_rank(b, r, c, k, info)
  extra = 0.0
  if r == c and r >= 31 and k <= 5:
    # the library documents an 8-digit precomputed table for this shape
    probs = [float(x) for x in R.rank_distribution_exact(r, c, k)]
    extra = _rank_extra(info['v'], probs, k, exp)
    cls.append('rank-precomputed-table')
  check_p('BinaryMatrixRank', got, exp, extra, n=n, r=r, c=c, k=k, v=info['v'])
  if not default:
    cls.append('rank-explicit-shape')
  last = info['v'][-1] > 0
  if last:
    cls.append('chi-last-bin')
  return near(n, [38 * r * c]) or last or not default


def _magnitudes_numpy(b):
  import numpy  # pylint: disable=g-import-not-at-top
  x = numpy.array(b, dtype=numpy.float64) * 2 - 1
  return [float(v) for v in numpy.abs(numpy.fft.fft(x))[:len(b) // 2]]


def chk_spectral(bits, n, b, prm, cls):
  got = call('Spectral', N.Spectral, (bits, n), False, n=n)
  check_range('Spectral', got, n=n)
  info = {}
  if n <= 1 << 14:
    exp = R.spectral(b, info)
    cls.append('spectral-ref=pure-python')
  else:
    exp = R.spectral_from_magnitudes(n, _magnitudes_numpy(b), info)
    cls.append('spectral-ref=numpy')
  if info['near']:
    # a modulus within 1e-9 (relative) of T: the count of peaks is not decidable in floating point
    cls.append('spectral-peak-at-threshold(skipped)')
    return False
  check_p('Spectral', got, exp, n=n, N1=info['N1'])
  if n % 2:
    cls.append('spectral-odd-n')
  return n % 2 == 1 or (n & (n - 1)) != 0


NO_LADDER = [(4, 2), (64, 3), (256, 4), (1024, 5), (2048, 6), (4096, 7), (8192, 8), (16384, 9),
             (32768, 10)]


def _template_label(t, m):
  return "template '%s'" % format(t, '0%db' % m)


def chk_non_overlapping(bits, n, b, prm, cls):
  nblocks = prm.get('blocks', 8)
  m = prm.get('tm')
  default_m = m is None
  blen = n // nblocks
  if default_m:
    args = (bits, n) if 'blocks' not in prm else (bits, n, nblocks)
    res = call('NonOverlappingTemplateMatching', N.NonOverlappingTemplateMatching, args,
               blen < 4, n=n, blocks=nblocks)
    if res is None:
      cls.append('insufficient')
      return near(n, [4 * nblocks])
    res = named('NonOverlappingTemplateMatching', res, n=n)
    lens = {len(name) - len("template ''") for name in res}
    if len(lens) != 1:
      raise Violation('names:NonOverlappingTemplateMatching', names=list(res)[:6], n=n)
    m = lens.pop()
    if not 2 <= m <= 10 or m > blen:
      raise Violation('names:NonOverlappingTemplateMatching:template-length', m=m, n=n)
    templates = R.aperiodic_templates(m)
    cls.append('nonoverlapping-default-m=%d' % m)
    ladder_m = max(mm for lim, mm in NO_LADDER if blen >= lim)
    if m != ladder_m:
      cls.append('nonoverlapping-m-differs-from-ladder')
  else:
    templates = prm.get('templates')
    if templates is None:
      templates = R.aperiodic_templates(m)
      args = (bits, n, nblocks, m)
    else:
      args = (bits, n, nblocks, m, list(templates))
    res = libcall(N.NonOverlappingTemplateMatching, *args)
    res = named('NonOverlappingTemplateMatching', res, n=n)
    cls.append('nonoverlapping-explicit')
  want = [_template_label(t, m) for t in templates]
  if list(res) != want:
    raise Violation('names:NonOverlappingTemplateMatching', got=list(res)[:8], expected=want[:8],
                    n=n, m=m)
  info = {}
  exp = R.non_overlapping_template(b, nblocks, m, templates, info)
  if n // blen != nblocks:
    cls.append('nonoverlapping-leftover>=block')
  alt = None
  if n // blen != nblocks:
    alt = R.non_overlapping_template(b, n // blen, m, templates, block_len=blen)
  for t in templates:
    got = res[_template_label(t, m)]
    if alt is not None and is_number(got) and close(got, alt[t]) and not close(got, exp[t]):
      raise Violation('blockcount:NonOverlappingTemplateMatching', n=n, blocks=nblocks,
                      blocks_used=n // blen, block_size=blen, m=m, template=t, got=float(got),
                      expected=exp[t])
    check_p('NonOverlappingTemplateMatching', got, exp[t], n=n, blocks=nblocks, m=m, template=t)
  return near(blen, [lim for lim, _ in NO_LADDER]) or not default_m


def chk_overlapping(bits, n, b, prm, cls):
  m = prm.get('tm', 9)
  blen = prm.get('bl', 2 ** (m + 1) + m - 1)
  default = 'tm' not in prm
  args = (bits, n) if default else (bits, n, m, blen)
  got = call('OverlappingTemplateMatching', N.OverlappingTemplateMatching, args, n < blen, n=n,
             m=m, block=blen)
  if got is None:
    cls.append('insufficient')
    return near(n, [blen])
  info = {}
  exp = R.overlapping_template(b, m, blen, 5, info)
  check_p('OverlappingTemplateMatching', got, exp, n=n, m=m, block=blen, v=info['v'])
  if not default:
    cls.append('overlapping-explicit')
  return near(n, [blen * j for j in range(1, 20)]) or not default


def chk_universal(bits, n, b, prm, cls):
  got = call('Universal', N.Universal, (bits, n), n < 387840, n=n)
  if got is None:
    cls.append('insufficient')
    return near(n, [387840])
  check_range('Universal', got, n=n)
  top, _ = R.universal_parameters(n)
  for big_l in range(top, 5, -1):
    if close(got, R.universal(b, big_l, 10 * 2 ** big_l)):
      cls.append('universal-L=%d%s' % (big_l, '' if big_l == top else '(not the largest admissible)'))
      break
  else:
    raise Violation('pvalue:Universal', got=float(got), n=n,
                    expected=[R.universal(b, big_l, 10 * 2 ** big_l) for big_l in range(top, 5, -1)])
  return near(n, [387840, 904960])


def chk_universal_impl(bits, n, b, prm, cls):
  big_l, q = prm['L'], prm['Q']
  if n // big_l - q < 1:
    return False
  got = libcall(N.UniversalImpl, bits, n, big_l, q)
  check_p('UniversalImpl', got, R.universal(b, big_l, q), n=n, L=big_l, Q=q)
  cls.append('universal-impl-L=%d' % big_l)
  return True


def _lc_check(test, res, blocks_b, m, cls, **ctx):
  res = named(test, res, **ctx)
  if list(res) != ['distribution', 'extreme values']:
    raise Violation('names:' + test, got=list(res), **ctx)
  info = {}
  p1, p2 = R.linear_complexity_test(blocks_b, m, info)
  which = check_p(test + ':distribution', res['distribution'], p1, v=info['v'], **ctx)
  check_p(test + ':extreme', res['extreme values'], p2, q=info['q'], **ctx)
  if which == 1 and not close(res['distribution'], p1[0]):
    cls.append('lc-pi=printed')
  if info['v'][0] or info['v'][6]:
    cls.append('chi-first/last-bin')
    return True
  return False


def chk_linear_complexity(bits, n, b, prm, cls):
  bs = prm['bs']
  insuff = bs < 10 or 200 * bs > n
  got = call('LinearComplexity', N.LinearComplexity, (bits, n, bs), insuff, n=n, block_size=bs)
  if got is None:
    cls.append('insufficient')
    return near(n, [200 * bs]) or bs in (9, 10)
  blocks_b = [b[i * bs:(i + 1) * bs] for i in range(n // bs)]
  tail = _lc_check('LinearComplexity', got, blocks_b, bs, cls, n=n, block_size=bs)
  cls.append('lc-block-%s' % ('even' if bs % 2 == 0 else 'odd'))
  return tail or near(n, [200 * bs])


def chk_linear_complexity_impl(bits, n, b, prm, cls):
  bs = prm['bs']
  if bs < 1 or n // bs < 1:
    return False
  blocks_b = [b[i * bs:(i + 1) * bs] for i in range(n // bs)]
  got = libcall(N.LinearComplexityImpl, [R.to_int(x) for x in blocks_b], bs)
  _lc_check('LinearComplexityImpl', got, blocks_b, bs, cls, n=n, block_size=bs)
  cls.append('lc-impl')
  return True


def chk_scatter(bits, n, b, prm, cls):
  step = prm['step']
  mb = prm.get('mb')
  if n < step:
    return False
  got = libcall(X.LinearComplexityScatter, bits, n, step, mb)
  info = {}
  check_p('LinearComplexityScatter', got, R.scatter_test(b, step, mb, info), n=n, step=step,
          max_block=mb, q=info['q'])
  cls.append('scatter%s' % ('-truncated' if mb is not None and step * mb < n else ''))
  return True


def _serial_names(m_hi):
  out = []
  for m in range(2, m_hi + 1):
    out += ['m=%d p-value1' % m, 'm=%d p-value2' % m]
  return out


def chk_serial(bits, n, b, prm, cls):
  mm = prm.get('mmax')
  if mm is None:
    m_hi = R.serial_max_m(n) if n < 1 << 25 else 22
    if n < m_hi:
      return False
    res = libcall(N.Serial, bits, n)
  else:
    m_hi = mm
    if n < m_hi:
      return False
    res = libcall(N.Serial, bits, n, mm)
    cls.append('serial-explicit-mmax')
  res = named('Serial', res, n=n)
  if list(res) != _serial_names(m_hi):
    raise Violation('names:Serial', got=list(res)[-4:], expected_last=_serial_names(m_hi)[-1], n=n)
  sinfo = {}
  exp = R.serial(b, m_hi, sinfo)
  for m in range(2, m_hi + 1):
    for which in (1, 2):
      got = res['m=%d p-value%d' % (m, which)]
      if is_number(got) and got != got and sinfo['zero'][m][which - 1]:
        raise Violation('nan:Serial:zero-statistic-rounds-negative', n=n, m=m, which=which,
                        bits=bits if n <= 128 else None)
    check_p('Serial', res['m=%d p-value1' % m], exp[m][0], n=n, m=m, which=1)
    check_p('Serial', res['m=%d p-value2' % m], exp[m][1], n=n, m=m, which=2)
  fast = 50 * 2 ** m_hi < n
  cls.append('freqcount-%s-path' % ('fast' if fast else 'plain'))
  if n % 8:
    cls.append('n%8!=0')
  return near(n, [50 * 2 ** m_hi + 1, 1 << (n.bit_length() - 1)]) or mm is not None


def _apen_ladder(n):
  bl = n.bit_length()
  if n < 2 ** 16:
    return max(2, bl - 7)
  if n < 2 ** 20:
    return bl - 8
  if n < 2 ** 24:
    return bl - 9
  return min(22, bl - 10)


def chk_apen(bits, n, b, prm, cls):
  mm = prm.get('mmax')
  if mm is None:
    if n < 3:
      return False
    res = named('ApproximateEntropy', libcall(N.ApproximateEntropy, bits, n), n=n)
    m_hi = len(res) + 1
    if not 2 <= m_hi <= R.approximate_entropy_max_m(n):
      raise Violation('names:ApproximateEntropy:m_max-above-recommendation', m_max=m_hi, n=n)
    cls.append('apen-default-%s' % ('ladder' if m_hi == _apen_ladder(n) else 'other-admissible'))
  else:
    m_hi = mm
    if n < m_hi + 1:
      return False
    res = named('ApproximateEntropy', libcall(N.ApproximateEntropy, bits, n, mm), n=n)
    cls.append('apen-explicit-mmax')
  want = ['m=%d' % m for m in range(2, m_hi + 1)]
  if list(res) != want:
    raise Violation('names:ApproximateEntropy', got=list(res)[-3:], expected_last=want[-1], n=n)
  info = {}
  exp = R.approximate_entropy(b, m_hi, info)
  for m in range(2, m_hi + 1):
    got = res['m=%d' % m]
    if is_number(got) and got != got and info['zero'][m]:
      raise Violation('nan:ApproximateEntropy:chi-rounds-negative', n=n, m=m,
                      bits=bits if n <= 128 else None)
    check_p('ApproximateEntropy', res['m=%d' % m], exp[m], n=n, m=m, chi=info['chi'][m])
  fast = 50 * 2 ** (m_hi + 1) < n
  cls.append('freqcount-%s-path' % ('fast' if fast else 'plain'))
  return near(n, [50 * 2 ** (m_hi + 1) + 1, 1 << 16, 1 << 20]) or mm is not None


def chk_random_walk(bits, n, b, prm, cls):
  ms, mc, mv = prm.get('ms', 4), prm.get('mc', 5), prm.get('mv', 9)
  default = 'ms' not in prm
  args = (bits, n) if default else (bits, n, ms, mc, mv)
  res = named('RandomWalk', libcall(N.RandomWalk, *args), n=n)
  info = {}
  exp = R.random_walk(b, ms, mc, mv, info)
  for name in ('cumulative sums forward', 'cumulative sums reverse'):
    if name not in res:
      raise Violation('names:RandomWalk', missing=name, n=n)
    if n >= 100:
      check_p('RandomWalk:' + name.split()[-1], res[name], exp[name], n=n, zf=info['zf'],
              zb=info['zb'])
    elif not is_number(res[name]) or res[name] != res[name]:
      raise Violation('range:RandomWalk', got=repr(res[name]), n=n)
  exc_names = ['random excursions %d' % x for x in range(-ms, ms + 1) if x]
  var_names = ['random excursions variant %d' % x for x in range(-mv, mv + 1) if x]
  have = [k for k in res if k.startswith('random excursions')]
  adm = info['excursion_admissible']
  if have:
    if not any(adm):
      raise Violation('minsize:RandomWalk:excursions-with-too-few-cycles', J=info['J'], n=n)
    if have != exc_names + var_names:
      raise Violation('names:RandomWalk', got=have[:4], n=n, J=info['J'])
    for name in have:
      kind = 'variant' if 'variant' in name else 'excursions'
      check_p('RandomWalk:' + kind, res[name], exp[name], n=n, J=info['J'], name=name,
              ends_in_zero=info['ends_in_zero'])
    cls.append('excursions-evaluated')
  else:
    if all(adm):
      raise Violation('minsize:RandomWalk:excursions-missing', J=info['J'], n=n)
    cls.append('excursions-skipped(J<500)')
  onesided = info['zf'] and (min(R.partial_sums(b)) >= 0 or max(R.partial_sums(b)) <= 0)
  if onesided:
    cls.append('one-sided-walk')
  if info['ends_in_zero']:
    cls.append('walk-ends-in-0')
  if n < 100:
    cls.append('cusum-not-compared(n<100)')
  j = info['J']
  return bool(onesided) or abs(j - 500) <= 2 or not default or near(n, [100])


def chk_large_rank(bits, n, b, prm, cls):
  res = call('LargeBinaryMatrixRank', X.LargeBinaryMatrixRank, (bits, n), n < 4096, n=n)
  if res is None:
    cls.append('insufficient')
    return near(n, [4096])
  res = named('LargeBinaryMatrixRank', res, n=n)
  sizes = []
  s = 64
  while s * s <= n:
    sizes.append(s)
    s *= 2
  if list(res) != ['%d * %d' % (s, s) for s in sizes]:
    raise Violation('names:LargeBinaryMatrixRank', got=list(res), n=n)
  sf = _asymptotic_sf()
  deficient = False
  for s in sizes:
    rows = split_blocks(b, s, s)
    k = s - R.rank_gf2(rows)
    exp = float(sf[k]) if k < len(sf) else 0.0
    got = res['%d * %d' % (s, s)]
    check_range('LargeBinaryMatrixRank', got, n=n, size=s)
    # the library looks the value up in a table printed with 6 significant digits
    unit = 10.0 ** (math.floor(math.log10(exp)) - 5) if exp > 1e-300 else 1e-300
    if abs(got - exp) > 1.0000001 * unit:
      raise Violation('pvalue:LargeBinaryMatrixRank', got=float(got), expected=exp, size=s,
                      corank=k, n=n)
    if k >= 2:
      deficient = True
  if deficient:
    cls.append('largerank-corank>=2')
  return deficient or near(n, [s * s for s in (64, 128, 256, 512, 1024)])


_SF = []


def _asymptotic_sf():
  if not _SF:
    _SF.extend(R.asymptotic_rank_sf(40))
  return _SF


def chk_chisquare(bits, n, b, prm, cls):
  """The chi-square plumbing itself: counts of the cyclic m-bit windows of the string."""
  m = prm.get('m', 2)
  counts = R.cyclic_counts(b, m)[m]
  got = libcall(N.ChiSquareUniform, list(counts))
  size = len(counts)
  check_p('ChiSquareUniform', got, R.chi_square_p(counts, [1.0 / size] * size, size - 1)[0], n=n, m=m)
  mat = Material(prm.get('w', 0), 'chisq')
  w = [1 + mat.below(9) for _ in range(size)]
  probs = [x / sum(w) for x in w]
  got = libcall(N.ChiSquare, list(counts), list(probs))
  check_p('ChiSquare', got, R.chi_square_p(counts, probs, size - 1)[0], n=n, m=m, probs=probs)
  k = prm.get('k')
  if k:
    got = libcall(N.ChiSquare, list(counts), list(probs), k)
    check_p('ChiSquare', got, R.chi_square_p(counts, probs, k)[0], n=n, m=m, k=k)
  return True


CHECKERS = {
    'ChiSquare': chk_chisquare,
    'Frequency': chk_frequency,
    'BlockFrequency': chk_block_frequency,
    'BlockFrequencyImpl': chk_block_frequency_impl,
    'Runs': chk_runs,
    'LongestRuns': chk_longest_runs,
    'BinaryMatrixRank': chk_rank,
    'Spectral': chk_spectral,
    'NonOverlappingTemplateMatching': chk_non_overlapping,
    'OverlappingTemplateMatching': chk_overlapping,
    'Universal': chk_universal,
    'UniversalImpl': chk_universal_impl,
    'LinearComplexity': chk_linear_complexity,
    'LinearComplexityImpl': chk_linear_complexity_impl,
    'LinearComplexityScatter': chk_scatter,
    'Serial': chk_serial,
    'ApproximateEntropy': chk_apen,
    'RandomWalk': chk_random_walk,
    'LargeBinaryMatrixRank': chk_large_rank,
}


def run_case(desc):
  """desc = {'t': [test, ...] or test, 's': string descriptor, 'prm': {test: params}}."""
  bits, n = make_string(desc['s'])
  if n < 1:
    return {'nt': False, 'cls': ['empty-string(outside the domain)']}
  b = R.bitlist(bits, n)
  tests = desc['t'] if isinstance(desc['t'], list) else [desc['t']]
  cls = string_labels(desc['s']['fam'], n, bits)
  nt = False
  for t in tests:
    prm = (desc.get('prm') or {}).get(t) or {}
    cls.append('test=' + t)
    if CHECKERS[t](bits, n, b, prm, cls):
      nt = True
  const = is_constant(bits, n)
  if const:
    cls.append('constant-string')
  return {'nt': nt and not const, 'cls': cls, 'n': n}


# ---------------------------------------------------------------- strategies

GENERAL = ['rand', 'rand', 'rand', 'zeros', 'ones', 'alt0', 'alt1', 'period', 'runs', 'biased',
           'single', 'onesided', 'endext', 'revert', 'debruijn', 'lfsr', 'lowrank', 'longrun',
           'blockrep']


def around(ts, d=2):
  return st.builds(lambda t, e: max(1, t + e), st.sampled_from(ts), st.integers(-d, d))


def n_strategy(ts, hi, lo=1):
  return st.one_of(around(ts), st.integers(lo, max(lo, min(hi, 300))), st.integers(lo, hi))


def s_string(n_st, fams=None):
  return st.fixed_dictionaries({
      'fam': st.sampled_from(fams or GENERAL), 'n': n_st, 'm': material,
      'p': st.integers(0, 999)})


def case(test, s, prm=None):
  d = {'t': test, 's': s}
  if prm:
    d['prm'] = {test: prm}
  return d


def strat_basic(tier):
  hi = 1 << 14 if tier == 'quick' else 1 << 16
  ts = [100, 128, 1600, 2000, 3200, 6272, 6400, 12800]
  @st.composite
  def s(draw):
    t = draw(st.sampled_from(['Frequency', 'BlockFrequency', 'BlockFrequency', 'BlockFrequencyImpl',
                              'Runs', 'LongestRuns', 'LongestRuns', 'ChiSquare']))
    string = draw(s_string(n_strategy(ts, hi)))
    prm = None
    if t == 'BlockFrequencyImpl':
      prm = {'M': draw(st.one_of(st.integers(1, 40), st.integers(1, max(1, string['n']))))}
    if t == 'ChiSquare':
      prm = {'m': draw(st.integers(1, 5)), 'w': draw(st.integers(0, 1 << 30)),
             'k': draw(st.one_of(st.none(), st.integers(1, 40)))}
    return case(t, string, prm)
  return s()


def strat_spectral(tier):
  hi = 4096 if tier == 'quick' else 1 << 14
  return st.builds(lambda s: case('Spectral', s),
                   s_string(st.one_of(st.integers(1, 128), st.integers(1, hi),
                                      around([256, 1024, 4096, hi]))))


def strat_rank(tier):
  @st.composite
  def s(draw):
    kind = draw(st.sampled_from(['default', 'explicit', 'explicit', 'square31+', 'large']))
    fams = ['rand', 'rand', 'lowrank', 'lowrank', 'zeros', 'period', 'blockrep', 'biased', 'runs']
    if kind == 'default':
      n = draw(st.one_of(around([38912]), st.integers(38000, 80000), st.integers(1, 38911)))
      string = draw(s_string(st.just(n), fams))
      string['c'] = 32
      return case('BinaryMatrixRank', string)
    if kind == 'large':
      n = draw(st.one_of(around([4096, 16384, 65536]), st.integers(1, 70000)))
      string = draw(s_string(st.just(n), fams))
      string['c'] = draw(st.sampled_from([64, 128, 256]))
      return case('LargeBinaryMatrixRank', string)
    if kind == 'square31+':
      r = draw(st.integers(30, 34))
      c = r + draw(st.sampled_from([0, 0, 0, 1]))
      k = draw(st.integers(1, 6))
    else:
      r = draw(st.integers(1, 12))
      c = r + draw(st.integers(0, 4))
      k = draw(st.integers(1, min(r, 6)))
    check_size = draw(st.booleans())
    base = 38 * r * c if check_size else r * c
    n = draw(st.one_of(around([base]), st.integers(base, base * 3 + 40),
                       st.integers(max(1, base - 40), base + 40)))
    n = min(n, 120000)
    string = draw(s_string(st.just(n), fams))
    string['c'] = c
    return case('BinaryMatrixRank', string, {'r': r, 'c': c, 'k': k, 'check_size': check_size})
  return s()


def strat_templates(tier):
  big = [8 * lim for lim, _ in NO_LADDER]
  @st.composite
  def s(draw):
    kind = draw(st.sampled_from(['no-default', 'no-blocks', 'no-explicit', 'no-explicit',
                                 'ov-default', 'ov-explicit', 'ov-explicit']))
    fams = ['rand', 'rand', 'zeros', 'ones', 'alt0', 'period', 'runs', 'biased', 'longrun',
            'blockrep', 'debruijn', 'single']
    if kind == 'no-default':
      n = draw(st.one_of(around([t for t in big if t <= (1 << 15 if tier == 'quick' else 1 << 18)]),
                         st.integers(1, 600), st.integers(1, 1 << 14)))
      return case('NonOverlappingTemplateMatching', draw(s_string(st.just(n), fams)))
    if kind == 'no-blocks':
      nb = draw(st.integers(1, 24))
      n = draw(st.one_of(around([4 * nb, 64 * nb, 256 * nb], 3), st.integers(1, 4096)))
      return case('NonOverlappingTemplateMatching', draw(s_string(st.just(n), fams)), {'blocks': nb})
    if kind == 'no-explicit':
      nb = draw(st.integers(1, 24))
      m = draw(st.integers(2, 8))
      n = draw(st.one_of(st.integers(nb * m, nb * m + 3 * nb), st.integers(nb * m, 4096 + nb * m)))
      prm = {'blocks': nb, 'tm': m}
      if draw(st.booleans()):
        ap = R.aperiodic_templates(m)
        prm['templates'] = draw(st.lists(st.sampled_from(ap), min_size=0, max_size=4, unique=True))
      return case('NonOverlappingTemplateMatching', draw(s_string(st.just(n), fams)), prm)
    if kind == 'ov-default':
      n = draw(st.one_of(around([1032 * j for j in range(1, 16)]), st.integers(1032, 1 << 14),
                         st.integers(1, 1040)))
      return case('OverlappingTemplateMatching', draw(s_string(st.just(n), fams)))
    m = draw(st.integers(1, 7))
    bl = m + 4 + draw(st.one_of(st.integers(0, 6), st.integers(0, 300)))
    n = draw(st.one_of(around([bl * j for j in range(1, 12)]), st.integers(bl, 4096 + bl)))
    return case('OverlappingTemplateMatching', draw(s_string(st.just(max(n, bl)), fams)),
                {'tm': m, 'bl': bl})
  return s()


def strat_serial_apen(tier):
  hi = 1 << 14
  pw = [1 << k for k in range(3, 15)]
  @st.composite
  def s(draw):
    t = draw(st.sampled_from(['Serial', 'ApproximateEntropy']))
    kind = draw(st.sampled_from(['default', 'default', 'explicit', 'fastpath']))
    fams = GENERAL + ['debruijn', 'debruijn', 'period']
    if kind == 'default':
      ts = pw + ([1 << 16] if tier == 'thorough' or draw(st.integers(0, 9)) == 0 else [])
      n = draw(st.one_of(around(ts), st.integers(3, 400), st.integers(3, hi)))
      return case(t, draw(s_string(st.just(n), fams)))
    if kind == 'explicit':
      mm = draw(st.integers(2, 10))
      n = draw(st.one_of(st.integers(mm + 1, 200), st.integers(mm + 1, hi)))
      return case(t, draw(s_string(st.just(n), fams)), {'mmax': mm})
    # around the bound 50 * 2^m < n of FrequencyCount's fast path (m = mmax resp. mmax + 1)
    mm = draw(st.integers(2, 7))
    m_count = mm if t == 'Serial' else mm + 1
    n = 50 * 2 ** m_count + draw(st.integers(-2, 9))
    return case(t, draw(s_string(st.just(n), fams)), {'mmax': mm})
  return s()


def strat_walk(tier):
  hi = 1 << 14 if tier == 'quick' else 1 << 16
  @st.composite
  def s(draw):
    fam = draw(st.sampled_from(['rand', 'rand', 'onesided', 'onesided', 'endext', 'endext', 'revert',
                                'revert', 'cycles', 'cycles', 'alt0', 'alt1', 'zeros', 'ones',
                                'period', 'runs', 'biased', 'single', 'debruijn']))
    if fam == 'cycles':
      string = {'fam': fam, 'n': 0, 'm': draw(material),
                'p': draw(st.one_of(st.integers(495, 505), st.integers(0, 40),
                                    st.integers(480, 1500))),
                'tail': draw(st.sampled_from([0, 0, 1, 2, 7]))}
    elif fam == 'revert':
      string = draw(s_string(st.one_of(st.integers(1500, hi), around([100])), [fam]))
    else:
      string = draw(s_string(n_strategy([100], hi), [fam]))
    prm = None
    if draw(st.integers(0, 2)) == 0:
      prm = {'ms': draw(st.integers(1, 9)), 'mc': draw(st.integers(1, 8)),
             'mv': draw(st.integers(1, 12))}
    return case('RandomWalk', string, prm)
  return s()


def strat_universal_lc(tier):
  @st.composite
  def s(draw):
    t = draw(st.sampled_from(['UniversalImpl', 'LinearComplexity', 'LinearComplexity',
                              'LinearComplexityImpl', 'LinearComplexityScatter',
                              'LinearComplexityScatter']))
    fams = ['rand', 'rand', 'rand', 'lfsr', 'lfsr', 'zeros', 'ones', 'period', 'blockrep', 'alt0',
            'runs', 'single', 'biased']
    if t == 'UniversalImpl':
      big_l = draw(st.one_of(st.integers(2, 8), st.integers(2, 16)))
      q = draw(st.sampled_from([0, 1, 2 ** big_l, 10 * 2 ** big_l]))
      if big_l > 10 and q > 2 ** big_l:
        q = 2 ** big_l
      k = draw(st.one_of(st.integers(1, 30), st.integers(1, 3000)))
      n = big_l * (q + k) + draw(st.integers(0, big_l - 1))
      string = draw(s_string(st.just(n), fams))
      string['p'] = (big_l - 1) + 16 * draw(st.integers(0, 7))   # blockrep: matching block size
      return case(t, string, {'L': big_l, 'Q': q})
    if t == 'LinearComplexity':
      bs = draw(st.one_of(st.integers(8, 13), st.integers(8, 48)))
      n = draw(st.one_of(around([200 * bs]), st.integers(200 * bs, 200 * bs + 3 * bs),
                         st.integers(200 * bs, 300 * bs)))
      return case(t, draw(s_string(st.just(n), fams)), {'bs': bs})
    if t == 'LinearComplexityImpl':
      bs = draw(st.one_of(st.integers(1, 40), st.integers(1, 300)))
      n = draw(st.integers(bs, bs * 40 + 7))
      return case(t, draw(s_string(st.just(min(n, 6000)), fams)), {'bs': bs})
    step = draw(st.one_of(st.integers(1, 8), st.integers(1, 70)))
    n = draw(st.one_of(st.integers(step, step + 70), st.integers(step, 5000),
                       st.integers(4090, 4400)))
    mb = draw(st.one_of(st.none(), st.none(), st.integers(1, 200)))
    return case(t, draw(s_string(st.just(n), fams)), {'step': step, 'mb': mb})
  return s()


BIG_TESTS = ['Frequency', 'BlockFrequency', 'Runs', 'LongestRuns', 'BinaryMatrixRank', 'Spectral',
             'NonOverlappingTemplateMatching', 'OverlappingTemplateMatching', 'Universal',
             'LinearComplexity', 'Serial', 'ApproximateEntropy', 'RandomWalk',
             'LargeBinaryMatrixRank', 'LinearComplexityScatter']


def strat_big(tier):
  @st.composite
  def s(draw):
    t = draw(st.sampled_from(BIG_TESTS))
    ts = [1 << 20]
    if t == 'LongestRuns':
      ts = [750000, 750000, 1 << 20]
    if t == 'Universal':
      ts = [387840, 904960, 1 << 20]
    if t in ('ApproximateEntropy', 'Serial'):
      ts = [1 << 20, 1 << 16]
    n = draw(around(ts))
    fam = draw(st.sampled_from(['rand', 'rand', 'rand', 'rand', 'biased', 'revert', 'period',
                                'longrun', 'lfsr', 'blockrep']))
    string = {'fam': fam, 'n': n, 'm': draw(material), 'p': draw(st.integers(0, 999))}
    prm = None
    if t == 'LinearComplexity':
      prm = {'bs': draw(st.sampled_from([512, 1024, 2048, 4096, 5000, 5242]))}
    if t == 'LinearComplexityScatter':
      prm = {'step': draw(st.sampled_from([32, 64, 128])), 'mb': draw(st.sampled_from([300, 1000, 2500]))}
    return case(t, string, prm)
  return s()


# ---------------------------------------------------------------- exhaustive short strings

def _short_param_sets(n):
  """(test, params) pairs applicable to every string of length n (n <= 16)."""
  out = [('Frequency', None), ('Runs', None), ('Spectral', None), ('RandomWalk', None),
         ('RandomWalk', {'ms': 1, 'mc': 2, 'mv': 2})]
  if n >= 2:
    out.append(('Serial', None))
    for mm in range(2, min(n, 4) + 1):
      out.append(('Serial', {'mmax': mm}))
  if n >= 3:
    out.append(('ApproximateEntropy', None))
    for mm in range(2, min(n - 1, 3) + 1):
      out.append(('ApproximateEntropy', {'mmax': mm}))
  for m in sorted({1, 2, 3, max(1, n // 2), n}):
    if m <= n:
      out.append(('BlockFrequencyImpl', {'M': m}))
  for r, c, k in ((1, 1, 1), (2, 2, 1), (2, 2, 2), (2, 3, 2), (3, 3, 2), (3, 4, 3)):
    if n >= r * c:
      out.append(('BinaryMatrixRank', {'r': r, 'c': c, 'k': k, 'check_size': False}))
  for nb, m in ((1, 2), (2, 2), (1, 3), (3, 2), (2, 3)):
    if n // nb >= m:
      out.append(('NonOverlappingTemplateMatching', {'blocks': nb, 'tm': m}))
  for m, bl in ((1, 5), (2, 6), (2, 7), (3, 7)):
    if n >= bl:
      out.append(('OverlappingTemplateMatching', {'tm': m, 'bl': bl}))
  for big_l, q in ((2, 0), (2, 1), (3, 2)):
    if n // big_l - q >= 1:
      out.append(('UniversalImpl', {'L': big_l, 'Q': q}))
  for bs in sorted({n, max(1, n // 2), max(1, n // 3)}):
    out.append(('LinearComplexityImpl', {'bs': bs}))
  for step in (1, 2, 3):
    if n >= step:
      out.append(('LinearComplexityScatter', {'step': step, 'mb': None}))
  return out


def enum_short(tier):
  nmax = 12 if tier == 'quick' else 16
  for n in range(1, nmax + 1):
    sets = _short_param_sets(n)
    for v in range(1 << n):
      s = {'fam': 'lit', 'n': n, 'bits': v}
      yield {'t': [t for t, _ in sets], 'sets': [p for _, p in sets], 's': s}


def run_short(desc):
  """All applicable tests on one short literal string; every test is evaluated even if
  an earlier one hits a (known) finding - the first unlisted violation is raised."""
  bits, n = make_string(desc['s'])
  b = R.bitlist(bits, n)
  if n <= 64 and b != [(bits >> i) & 1 for i in range(n)]:
    raise AssertionError('bitlist self-check')
  cls = ['fam=lit', 'n<=16', 'exhaustive-short']
  found = []
  for t, prm in zip(desc['t'], desc['sets']):
    try:
      CHECKERS[t](bits, n, b, prm or {}, cls)
    except Violation as v:
      found.append(v)
  if found:
    unlisted = [v for v in found if not any(p('short_exhaustive', desc, v) for p in PREDICATES.values())]
    raise (unlisted or found)[0]
  const = is_constant(bits, n)
  return {'nt': not const, 'cls': cls + (['constant-string'] if const else []), 'n': n}


# ---------------------------------------------------------------- minimum sizes

def enum_minsize(tier):
  fams = ['rand', 'ones', 'alt0', 'zeros']
  def around_(t, d=2):
    return [x for x in range(t - d, t + d + 1) if x >= 1]
  k = 0
  def mk(test, n, fam, prm=None):
    nonlocal k
    k += 1
    return case(test, {'fam': fam, 'n': n, 'm': k, 'p': k}, prm)
  for fam in fams:
    for n in around_(100):
      yield mk('BlockFrequency', n, fam)
    for n in around_(128):
      yield mk('LongestRuns', n, fam)
    for n in around_(4096):
      yield mk('LargeBinaryMatrixRank', n, fam)
    for n in around_(32, 3):
      yield mk('NonOverlappingTemplateMatching', n, fam)
    for nb in (1, 3, 8, 11):
      for n in around_(4 * nb, 2):
        yield mk('NonOverlappingTemplateMatching', n, fam, {'blocks': nb})
    for r, c, k_ in ((2, 2, 1), (3, 3, 2), (3, 5, 2), (8, 8, 3), (6, 8, 3)):
      for n in around_(38 * r * c):
        yield mk('BinaryMatrixRank', n, fam, {'r': r, 'c': c, 'k': k_, 'check_size': True})
      for n in around_(r * c):
        yield mk('BinaryMatrixRank', n, fam, {'r': r, 'c': c, 'k': k_, 'check_size': False})
    for bs in (10, 11, 16, 33):
      for n in around_(200 * bs):
        yield mk('LinearComplexity', n, fam, {'bs': bs})
    for bs in (8, 9):
      for n in (200 * bs, 4000):
        yield mk('LinearComplexity', n, fam, {'bs': bs})
  for fam in fams[:3]:
    for n in around_(38912):
      yield mk('BinaryMatrixRank', n, fam)
  for fam in (fams[:2] if tier == 'quick' else fams):
    for n in around_(387840, 1 if tier == 'quick' else 2):
      yield mk('Universal', n, fam)


# ---------------------------------------------------------------- metamorphic relations

def _complement(bits, n):
  return bits ^ ((1 << n) - 1)


def _reverse(bits, n):
  return int(format(bits, '0%db' % n), 2) if n == 0 else int(format(bits, '0%db' % n)[::-1], 2)


def _rotate(bits, n, r):
  r %= n
  s = format(bits, '0%db' % n)
  s = s[r:] + s[:r]
  return int(s, 2)


def _same(rel, test, a, b, **ctx):
  if not (is_number(a) and is_number(b)) or a != a or b != b:
    return   # nan / shape problems are judged by the p-value arms
  if not (abs(a - b) <= TOL_ABS + TOL_REL * max(abs(a), abs(b))):
    raise Violation('metamorphic:%s:%s' % (rel, test), original=float(a), transformed=float(b), **ctx)


def _lib(fn, *args):
  try:
    return libcall(fn, *args, expect=(INSUFF,))
  except INSUFF:
    return None


def run_metamorphic(desc):
  bits, n = make_string(desc['s'])
  rel = desc['rel']
  cls = string_labels(desc['s']['fam'], n, bits) + ['rel=' + rel]
  const = is_constant(bits, n)
  if n < 1:
    return {'nt': False, 'cls': cls}
  if rel == 'complement':
    tb = _complement(bits, n)
  elif rel == 'reverse':
    tb = _reverse(bits, n)
  else:
    tb = _rotate(bits, n, desc['rot'])
  ctx = dict(n=n, bits=bits if n <= 128 else None)
  def pair(fn, *extra):
    return _lib(fn, bits, n, *extra), _lib(fn, tb, n, *extra)
  a, b_ = pair(N.Frequency)
  _same(rel, 'Frequency', a, b_, **ctx)
  mm = desc.get('mmax')
  for fn, lo in ((N.Serial, 2), (N.ApproximateEntropy, 3)):
    if n >= max(lo, (mm or 0) + lo - 2):
      a, b_ = pair(fn, mm) if mm else pair(fn)
      a, b_ = dict(a), dict(b_)
      if list(a) != list(b_):
        raise Violation('metamorphic:%s:%s:names' % (rel, fn.__name__), **ctx)
      for k in a:
        _same(rel, fn.__name__, a[k], b_[k], name=k, **ctx)
  if rel in ('complement', 'reverse'):
    if not const:
      a, b_ = pair(N.Runs)
      _same(rel, 'Runs', a, b_, **ctx)
    info = {}
    if n <= 2048:
      R.spectral(R.bitlist(bits, n), info)
    if n <= 2048 and not info['near']:
      a, b_ = pair(N.Spectral)
      _same(rel, 'Spectral', a, b_, **ctx)
    a, b_ = dict(_lib(N.RandomWalk, bits, n)), dict(_lib(N.RandomWalk, tb, n))
    f, r = 'cumulative sums forward', 'cumulative sums reverse'
    if rel == 'complement':
      _same(rel, 'RandomWalk:forward', a[f], b_[f], **ctx)
      _same(rel, 'RandomWalk:reverse', a[r], b_[r], **ctx)
      for k in a:
        if k.startswith('random excursions'):
          head, x = k.rsplit(' ', 1)
          k2 = '%s %d' % (head, -int(x))
          if k2 not in b_:
            raise Violation('metamorphic:complement:RandomWalk:names', name=k, **ctx)
          _same(rel, 'RandomWalk:excursions', a[k], b_[k2], name=k, **ctx)
      if len(a) != len(b_):
        raise Violation('metamorphic:complement:RandomWalk:names', **ctx)
      if len(a) > 2:
        cls.append('excursions-evaluated')
    else:
      _same(rel, 'RandomWalk:forward<->reverse', a[f], b_[r], **ctx)
      _same(rel, 'RandomWalk:reverse<->forward', a[r], b_[f], **ctx)
  if rel == 'complement':
    a, b_ = pair(N.BlockFrequency)
    if (a is None) != (b_ is None):
      raise Violation('metamorphic:complement:BlockFrequency:insufficient', **ctx)
    if a is not None:
      _same(rel, 'BlockFrequency', a, b_, **ctx)
    big_l = desc.get('L', 3)
    if n // big_l >= 2:
      a, b_ = pair(N.UniversalImpl, big_l, min(desc.get('Q', 1), n // big_l - 1))
      _same(rel, 'UniversalImpl', a, b_, **ctx)
    m = desc.get('tm', 3)
    nb = desc.get('blocks', 2)
    if n // nb >= m:
      ap = R.aperiodic_templates(m)
      a = dict(_lib(N.NonOverlappingTemplateMatching, bits, n, nb, m, ap))
      comp = [t ^ ((1 << m) - 1) for t in ap]
      b_ = dict(_lib(N.NonOverlappingTemplateMatching, tb, n, nb, m, comp))
      for t, tc in zip(ap, comp):
        _same(rel, 'NonOverlappingTemplateMatching', a[_template_label(t, m)],
              b_[_template_label(tc, m)], template=t, **ctx)
  return {'nt': not const and n >= 8, 'cls': cls, 'n': n}


def strat_metamorphic(tier):
  hi = 1 << 13 if tier == 'quick' else 1 << 15
  @st.composite
  def s(draw):
    rel = draw(st.sampled_from(['complement', 'reverse', 'rotate']))
    fam = draw(st.sampled_from(GENERAL + ['revert', 'revert']))
    if fam == 'revert':
      n_st = st.integers(1500, hi)
    else:
      n_st = st.one_of(st.integers(1, 64), st.integers(1, 600), st.integers(1, hi), around([100, 128]))
    d = {'rel': rel, 's': draw(s_string(n_st, [fam]))}
    if rel == 'rotate':
      d['rot'] = draw(st.one_of(st.integers(1, 9), st.integers(1, hi)))
    if draw(st.booleans()):
      d['mmax'] = draw(st.integers(2, 7))
    d['L'] = draw(st.integers(2, 6))
    d['Q'] = draw(st.integers(0, 20))
    d['tm'] = draw(st.integers(2, 5))
    d['blocks'] = draw(st.integers(1, 9))
    return d
  return s()


# ---------------------------------------------------------------- embedded tables

NIST_EXCURSION_TABLE = {   # section 3.14, printed to 4 decimals
    1: [0.5000, 0.2500, 0.1250, 0.0625, 0.0312, 0.0312],
    2: [0.7500, 0.0625, 0.0469, 0.0352, 0.0264, 0.0791],
    3: [0.8333, 0.0278, 0.0231, 0.0193, 0.0161, 0.0804],
    4: [0.8750, 0.0156, 0.0137, 0.0120, 0.0105, 0.0733],
    5: [0.9000, 0.0100, 0.0090, 0.0081, 0.0073, 0.0656],
    6: [0.9167, 0.0069, 0.0064, 0.0058, 0.0053, 0.0588],
    7: [0.9286, 0.0051, 0.0047, 0.0044, 0.0041, 0.0531],
}


def _capture_chisquare(fn, *args):
  """Runs fn with nist_suite.ChiSquare wrapped; returns the (count, prob, k) it was given."""
  seen = []
  orig = N.ChiSquare
  def spy(count, prob, k=None):
    seen.append((list(count), [float(x) for x in prob], k))
    return orig(count, prob, k)
  N.ChiSquare = spy
  try:
    libcall(fn, *args)
  finally:
    N.ChiSquare = orig
  if len(seen) != 1:
    raise Violation('table:capture', calls=len(seen), fn=fn.__name__)
  return seen[0]


def _cmp_table(clause, lib, exact, unit, **ctx):
  exact = [float(x) for x in exact]
  lib = [float(x) for x in lib]
  if len(lib) != len(exact):
    raise Violation(clause, library=lib, exact=exact, why='length', **ctx)
  for i, (a, e) in enumerate(zip(lib, exact)):
    u = unit[i] if isinstance(unit, list) else unit
    if not abs(a - e) <= u * 1.0000001:
      raise Violation(clause, library=lib, exact=exact, index=i, unit=u, **ctx)


def run_table(desc):
  kind = desc['table']
  cls = ['table=' + kind]
  if kind == 'longestruns':
    minn, m, lo, hi, printed = [p for p in R.LONGEST_RUN_PARAMS if p[1] == desc['M']][0]
    _, prob, k = _capture_chisquare(N.LongestRuns, Material(desc['M'], 'tbl').bits(minn), minn)
    if k != hi - lo:
      raise Violation('table:longestruns-dof', M=m, got=k)
    exact = R.longest_run_distribution_exact(m, lo, hi)
    _cmp_table('table:longestruns-%d' % m, prob, exact, 1e-4, M=m, nist_printed=printed)
  elif kind == 'rank':
    r, c, k, approx = desc['r'], desc['c'], desc['k'], desc['approx']
    lib = libcall(N.RankDistribution, r, c, k, approx)
    exact = R.rank_distribution_exact(r, c, k)
    pre = approx and r == c and r >= 31 and k <= 5
    unit = 1e-8 if pre else [1e-12 + 1e-9 * float(x) for x in exact]
    _cmp_table('table:rank-distribution', lib, exact, unit, r=r, c=c, k=k, approx=approx)
    cls.append('rank-precomputed' if pre else 'rank-computed')
  elif kind == 'overlapping':
    n, m, k = desc['n'], desc['m'], desc['k']
    lib = libcall(N.OverlappingTemplateMatchingDistribution, n, m, k)
    exact = R.overlapping_distribution_exact(n, m, k)
    _cmp_table('table:overlapping-distribution', lib, exact, 1e-10, n=n, m=m, k=k)
  elif kind == 'universal':
    big_l = desc['L']
    kk = desc['K']
    mean, std = libcall(N.UniversalDistribution, big_l, kk)
    c = 0.7 - 0.8 / big_l + (4 + 32.0 / big_l) * kk ** (-3.0 / big_l) / 15
    var = (std / c) ** 2 * kk
    e, v = R.universal_exact_moments(big_l)
    pm, pv = R.UNIVERSAL_TABLE[big_l]
    unit_mean = 1e-7 if big_l <= 10 else 1e-6
    _cmp_table('table:universal-expected-value', [mean], [e], unit_mean, L=big_l)
    _cmp_table('table:universal-variance', [var], [v], 1e-3 + 1e-9, L=big_l)
    # the transcription used by the reference must satisfy the same bound
    if abs(pm - e) > unit_mean * 1.0000001 or abs(pv - v) > 1e-3:
      raise AssertionError('reference transcription of the Universal table is off for L=%d' % big_l)
  elif kind == 'excursions':
    x, mc = desc['x'], desc['mc']
    lib = libcall(N.RandomExcursionsDistribution, x, mc)
    exact = R.excursion_probabilities(x, mc)
    _cmp_table('table:excursion-distribution', lib, exact, 1e-13, x=x, max_cnt=mc)
    if mc == 5 and abs(x) in NIST_EXCURSION_TABLE:
      _cmp_table('table:excursion-distribution-vs-printed', lib, NIST_EXCURSION_TABLE[abs(x)], 1e-4, x=x)
  elif kind == 'lc-pi':
    m = desc['m']
    blocks = [Material(i, 'lcpi').bits(m) for i in range(3)]
    _, prob, k = _capture_chisquare(N.LinearComplexityImpl, blocks, m)
    if k != 6:
      raise Violation('table:linear-complexity-dof', got=k)
    # exact distribution of T for block length m, classes of section 2.10.4
    med = (m + 1) // 2
    exact = [Fraction(0)] * 7
    for big_l in range(m + 1):
      pr = Fraction(R.linear_complexity_count(m, big_l), 1 << m)
      d = big_l - med
      d = d if m % 2 == 0 else -d       # T = (-1)^m (L - mu) + 2/9
      exact[0 if d <= -3 else 6 if d >= 3 else d + 3] += pr
    if m % 2:
      # the library indexes classes by L - median; bring the exact vector into that order
      exact = exact[::-1]
    _cmp_table('table:linear-complexity-pi', prob, exact, 1e-6, m=m)
  elif kind == 'rank-sf':
    tab = list(X.ASYMPTOTIC_RANK_SF)
    exact = R.asymptotic_rank_sf(len(tab) - 1)
    unit = [10.0 ** (math.floor(math.log10(float(e))) - 5) if e > 0 else 0.0 for e in exact]
    _cmp_table('table:asymptotic-rank-sf', tab, exact, unit)
  elif kind == 'lfsr-logprob':
    n = desc['n']
    cnt = [0] * (n + 1)
    for v in range(1 << n):
      cnt[R.linear_complexity(R.bitlist(v, n))] += 1
    for big_l in range(n + 1):
      lp = libcall(bm.LfsrLogProbability, n, big_l)
      if Fraction(cnt[big_l], 1 << n) != Fraction(2) ** lp:
        raise Violation('table:lfsr-log-probability', n=n, L=big_l, got=lp, count=cnt[big_l])
      if libcall(bm.LfsrCount, n, big_l) != cnt[big_l]:
        raise Violation('table:lfsr-count', n=n, L=big_l, count=cnt[big_l])
    cls.append('exhaustive-bm-distribution')
  else:
    raise ValueError(kind)
  return {'nt': True, 'cls': cls}


def enum_tables(tier):
  for m in (8, 128, 10000):
    yield {'table': 'longestruns', 'M': m}
  for r, c, k in ((32, 32, 3), (32, 32, 2), (31, 31, 5), (32, 32, 5), (64, 64, 3), (33, 33, 1),
                  (3, 3, 2), (6, 8, 3), (8, 8, 3), (10, 12, 4), (30, 30, 3), (1, 1, 1), (5, 9, 5),
                  (32, 32, 6), (32, 33, 3), (40, 40, 4)):
    for approx in (True, False):
      yield {'table': 'rank', 'r': r, 'c': c, 'k': k, 'approx': approx}
  for n, m, k in ((1032, 9, 5), (10, 2, 5), (7, 2, 5), (18, 3, 5), (35, 4, 5), (68, 5, 5),
                  (133, 6, 5), (262, 7, 5), (519, 8, 5), (2057, 10, 5), (391, 8, 5), (1033, 9, 5),
                  (9, 2, 3), (40, 1, 7)):
    yield {'table': 'overlapping', 'n': n, 'm': m, 'k': k}
  for big_l in range(1, 17):
    yield {'table': 'universal', 'L': big_l, 'K': 1000 * big_l + 7}
  for x in list(range(-9, 0)) + list(range(1, 10)):
    for mc in (5, 1, 2, 4, 8):
      yield {'table': 'excursions', 'x': x, 'mc': mc}
  for m in (24, 25, 30, 31, 64, 101, 500, 1001):
    yield {'table': 'lc-pi', 'm': m}
  yield {'table': 'rank-sf'}
  for n in range(1, 13 if tier == 'quick' else 17):
    yield {'table': 'lfsr-logprob', 'n': n}


# ---------------------------------------------------------------- known findings (predicates)

NIST_LR_10000 = [0.0882, 0.2092, 0.2483, 0.1933, 0.1208, 0.0675, 0.0727]


def _pred_f10(arm, desc, v):
  return (arm == 'tables' and v.clause == 'table:longestruns-10000'
          and v.detail.get('library') == NIST_LR_10000)


PREDICATES = {'F10': _pred_f10}

KNOWN = {
    'F10': _pred_f10,
}


ARMS = [
    Arm('tables', run_table, enumerate=enum_tables, exhaustive=True, weight=5,
        doc='embedded probability tables vs exact derivations'),
    Arm('big', run_case, strategy=strat_big, quick=64, thorough=480, budget=(150, 1500), weight=4,
        doc='strings of about 2^20 bits (and 387840, 750000, 904960 +-2), one default test each'),
    Arm('short_exhaustive', run_short, enumerate=enum_short, exhaustive=True, weight=3,
        budget=(150, 1500), doc='every bit string of length 1..12 (quick) / 1..16 (thorough)'),
    Arm('minsize', run_case, enumerate=enum_minsize, exhaustive=True, weight=2,
        doc='InsufficientDataError exactly below each documented minimum (+-2 around it)'),
    Arm('spectral', run_case, strategy=strat_spectral, quick=700, thorough=6000, weight=2),
    Arm('basic', run_case, strategy=strat_basic, quick=4000, thorough=40000),
    Arm('rank', run_case, strategy=strat_rank, quick=1500, thorough=15000),
    Arm('templates', run_case, strategy=strat_templates, quick=2000, thorough=20000),
    Arm('serial_apen', run_case, strategy=strat_serial_apen, quick=2500, thorough=25000),
    Arm('walk', run_case, strategy=strat_walk, quick=2500, thorough=25000),
    Arm('universal_lc', run_case, strategy=strat_universal_lc, quick=1800, thorough=18000),
    Arm('metamorphic', run_metamorphic, strategy=strat_metamorphic, quick=2500, thorough=25000),
]
