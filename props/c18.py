"""C18 - checks are total on well-formed batches."""

from hypothesis import strategies as st

from gens import artifacts as art
from gens import ecdsa_gen as eg
from gens import rsa_families as fam
from gens.common import Material, material
from harness.core import Arm, Violation, libcall

from paranoid_crypto.lib import paranoid
from paranoid_crypto.lib import ec_aggregate_checks
from paranoid_crypto.lib import ec_single_checks
from paranoid_crypto.lib import ecdsa_sig_checks as sc
from paranoid_crypto.lib import rsa_aggregate_checks
from paranoid_crypto.lib import rsa_single_checks

ID = 'C18'
TITLE = 'Checks are total on well-formed batches'
RULE = (
    'Batches of size 0, 1, 2 and 3-8 of well-formed artifacts: RSA keys with moduli >= 2^63 from every '
    'degenerate class (prime, prime square, even, power of two, 2^k+-1, smooth, squares, odd and even bit '
    'lengths) and healthy/weak ones, any exponent incl. the empty encoding; EC keys with every curve id '
    'class (9 prime curves, 10 binary-field ids, 0, out-of-enum ids) and coordinates from {0, 1, p-1, p, '
    'p+x, valid, negated, off-curve, 8..5000-bit random, empty}; ECDSA signatures with r, s in [1, n-1] '
    '(valid, (1,1), (n-1,n-1), random, r=s), digests of 0-64 bytes, valid or invalid issuer keys, unknown '
    'curves, duplicates. Every all-checks entry point and every individual check class is called. Oracle: '
    'returns a bool, raises nothing. Failures are bucketed by (exception type, innermost library frame). '
    'Non-trivial: the batch contains a degenerate element or leaves some curve partition empty or is '
    'empty; distinct by descriptor hash.')
ASSUMPTIONS = [
    'CheckECKeySmallDifference in the all-checks factory is replaced by an instance with max_diff = 2^10 '
    '(documented constructor parameter; the default 2^24 table needs 85 s and 3.3 GB per curve); the default '
    'instance is constructed but not run',
    'CheckLowHammingWeight in the all-checks factory is bounded to 20000 search steps (documented parameter of rsa_util.CheckLowHammingWeight)',
]
TECHNIQUE = 'property-based testing (Hypothesis) of totality: every check x degenerate / adversarial well-formed batches; exceptions bucketed by root cause'

from props.c01 import _LowHW  # bounded-step variant of the same check class (same recording path)


def _install_cheap_factory():
  paranoid.GetECAllChecks()
  paranoid.GetRSAAllChecks()
  cur = paranoid._check_factory[paranoid._EC_ALL].get('CheckECKeySmallDifference')
  if cur is None or getattr(cur, '_max_diff', None) != 2**10:
    c = ec_aggregate_checks.CheckECKeySmallDifference(max_diff=2**10)
    for k in (paranoid._EC_ALL, paranoid._EC_AGGREGATES):
      paranoid._check_factory[k]['CheckECKeySmallDifference'] = c
  if not isinstance(paranoid._check_factory[paranoid._RSA_ALL].get('CheckLowHammingWeight'), _LowHW):
    c = _LowHW(20000)
    for k in (paranoid._RSA_ALL, paranoid._RSA_SINGLES):
      paranoid._check_factory[k]['CheckLowHammingWeight'] = c


def _expect_bool(ret, clause, **ctx):
  if not isinstance(ret, bool):
    raise Violation(clause + ':not-bool', got=repr(ret)[:80], **ctx)


# ---------------------------------------------------------------- RSA

RSA_SINGLE = ['CheckSizes', 'CheckExponents', 'CheckROCA', 'CheckROCAVariant', 'CheckFermat',
              'CheckHighAndLowBitsEqual', 'CheckOpensslDenylist', 'CheckContinuedFractions',
              'CheckBitPatterns', 'CheckPermutedBitPatterns', 'CheckPollardpm1',
              'CheckLowHammingWeight', 'CheckUnseededRand', 'CheckSmallUpperDifferences',
              'CheckKeypairDenylist']
_RSA_INST = {}


def _rsa_check(name):
  if name not in _RSA_INST:
    if name == 'CheckLowHammingWeight':
      _RSA_INST[name] = _LowHW(20000)
    elif name in ('CheckGCD', 'CheckGCDN1'):
      _RSA_INST[name] = getattr(rsa_aggregate_checks, name)()
    else:
      _RSA_INST[name] = getattr(rsa_single_checks, name)()
  return _RSA_INST[name]


def _rsa_modulus(spec, mat):
  kind, bits, k = spec
  bits = max(64, bits)
  if kind == 'healthy':
    p, q = fam.healthy(mat, max(66, bits))
    return p * q
  if kind == 'odd_random':
    return mat.odd(bits)
  if kind == 'random':
    return mat.bits(bits) | (1 << (bits - 1))
  if kind == 'small_edge':
    return [2**63, 2**63 + 1, 2**64 - 1, 2**64, 2**64 + 1, 2**63 + 2][k % 6]
  if kind == 'lowhw':
    return ((1 << (bits - 1)) | (1 << (k % (bits - 1))) | 1)
  if kind == 'pattern':
    w = 1 + k % 64
    word = 1 + mat.bits(w)
    return fam.repeat_word(word % (1 << w) or 1, w, bits) | (1 << (bits - 1))
  return fam.degenerate(mat, kind, bits)


RSA_KINDS = ('healthy', 'odd_random', 'random', 'small_edge', 'lowhw', 'pattern') + fam.DEGENERATE_KINDS


def run_rsa(desc):
  _install_cheap_factory()
  mat = Material(desc['m'], 'c18r')
  keys = []
  degenerate = False
  for spec in desc['keys']:
    n = _rsa_modulus(spec['n'], mat)
    degenerate |= spec['n'][0] not in ('healthy',)
    e = [65537, 3, 1, 0, 2**64 + 1, mat.bits(2048) | 1, 65537][spec['e'] % 7]
    k = art.rsa_key(n, e, pad_n=spec['pad'], pad_e=spec['pad'] % 2)
    if spec['e'] % 7 == 3:
      k.rsa_info.e = b''
    keys.append(k)
  for i in desc.get('dups', []):
    if keys:
      c = type(keys[0])()
      c.CopyFrom(keys[i % len(keys)])
      keys.append(c)
  target = desc['target']
  if target == 'ALL':
    ret = libcall(paranoid.CheckAllRSA, keys)
  elif target == 'ALL_log':
    ret = libcall(paranoid.CheckAllRSA, keys, 1)
  else:
    ret = libcall(_rsa_check(target).Check, keys)
  _expect_bool(ret, 'rsa', target=target)
  return {'nt': degenerate or len(keys) == 0, 'cls': ['rsa target=' + target, 'rsa size=%s' % (
      len(keys) if len(keys) < 3 else '3+')] + ['rsa kind=' + s['n'][0] for s in desc['keys'][:3]]}


def strat_rsa(tier):
  maxbits = 1024 if tier == 'quick' else 4096
  nspec = st.tuples(st.sampled_from(RSA_KINDS), st.sampled_from([64, 65, 66, 67, 127, 128, 129, 255, 256, 512,
                                                                 1023, maxbits]),
                    st.integers(0, 10**6)).map(list)
  key = st.fixed_dictionaries({'n': nspec, 'e': st.integers(0, 6), 'pad': st.sampled_from([0, 0, 1, 4])})
  return st.fixed_dictionaries({
      'm': material, 'keys': st.lists(key, min_size=0, max_size=6),
      'dups': st.lists(st.integers(0, 5), max_size=2),
      'target': st.sampled_from(RSA_SINGLE * 2 + ['CheckGCD', 'CheckGCDN1'] * 3 + ['ALL', 'ALL', 'ALL_log'])})


# ---------------------------------------------------------------- EC

CURVE_IDS = eg.PRIME_CURVES + eg.BINARY_CURVES + [0, 20, 21, 100, 2**31 - 1, -1]
_EC_INST = {}


def _ec_check(name):
  if name not in _EC_INST:
    if name == 'CheckECKeySmallDifference':
      _EC_INST[name] = ec_aggregate_checks.CheckECKeySmallDifference(max_diff=2**10)
    else:
      _EC_INST[name] = getattr(ec_single_checks, name)()
  return _EC_INST[name]


def _coords(spec, cid, mat, base=None):
  """Coordinates for a key spec on curve id `cid` (ints >= 0)."""
  kind, k = spec
  if cid in eg.CURVE_NAMES:
    rc = eg.ref(cid)
    p, n = rc.p, rc.n
    if kind in ('valid', 'neg', 'xp', 'yp', 'xyp', 'off', 'near') or base is None:
      d = 1 + mat.below(n - 1)
      if kind == 'near' and base is not None:
        d = (base + [1, 2, 1023, 1024, 1025][k % 5]) % n or 1
      P = eg.mul_g(cid, d)
    else:
      P = (0, 0)
      d = None
    x, y = P
    if kind == 'neg':
      y = (-y) % p
    elif kind == 'xp':
      x += p
    elif kind == 'yp':
      y += p
    elif kind == 'xyp':
      x += p * (1 + k % 3)
      y += p * (1 + k % 2)
    elif kind == 'off':
      y = (y + 1 + k % 5) % p
    elif kind == 'zero':
      x, y = 0, 0
    elif kind == 'one':
      x, y = 1, 1
    elif kind == 'pm1':
      x, y = p - 1, p - 1
    elif kind == 'p':
      x, y = p, p
    elif kind == 'x0':
      x, y = 0, [0, 1, p - 1, mat.below(p)][k % 4]
    elif kind == 'y0':
      x, y = mat.below(p), 0
    elif kind == 'random':
      x, y = mat.below(p), mat.below(p)
    elif kind == 'huge':
      b = [8, 64, 521, 1000, 5000][k % 5]
      x, y = mat.bits(b), mat.bits(b)
    return x, y, d
  if kind == 'zero':
    return 0, 0, None
  b = [8, 163, 233, 283, 409, 571, 1000][k % 7]
  return mat.bits(b), mat.bits(b), None


EC_KINDS = ('valid', 'valid', 'neg', 'xp', 'yp', 'xyp', 'off', 'zero', 'one', 'pm1', 'p', 'x0', 'y0',
            'random', 'huge', 'near')


def _ec_batch(desc, mat):
  keys = []
  degenerate = False
  last_d = {}
  for spec in desc['keys']:
    cid = CURVE_IDS[spec['curve'] % len(CURVE_IDS)]
    kind = EC_KINDS[spec['kind'] % len(EC_KINDS)]
    x, y, d = _coords((kind, spec['k']), cid, mat, last_d.get(cid))
    if d is not None:
      last_d[cid] = d
    degenerate |= kind not in ('valid', 'near') or cid not in eg.CURVE_NAMES
    k = art.ec_key(cid, x, y, pad=spec['pad'])
    if kind == 'zero' and spec['k'] % 2:
      k.ec_info.x = b''
      k.ec_info.y = b''
    keys.append(k)
  for i in desc.get('dups', []):
    if keys:
      c = type(keys[0])()
      c.CopyFrom(keys[i % len(keys)])
      keys.append(c)
  return keys, degenerate


def run_ec(desc):
  _install_cheap_factory()
  mat = Material(desc['m'], 'c18e')
  keys, degenerate = _ec_batch(desc, mat)
  target = desc['target']
  if target == 'ALL':
    ret = libcall(paranoid.CheckAllEC, keys)
  else:
    ret = libcall(_ec_check(target).Check, keys)
  _expect_bool(ret, 'ec', target=target)
  return {'nt': degenerate or not keys, 'cls': ['ec target=' + target, 'ec size=%s' % (
      len(keys) if len(keys) < 3 else '3+')] + ['ec kind=' + EC_KINDS[s['kind'] % len(EC_KINDS)]
                                                for s in desc['keys'][:3]]}


def strat_ec(tier):
  key = st.fixed_dictionaries({'curve': st.one_of(st.integers(0, 8), st.integers(0, len(CURVE_IDS) - 1)),
                               'kind': st.integers(0, len(EC_KINDS) - 1), 'k': st.integers(0, 1000),
                               'pad': st.sampled_from([0, 0, 1, 5])})
  return st.fixed_dictionaries({
      'm': material, 'keys': st.lists(key, min_size=0, max_size=6),
      'dups': st.lists(st.integers(0, 5), max_size=2),
      'target': st.sampled_from(['CheckValidECKey', 'CheckWeakCurve'] * 2 +
                                ['CheckECKeySmallDifference'] * 8 + ['CheckWeakECPrivateKey', 'ALL'])})


# ---------------------------------------------------------------- ECDSA

SIG_CHECKS = ['CheckNonceMSB', 'CheckNonceCommonPrefix', 'CheckNonceCommonPostfix', 'CheckNonceGeneralized',
              'CheckCr50U2f', 'CheckLCGNonceGMP']
_SIG_INST = {}


def _sig_check(name):
  if name not in _SIG_INST:
    _SIG_INST[name] = getattr(sc, name)()
  return _SIG_INST[name]


def run_ecdsa(desc):
  _install_cheap_factory()
  mat = Material(desc['m'], 'c18s')
  sigs = []
  degenerate = False
  for spec in desc['issuers']:
    cid = CURVE_IDS[spec['curve'] % len(CURVE_IDS)]
    kind = EC_KINDS[spec['kind'] % len(EC_KINDS)]
    x, y, d = _coords((kind, spec['k']), cid, mat)
    degenerate |= kind != 'valid' or cid not in eg.CURVE_NAMES
    n = eg.ref(cid).n if cid in eg.CURVE_NAMES else (1 << [163, 233, 256, 571][spec['k'] % 4])
    for j in range(spec['nsigs']):
      h = eg.random_hash(mat, [0, 1, 20, 32, 48, 64, 33][(spec['hsel'] + j) % 7])
      mode = (spec['rs'] + j) % 6 if spec['rs'] else 0   # rs == 0: every signature of the issuer is genuine
      if mode == 0 and d is not None and kind == 'valid':
        rs = eg.sign(cid, d, 1 + mat.below(n - 1), h) or (1, 1)
      else:
        rs = [(1, 1), (n - 1, n - 1), (1 + mat.below(n - 1),) * 2,
              (1 + mat.below(n - 1), 1 + mat.below(n - 1)), (1, n - 1), (n - 1, 1)][mode]
      sigs.append(art.ecdsa_sig(cid, x, y, rs[0], rs[1], h, pad=spec['pad']))
  for i in desc.get('dups', []):
    if sigs:
      c = type(sigs[0])()
      c.CopyFrom(sigs[i % len(sigs)])
      sigs.append(c)
  if desc.get('shuffle'):
    sigs = mat.shuffle(sigs)
  target = desc['target']
  if target == 'ALL':
    ret = libcall(paranoid.CheckAllECDSASigs, sigs)
  elif target == 'CheckIssuerKey':
    ret = libcall(sc.CheckIssuerKey().Check, sigs)
  else:
    ret = libcall(_sig_check(target).Check, sigs)
  _expect_bool(ret, 'ecdsa', target=target)
  return {'nt': degenerate or not sigs, 'cls': ['ecdsa target=' + target, 'ecdsa size=%s' % (
      len(sigs) if len(sigs) < 3 else '3+')] + ['ecdsa issuer-kind=' + EC_KINDS[s['kind'] % len(EC_KINDS)]
                                                 for s in desc['issuers'][:2]]}


def strat_ecdsa(tier, targets=None):
  issuer = st.fixed_dictionaries({
      'curve': st.one_of(st.integers(0, 8), st.integers(0, len(CURVE_IDS) - 1)),
      'kind': st.one_of(st.just(0), st.integers(0, len(EC_KINDS) - 1)), 'k': st.integers(0, 1000),
      'nsigs': st.one_of(st.integers(1, 4), st.sampled_from([9, 12, 16, 24, 30])),
      'hsel': st.integers(0, 6), 'rs': st.sampled_from([0, 0, 0, 1, 2, 3, 4, 5]),
      'pad': st.sampled_from([0, 0, 2])})
  return st.fixed_dictionaries({
      'm': material, 'issuers': st.lists(issuer, min_size=0, max_size=3),
      'dups': st.lists(st.integers(0, 5), max_size=2), 'shuffle': st.booleans(),
      'target': st.sampled_from(targets or SIG_CHECKS)})


def strat_ecdsa_heavy(tier):
  """Entry point + issuer-key check + Java LCG check: seconds per case."""
  issuer = st.fixed_dictionaries({
      'curve': st.one_of(st.sampled_from([0, 2, 3, 4, 6, 7, 8]), st.integers(0, len(CURVE_IDS) - 1)),
      'kind': st.one_of(st.just(0), st.integers(0, len(EC_KINDS) - 1)), 'k': st.integers(0, 1000),
      'nsigs': st.integers(1, 2), 'hsel': st.integers(0, 6), 'rs': st.integers(0, 5),
      'pad': st.sampled_from([0, 2])})
  return st.fixed_dictionaries({
      'm': material, 'issuers': st.lists(issuer, min_size=0, max_size=2),
      'dups': st.lists(st.integers(0, 5), max_size=1), 'shuffle': st.booleans(),
      'target': st.sampled_from(['ALL', 'CheckIssuerKey', 'CheckIssuerKey', 'CheckLCGNonceJavaUtilRandom'])})


ARMS = [
    Arm('rsa', run_rsa, strategy=strat_rsa, quick=2400, thorough=40000, budget=(170, 2400)),
    Arm('ec', run_ec, strategy=strat_ec, quick=1600, thorough=30000, budget=(170, 2400), weight=2),
    Arm('ecdsa', run_ecdsa, strategy=strat_ecdsa, quick=1600, thorough=30000, budget=(170, 2400)),
    Arm('ecdsa_entry_points', run_ecdsa, strategy=strat_ecdsa_heavy, quick=64, thorough=1500,
        budget=(170, 2400), weight=5),
]
