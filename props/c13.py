"""C13 - the randomness suite passes good generators, fails documented weak ones, by its rule."""

import math
import multiprocessing

import numpy
from hypothesis import strategies as st

from gens.common import Material
from harness.core import Arm, Violation, libcall
from refs import fisher_ref as fr

from paranoid_crypto.lib.randomness_tests import nist_suite
from paranoid_crypto.lib.randomness_tests import random_test_suite as rts
from paranoid_crypto.lib.randomness_tests import rng

ID = 'C13'
TITLE = 'Randomness suite passes good generators, fails documented weak ones, by its rule'
TECHNIQUE = ('model-based histories for the decision structure (mpmath Fisher reference); '
             'seeded weak/good generators for power and validity; binomial tail bound on '
             'the fraction of small p-values')
RULE = (
    '(c) decision / entrypoints: Hypothesis draws a HISTORY = construction levels (fail, repeat, '
    'min_repetitions) and a list of scripted per-run results (float, numpy float, int 0/1, named '
    'list over a pool of 5 names so that names appear and disappear, empty list, '
    'InsufficientDataError) with p-values from {0, 1, fail level, repeat level and their one-ulp '
    'neighbours, 10^-x log-uniform, uniform}; ONE TestStructure is driven through it and after '
    'every Run its state / combined_p_values / finished / return value are compared with '
    'refs/fisher_ref.py (closed-form chi-square survival function with 2k degrees of freedom, 60 '
    'digits; single values, zeros and all-ones exact). Multi-value comparisons within the stated '
    'double-precision error band of a threshold are not asserted (label ambiguous-excluded). '
    'TestSource / TestBitString are run with random_test_suite.TESTS replaced by scripted tests '
    'and a counting source. Non-trivial: a history with >= 2 runs in which a sub-test name is '
    'missing from a later run or a p-value ties exactly with a threshold. '
    '(b) power: every case is the seeded output (seed = SHAKE-256 of the case index) of a '
    'documented weak generator at 2^16..2^22 bits run through TestBitString(test_prefix=...); '
    'all are non-trivial. (a) validity: full-suite runs of shake128 / pcg64 / philox through '
    'both entry points at 2^20 bits (2^22, 2^24 thorough) with per-run facts, and K runs per test '
    'with a binomial bound on #{p <= alpha}; all are non-trivial.')
ASSUMPTIONS = [
    'mpmath exp/log at 60 digits are correct; the closed form exp(-s) sum s^j/j! is the '
    'chi-square survival function for an even number of degrees of freedom',
    'a double-precision Fisher combination may differ from the exact one by the relative error '
    'band stated in refs/fisher_ref.py:Combined.rel_tol (>= 1e-12); values below 1e-290 may underflow',
    'SHAKE128, PCG64 and Philox outputs are indistinguishable from uniform bits for these tests',
    'the statistical validity bound has a false-alarm probability below 1e-9 per aggregate case '
    'if the p-values are valid (P[p <= a] <= a) and runs are independent',
    'power claims are asserted for the generator/size pairs calibrated at design time '
    '(FindBias 6/6 at 2^16 for every named generator) - seeds are fixed by the enumeration',
]

NAMES = ['alpha', 'beta', 'gamma', 'delta', 'eps']
STATE = {rts.State.FAILED: fr.FAILED, rts.State.PASSED: fr.PASSED,
         rts.State.UNDECIDED: fr.UNDECIDED}


# ---------------------------------------------------------------- descriptor expansion

def _clamp(p):
  return min(1.0, max(0.0, p))


def _pvalue(spec, fail, rep):
  """['z'] 0.0 | ['o'] 1.0 | ['F', d] / ['R', d] level moved by d ulps | ['v', x] |
  ['e', x] 10^-x | ['i', 0 or 1] an int."""
  kind = spec[0]
  if kind == 'z':
    return 0.0
  if kind == 'o':
    return 1.0
  if kind == 'i':
    return int(spec[1])
  if kind in ('F', 'R'):
    v = float(fail if kind == 'F' else rep)
    d = spec[1]
    for _ in range(abs(d)):
      v = math.nextafter(v, math.inf if d > 0 else -math.inf)
    return _clamp(v)
  if kind == 'v':
    return _clamp(float(spec[1]))
  if kind == 'e':
    return _clamp(10.0 ** -float(spec[1]))
  raise ValueError(spec)


def _result(run, fail, rep):
  """Expands one scripted run. Returns (what the test function returns or None for
  'raise InsufficientDataError', what the model is fed)."""
  kind = run[0]
  if kind == 'x':
    return 'raise', None
  if kind == 'f':
    p = _pvalue(run[1], fail, rep)
    p = float(p)
    if len(run) > 2 and run[2] == 'np':
      return numpy.float64(p), [('result', p)]
    return p, [('result', p)]
  if kind == 'i':
    return int(run[1]), [('result', int(run[1]))]
  if kind == 'l':
    out = []
    seen = set()
    for idx, spec in run[1]:
      name = NAMES[idx % len(NAMES)]
      if name in seen:
        continue
      seen.add(name)
      out.append((name, _pvalue(spec, fail, rep)))
    return list(out), list(out)
  raise ValueError(run)


class _Scripted:
  """A scripted test function (callable with __name__)."""

  def __init__(self, name, script, fail, rep):
    self.__name__ = name
    self.script = script
    self.fail = fail
    self.rep = rep
    self.calls = []

  def expanded(self, j):
    return _result(self.script[j % len(self.script)], self.fail, self.rep)

  def __call__(self, bits, n, *params):
    j = len(self.calls)
    self.calls.append((bits, n, list(params)))
    ret, _ = self.expanded(j)
    if isinstance(ret, str):
      raise nist_suite.InsufficientDataError('scripted: not enough data')
    return ret


def _values_close(got, comb):
  """Library's combined p-value against the reference value."""
  if isinstance(got, bool) or not isinstance(got, (int, float)):
    return False
  if got != got:
    return False
  if comb.exact:
    return got == comb.value
  ref = comb.value
  tol = 4 * comb.rel_tol()
  return abs(got - ref) <= tol * ref + 1e-300


def _check_structure(ts, model, where):
  """Compares a TestStructure with the model after a run. Undecidable comparisons adopt
  the library's state. Returns the number of adopted states."""
  if set(ts.state) != set(model.state) or set(ts.combined_p_values) != set(model.state):
    raise Violation('structure:names', where=where, got=sorted(ts.state),
                    expected=sorted(model.state))
  adopted = 0
  for name in model.state:
    pv = list(ts.p_values[name])
    if pv != model.p[name]:
      raise Violation('structure:p-values-kept', where=where, name=name, got=pv,
                      expected=model.p[name])
    got = ts.combined_p_values[name]
    comb = model.combined[name]
    if not _values_close(got, comb):
      raise Violation('combined:value', where=where, name=name, pvalues=pv, got=repr(got),
                      expected=repr(comb.as_float()), k=comb.k)
    got_state = STATE.get(ts.state[name])
    if got_state is None:
      raise Violation('structure:state-type', where=where, name=name, got=repr(ts.state[name]))
    if model.state[name] is None:
      model.adopt(name, got_state)
      adopted += 1
    elif got_state != model.state[name]:
      raise Violation('state:' + model.state[name].lower() + '-expected', where=where, name=name,
                      pvalues=pv, got=got_state, combined=repr(got),
                      reference=repr(comb.as_float()), fail=float(model.fail.value),
                      repeat=model.repeat,
                      repeat_combined=repr(fr.combine([model.repeat] * len(pv)).as_float()))
  return adopted


# ---------------------------------------------------------------- (c) decision structure

def run_decision(desc):
  fail, rep, minrep = float(desc['fail']), float(desc['rep']), int(desc['minrep'])
  params = list(desc.get('params', []))
  fn = _Scripted('Scripted', desc['runs'], fail, rep)
  ts = libcall(rts.TestStructure, fn, params, fail, rep, min_repetitions=minrep)
  model = fr.Structure(fail, rep, minrep)
  cls = set()
  seen_names = set()
  disappeared = False
  carried = False
  adopted = 0
  for j in range(len(desc['runs'])):
    bits, n = 0x5A5A + j, 16 + j
    ret, fed = fn.expanded(j)
    ok = libcall(ts.Run, bits, n)
    if fn.calls[-1] != (bits, n, params) or len(fn.calls) != j + 1:
      raise Violation('run:test-call', run=j, got=repr(fn.calls[-1]), expected=repr((bits, n, params)))
    model.run(fed)
    adopted += _check_structure(ts, model, 'run %d' % j)
    expected = model.refresh() if fed is not None else True
    if ts.runs != j + 1:
      raise Violation('run:count', run=j, got=ts.runs)
    if not isinstance(ok, bool):
      raise Violation('run:return-type', run=j, got=repr(ok))
    if ts.finished is not ok:
      raise Violation('run:finished-flag', run=j, returned=ok, finished=repr(ts.finished))
    if expected is not None and ok != expected:
      undec = [k for k, s in model.state.items() if s == fr.UNDECIDED]
      raise Violation('run:finished' if expected else 'run:finished-with-undecided-or-too-few-runs',
                      run=j, got=ok, expected=expected, undecided=undec, runs=j + 1,
                      min_repetitions=minrep)
    exp_failed = model.failed()
    got_failed = libcall(ts.Failed)
    if exp_failed is not None and got_failed is not exp_failed:
      raise Violation('failed', run=j, got=repr(got_failed), expected=exp_failed,
                      states={k: v for k, v in model.state.items()})
    # labels
    if fed is None:
      cls.add('insufficient-data-run')
      if any(s == fr.UNDECIDED for s in model.state.values()):
        cls.add('insufficient-data-while-undecided')
    else:
      now = {nm for nm, _ in fed}
      if not fed:
        cls.add('empty-list-run')
      if seen_names - now:
        disappeared = True
        if any(model.state[nm] == fr.UNDECIDED for nm in seen_names - now):
          carried = True
      seen_names |= now
    if j + 1 < minrep and not any(s == fr.UNDECIDED for s in model.state.values()):
      cls.add('decided-before-min-repetitions')
  ties = model.ties
  if disappeared:
    cls.add('name-disappears')
  if carried:
    cls.add('undecided-carried-over-absent-run(F6)')
  for _, what in ties:
    cls.add('tie-with-%s-level' % what)
  if any(len(v) > 1 for v in model.p.values()):
    cls.add('multi-value-combination')
  if adopted:
    cls.add('ambiguous-excluded')
  for s in set(model.state.values()):
    cls.add('final:' + str(s).lower())
  if fail > rep:
    cls.add('fail>repeat')
  if fail == rep:
    cls.add('fail==repeat')
  if not cls:
    cls.add('plain')
  nt = len(desc['runs']) >= 2 and (disappeared or bool(ties))
  return {'nt': nt, 'cls': sorted(cls), 'runs': len(desc['runs']), 'excluded': adopted}


LEVELS_FAIL = [1e-9, 1e-9, 1e-9, 1e-6, 1e-3, 0.01, 1e-12, 1e-30, 0.0, 1e-300]
LEVELS_REP = [0.01, 0.01, 0.01, 0.05, 0.001, 0.1, 0.5, 1.0, 1e-9]


def _pspec():
  return st.one_of(
      st.sampled_from([['z'], ['o'], ['F', 0], ['F', -1], ['F', 1], ['R', 0], ['R', -1],
                       ['R', 1], ['i', 0], ['i', 1]]),
      st.tuples(st.just('e'), st.floats(0, 14, allow_nan=False).map(lambda x: round(x, 3))).map(list),
      st.tuples(st.just('e'), st.floats(0, 3, allow_nan=False).map(lambda x: round(x, 3))).map(list),
      st.tuples(st.just('v'), st.floats(0, 1, allow_nan=False)).map(list),
      st.tuples(st.just('e'), st.sampled_from([30.0, 100.0, 300.0, 320.0])).map(list),
  )


def _run_spec():
  named = st.lists(st.tuples(st.integers(0, len(NAMES) - 1), _pspec()).map(list),
                   min_size=0, max_size=4, unique_by=lambda t: t[0])
  return st.one_of(
      st.tuples(st.just('l'), named).map(list),
      st.tuples(st.just('l'), named).map(list),
      st.tuples(st.just('f'), _pspec().filter(lambda s: s[0] != 'i')).map(list),
      st.tuples(st.just('f'), _pspec().filter(lambda s: s[0] != 'i'), st.just('np')).map(list),
      st.tuples(st.just('i'), st.integers(0, 1)).map(list),
      st.just(['x']),
  )


def _levels(draw):
  fail = draw(st.one_of(st.sampled_from(LEVELS_FAIL),
                        st.floats(0, 12, allow_nan=False).map(lambda x: 10.0 ** -round(x, 2))))
  rep = draw(st.one_of(st.sampled_from(LEVELS_REP), st.sampled_from(LEVELS_REP), st.just(fail),
                       st.floats(0, 4, allow_nan=False).map(lambda x: 10.0 ** -round(x, 2)),
                       st.floats(0, 4, allow_nan=False).map(lambda x: 10.0 ** -round(x, 2))))
  return fail, rep


def strat_decision(tier):
  @st.composite
  def s(draw):
    fail, rep = _levels(draw)
    maxruns = draw(st.sampled_from([2, 4, 8, 12 if tier == 'quick' else 30]))
    # histories are homogeneous (a test returns floats or named lists) most of the time
    style = draw(st.sampled_from(['named', 'named', 'float', 'mixed']))
    if style == 'named':
      named = st.lists(st.tuples(st.integers(0, len(NAMES) - 1), _pspec()).map(list),
                       min_size=0, max_size=4, unique_by=lambda t: t[0])
      one = st.one_of(st.tuples(st.just('l'), named).map(list),
                      st.tuples(st.just('l'), named).map(list),
                      st.tuples(st.just('l'), named).map(list),
                      st.just(['x']))
    elif style == 'float':
      f = _pspec().filter(lambda sp: sp[0] != 'i')
      one = st.one_of(st.tuples(st.just('f'), f).map(list),
                      st.tuples(st.just('f'), f, st.just('np')).map(list),
                      st.tuples(st.just('i'), st.integers(0, 1)).map(list),
                      st.just(['x']))
    else:
      one = _run_spec()
    runs = draw(st.lists(one, min_size=1, max_size=maxruns))
    return {'fail': fail, 'rep': rep, 'minrep': draw(st.sampled_from([1, 1, 1, 2, 3, 5, 0])),
            'params': draw(st.sampled_from([[], [], [512], [32, 100000]])), 'runs': runs}
  return s()


# ---------------------------------------------------------------- (c) entry points

TEST_NAMES = ['Frequency', 'FindBias', 'FindBiasLong', 'Find', 'Runs', 'LargeBinaryMatrixRank']
PREFIXES = [None, '', 'Find', 'FindBias', 'Runs', 'Zzz', 'F']
CAP = 24   # the scripted source stops after this many calls


class _Stop(Exception):
  pass


def _simulate(scripted, fail, rep, minrep, rounds):
  """Model of one scripted test under the entry point loop.

  Returns (model structure, number of runs until finished or None if it is not finished
  after `rounds` runs, ambiguous flag).
  """
  model = fr.Structure(fail, rep, minrep)
  for j in range(rounds):
    _, fed = scripted.expanded(j)
    fin = model.run(fed)
    if fin is None or model.undecidable():
      return model, None, True
    if fin:
      return model, j + 1, False
  return model, None, False


def run_entry(desc):
  entry = desc['entry']
  fail, rep, minrep = float(desc['fail']), float(desc['rep']), int(desc['minrep'])
  if entry == 'bitstring':
    rep, minrep = fail, 1
  elif not desc.get('explicit', True):
    fail, rep, minrep = 1e-9, 0.01, 1     # the documented defaults of TestSource
  prefix = desc['prefix']
  n = int(desc['n'])
  tests = []
  for t in desc['tests']:
    fn = _Scripted(TEST_NAMES[t['name'] % len(TEST_NAMES)], t['script'], fail, rep)
    tests.append((fn, list(t['params'])))
  selected = [i for i, (fn, _) in enumerate(tests)
              if not prefix or fn.__name__.startswith(prefix)]
  calls = []

  def source(k):
    if len(calls) >= CAP:
      raise _Stop()
    calls.append(k)
    return (len(calls) << 20) | 0xABCDE

  captured = []
  saved_tests, saved_total = rts.TESTS, rts.LogTotal

  def log_total(ts_list):
    captured.append(list(ts_list))
    return saved_total(ts_list)

  stopped = False
  ret = None
  rts.TESTS = tests
  rts.LogTotal = log_total
  try:
    try:
      if entry == 'source':
        kwargs = {}
        if desc.get('explicit', True):
          kwargs = dict(significance_level_repeat=rep, significance_level_fail=fail,
                        min_repetitions=minrep)
        ret = libcall(rts.TestSource, source, n, test_prefix=prefix,
                      log_level=desc.get('log', 0), source_name=desc.get('sname'),
                      expect=(_Stop,), **kwargs)
      else:
        bits = (1 << 20) | 0xABCDE
        ret = libcall(rts.TestBitString, bits, n, fail, test_prefix=prefix,
                      log_level=desc.get('log', 0), source_name=desc.get('sname'))
    except _Stop:
      stopped = True
  finally:
    rts.TESTS = saved_tests
    rts.LogTotal = saved_total

  # ---- model
  rounds_needed = 0
  never = False
  ambiguous = False
  any_failed = False
  models = {}
  for i in selected:
    fn, _ = tests[i]
    model, r, amb = _simulate(fn, fail, rep, minrep, 1 if entry == 'bitstring' else CAP)
    models[i] = (model, r)
    if amb:
      ambiguous = True
    elif r is None and entry == 'source':
      never = True
    else:
      rounds_needed = max(rounds_needed, r or 1)
  if ambiguous:
    return {'nt': False, 'cls': ['entry-ambiguous-skip']}
  cls = {'entry=' + entry, 'selected=%s' % ('0' if not selected else '1' if len(selected) == 1 else '2+')}

  if entry == 'source':
    if not selected:
      if stopped or calls:
        raise Violation('testsource:source-called-without-tests', calls=len(calls))
      if ret is not None and ret is not False:
        raise Violation('testsource:return-without-tests', got=repr(ret))
      return {'nt': False, 'cls': sorted(cls | {'no-test-selected'})}
    if never:
      # some test never finishes within CAP rounds: the source must still be asked
      cls.add('never-finishes(capped)')
      if not stopped:
        raise Violation('testsource:stops-while-a-test-is-unfinished', calls=len(calls),
                        returned=repr(ret))
      exp_calls = CAP
    else:
      if stopped:
        raise Violation('testsource:does-not-terminate', calls=len(calls),
                        expected_calls=rounds_needed)
      exp_calls = rounds_needed
    if len(calls) != exp_calls or any(k != n for k in calls):
      raise Violation('testsource:source-calls', got=len(calls), expected=exp_calls,
                      args=sorted(set(calls))[:4], n=n)
    # each selected test ran exactly until it was finished, on the bits of that round
    for i, (fn, params) in enumerate(tests):
      if i not in selected:
        want = 0
      else:
        r = models[i][1]
        want = r if r is not None else CAP
      if len(fn.calls) != want:
        raise Violation('testsource:test-runs', test=fn.__name__, index=i, got=len(fn.calls),
                        expected=want)
      for j, c in enumerate(fn.calls):
        if c != (((j + 1) << 20) | 0xABCDE, n, params):
          raise Violation('testsource:test-arguments', test=fn.__name__, run=j, got=repr(c)[:200])
    if never:
      return {'nt': True, 'cls': sorted(cls), 'calls': len(calls)}
    if rounds_needed > 1:
      cls.add('repeated')
  else:
    if calls:
      raise Violation('testbitstring:unexpected', calls=len(calls))
    for i, (fn, params) in enumerate(tests):
      want = 1 if i in selected else 0
      if len(fn.calls) != want:
        raise Violation('testbitstring:test-runs', test=fn.__name__, index=i, got=len(fn.calls),
                        expected=want)
      if want and fn.calls[0] != ((1 << 20) | 0xABCDE, n, params):
        raise Violation('testbitstring:test-arguments', test=fn.__name__, got=repr(fn.calls[0])[:200])
    # re-run the model for exactly one run each
    for i in selected:
      fn, _ = tests[i]
      model = fr.Structure(fail, rep, 1)
      model.run(fn.expanded(0)[1])
      if model.undecidable():
        return {'nt': False, 'cls': ['entry-ambiguous-skip']}
      models[i] = (model, 1)

  for i in selected:
    f = models[i][0].failed()
    any_failed = any_failed or bool(f)
  # structures as seen by LogTotal
  if len(captured) != 1 or len(captured[0]) != len(selected):
    raise Violation('entry:structures', got=[len(c) for c in captured], expected=len(selected))
  for ts, i in zip(captured[0], selected):
    model = models[i][0]
    _check_structure(ts, model, '%s test %d' % (entry, i))
    if ts.p_value_fail != fail or ts.p_value_repeat != rep:
      raise Violation('entry:levels', got=(ts.p_value_fail, ts.p_value_repeat), expected=(fail, rep))
  if not isinstance(ret, bool) or ret != any_failed:
    raise Violation('entry:%s-return' % entry, got=repr(ret), expected=any_failed,
                    states=[{k: v for k, v in models[i][0].state.items()} for i in selected])
  cls.add('returns-%s' % any_failed)
  states = {s for i in selected for s in models[i][0].state.values()}
  if fr.FAILED in states and fr.PASSED in states:
    cls.add('mixed-failed-and-passed')
  if fr.UNDECIDED in states:
    cls.add('ends-with-undecided(bitstring or insufficient data)')
  nt = len(selected) >= 1 and (rounds_needed > 1 or fr.FAILED in states)
  return {'nt': nt, 'cls': sorted(cls), 'calls': len(calls)}


def strat_entry(tier):
  @st.composite
  def s(draw):
    entry = draw(st.sampled_from(['source', 'source', 'bitstring']))
    explicit = draw(st.booleans()) if entry == 'source' else True
    if explicit:
      fail, rep = _levels(draw)
      minrep = draw(st.sampled_from([1, 1, 2, 3, 0]))
    else:
      fail, rep, minrep = 1e-9, 0.01, 1
    ntests = draw(st.integers(0, 4))
    named = st.lists(st.tuples(st.integers(0, len(NAMES) - 1), _pspec()).map(list),
                     min_size=0, max_size=3, unique_by=lambda t: t[0])
    f = _pspec().filter(lambda sp: sp[0] != 'i')
    one_named = st.one_of(st.tuples(st.just('l'), named).map(list),
                          st.tuples(st.just('l'), named).map(list),
                          st.tuples(st.just('l'), named).map(list), st.just(['x']))
    one_float = st.one_of(st.tuples(st.just('f'), f).map(list),
                          st.tuples(st.just('f'), f).map(list),
                          st.tuples(st.just('i'), st.integers(0, 1)).map(list), st.just(['x']))
    tests = []
    for _ in range(ntests):
      one = draw(st.sampled_from([one_named, one_float]))
      tests.append({'name': draw(st.integers(0, len(TEST_NAMES) - 1)),
                    'params': draw(st.sampled_from([[], [256], [32, 100000]])),
                    'script': draw(st.lists(one, min_size=1, max_size=6))})
    return {'entry': entry, 'explicit': explicit, 'fail': fail, 'rep': rep, 'minrep': minrep,
            'prefix': draw(st.sampled_from(PREFIXES)), 'n': draw(st.sampled_from([1, 1000, 1 << 20])),
            'log': draw(st.integers(0, 2)), 'sname': draw(st.sampled_from([None, 'scripted'])),
            'tests': tests}
  return s()


# ---------------------------------------------------------------- seeded generators

def _seed(gen, k, label='c13seed'):
  """Deterministic seed inside the generator's seed space (never 0 / None -> no urandom)."""
  mat = Material(k, label + '|' + gen)
  if gen.startswith('trunclcg'):
    return mat.bits(2 * int(gen[8:])) | 1
  if gen.startswith('lehmer'):
    return mat.bits(128) | 1            # a unit modulo 2^128
  if gen == 'java':
    return mat.bits(48) | (1 << 47)
  if gen.startswith('mwc'):
    w = int(gen[3:])
    return 1 + mat.bits(2 * w - 8)      # 1 <= seed < a*b - 1
  if gen == 'xorshift128+':
    return mat.bits(128) | 1 | (1 << 127)
  if gen == 'xorshift*':
    return mat.bits(64) | 1
  if gen == 'xorwow':
    return mat.bits(192) | 1 | (1 << 191)
  return 1 + mat.bits(64)               # shake128, numpy generators, mt19937


def _bits(gen, n, seed):
  return libcall(rng.GetRng(gen).RandomBits, n, seed=seed)


def _with_captured(fn):
  """Runs fn() with LogTotal wrapped; returns (result, list of TestStructure)."""
  captured = []
  saved = rts.LogTotal

  def log_total(ts_list):
    captured.append(list(ts_list))
    return saved(ts_list)

  rts.LogTotal = log_total
  try:
    ret = fn()
  finally:
    rts.LogTotal = saved
  if len(captured) != 1:
    raise Violation('entry:logtotal-calls', got=len(captured))
  return ret, captured[0]


def _check_pvalue_range(structs):
  for ts in structs:
    for name, pvs in ts.p_values.items():
      for p in pvs:
        if isinstance(p, bool) or not isinstance(p, (int, float)) or not 0 <= p <= 1:
          raise Violation('pvalue:outside-unit-interval', test=ts.test_name, name=name,
                          got=repr(p))


# ---------------------------------------------------------------- (b) power

FINDBIAS_GENS = ['trunclcg16', 'trunclcg20', 'trunclcg28', 'trunclcg32', 'trunclcg64',
                 'trunclcg128', 'lehmer128', 'lehmer128/16', 'java', 'mwc64', 'mwc128', 'mwc256']
BLIND_SPOTS = ['lehmer128/8', 'mwc512', 'mt19937']
LFSR_GENS = ['xorshift128+', 'xorshift*', 'xorwow']
# Matrix size from which LargeBinaryMatrixRank is asserted to fail the generator.
# docs/randomness_tests.md lists 256 / 512 / 2048. Calibration over 10-13 full-entropy seeds
# each: xorwow 512 (10/10) and xorshift* 2048 (10/10) hold; xorshift128+ is NOT failed at
# 256 * 256 (0/10; only low-entropy seeds such as seed=99 are) - the first size that fails it
# reliably is 4096 * 4096 (13/13), which is what is asserted. The documented size is run
# without an assertion (label documented-size-unreliable).
RANK_SIZE = {'xorshift128+': 4096, 'xorwow': 512, 'xorshift*': 2048}
RANK_SIZE_DOCUMENTED = {'xorshift128+': 256, 'xorwow': 512, 'xorshift*': 2048}


def run_power(desc):
  gen, lg, k, prefix = desc['gen'], desc['lg'], desc['k'], desc['prefix']
  n = 1 << lg
  seed = _seed(gen, k)
  bits = _bits(gen, n, seed)
  if not isinstance(bits, int) or bits < 0 or bits >> n:
    raise Violation('rng:range', gen=gen, n=n, seed=seed)
  ret, structs = _with_captured(
      lambda: libcall(rts.TestBitString, bits, n, test_prefix=prefix, log_level=0))
  _check_pvalue_range(structs)
  failed = sorted('%s/%s' % (ts.test_name, name) for ts in structs
                  for name, s in ts.state.items() if s == rts.State.FAILED)
  if any(not ts.test_name.startswith(prefix) for ts in structs) or not structs:
    raise Violation('testbitstring:prefix', prefix=prefix, got=[ts.test_name for ts in structs])
  if not isinstance(ret, bool) or ret != bool(failed):
    raise Violation('entry:bitstring-return', got=repr(ret), failed=failed)
  cls = ['%s:%s@2^%d' % (prefix, gen, lg)]
  if desc.get('assert', True):
    if not ret:
      pv = {ts.test_name: {a: float(b) for a, b in ts.combined_p_values.items()} for ts in structs}
      raise Violation('power:%s-misses-documented-weak-generator' % prefix, gen=gen, n=n,
                      seed=seed, pvalues=pv)
    if prefix == 'LargeBinaryMatrixRank':
      size = RANK_SIZE[gen]
      want = 'LargeBinaryMatrixRank/%d * %d' % (size, size)
      if want not in failed:
        raise Violation('power:rank-at-documented-matrix-size', gen=gen, n=n, seed=seed,
                        expected=want, failed=failed)
  else:
    cls = ['not-asserted(%s):%s@2^%d:%s' % (desc.get('why', 'blind-spot'), gen, lg,
                                           'fails' if ret else 'passes')]
  return {'nt': bool(desc.get('assert', True)), 'cls': cls, 'failed': failed[:6]}


def enum_power_findbias(tier):
  if tier == 'quick':
    plan = [(16, 2)]
  else:
    plan = [(16, 10), (18, 4), (20, 2)]
  for lg, seeds in plan:
    for k in range(seeds):
      for gen in FINDBIAS_GENS:
        yield {'gen': gen, 'lg': lg, 'k': k, 'prefix': 'FindBias'}
  if tier == 'thorough':
    for gen in BLIND_SPOTS:
      for k in range(2):
        yield {'gen': gen, 'lg': 16, 'k': k, 'prefix': 'FindBias', 'assert': False}


def enum_power_lfsr(tier):
  seeds = 8 if tier == 'quick' else 64
  sizes = (16, 18, 20) if tier == 'quick' else (16, 17, 18, 20, 22)
  for k in range(seeds):
    for gen in LFSR_GENS:
      for lg in sizes:
        if lg == 22 and k >= 8:
          continue
        yield {'gen': gen, 'lg': lg, 'k': k, 'prefix': 'LinearComplexityScatter'}
      size = RANK_SIZE[gen]
      need = 2 * (size.bit_length() - 1)
      for lg in (need, need + 1, need + 2, need + 4):
        if lg > 24 or (lg >= 22 and k >= (4 if tier == 'quick' else 16)):
          continue
        yield {'gen': gen, 'lg': lg, 'k': k, 'prefix': 'LargeBinaryMatrixRank'}
    # the documented matrix size for xorshift128+ (256 * 256): observed, not asserted
    for lg in (16, 20):
      yield {'gen': 'xorshift128+', 'lg': lg, 'k': k, 'prefix': 'LargeBinaryMatrixRank',
             'assert': False, 'why': 'documented-size-unreliable'}


# ---------------------------------------------------------------- (a) validity

GOOD_GENS = ['shake128', 'pcg64', 'philox']
ALPHAS = (0.01, 0.05, 0.2)
TAIL_BOUND = 1e-9 / (3 * 1000)    # per comparison; at most 1000 sub-tests per check run


def run_validity_full(desc):
  gen, lg, k, entry = desc['gen'], desc['lg'], desc['k'], desc['entry']
  n = 1 << lg
  calls = []

  def source(m):
    calls.append(m)
    if len(calls) > 40:
      raise Violation('validity:testsource-keeps-repeating', gen=gen, k=k, calls=len(calls))
    return _bits(gen, m, _seed(gen, k * 1000 + len(calls) - 1, 'c13valid%d' % lg))

  if entry == 'bitstring':
    bits = source(n)
    ret, structs = _with_captured(lambda: libcall(rts.TestBitString, bits, n, log_level=0))
  else:
    ret, structs = _with_captured(
        lambda: libcall(rts.TestSource, source, n, log_level=0, expect=(Violation,)))
  _check_pvalue_range(structs)
  if len(structs) != len(rts.TESTS):
    raise Violation('entry:structures', got=len(structs), expected=len(rts.TESTS))
  nsub = sum(len(ts.p_values) for ts in structs)
  failed = ['%s/%s p=%r from %r' % (ts.test_name, name, ts.combined_p_values[name],
                                      list(ts.p_values[name]))
            for ts in structs for name, s in ts.state.items() if s == rts.State.FAILED]
  if failed:
    raise Violation('validity:sub-test-failed-on-good-generator', gen=gen, n=n, k=k,
                    entry=entry, failed=failed[:5])
  if ret is not False:
    raise Violation('validity:entry-point-reports-failure', gen=gen, n=n, k=k, entry=entry,
                    got=repr(ret))
  undecided = sum(1 for ts in structs for s in ts.state.values() if s == rts.State.UNDECIDED)
  repeated = sum(1 for ts in structs if ts.runs > 1)
  if entry == 'source':
    if undecided or any(not ts.finished for ts in structs):
      raise Violation('testsource:returns-with-undecided', undecided=undecided)
    if len(calls) != max(ts.runs for ts in structs):
      raise Violation('testsource:source-calls', got=len(calls),
                      expected=max(ts.runs for ts in structs))
  else:
    if any(ts.runs != 1 for ts in structs):
      raise Violation('testbitstring:test-runs', got=[ts.runs for ts in structs])
  smallest = min(p for ts in structs for pvs in ts.p_values.values() for p in pvs)
  cls = ['validity:%s@2^%d via %s' % (gen, lg, entry)]
  if repeated:
    cls.append('some-test-repeated')
  return {'nt': True, 'cls': cls, 'subtests': nsub, 'rounds': len(calls), 'repeated': repeated,
          'smallest_p': float(smallest)}


def enum_validity_full(tier):
  if tier == 'quick':
    plan = [(20, 16)]
  else:
    plan = [(20, 32), (22, 12), (24, 4)]
  i = 0
  for lg, cnt in plan:
    for k in range(cnt):
      yield {'gen': GOOD_GENS[i % 3], 'lg': lg, 'k': k, 'entry': ('bitstring', 'source')[(i // 3) % 2]}
      i += 1


def _one_first_run(args):
  """First-run p-values of one TESTS entry on one seeded good-generator output."""
  idx, gen, lg, k = args
  n = 1 << lg
  bits = rng.GetRng(gen).RandomBits(n, seed=_seed(gen, k, 'c13agg%d' % lg))
  test, params = rts.TESTS[idx]
  ts = rts.TestStructure(test, params, 1e-9, 0.01)
  ts.Run(bits, n)
  return [(name, float(pvs[0])) for name, pvs in ts.p_values.items()], [
      name for name, s in ts.state.items() if s == rts.State.FAILED]


def run_validity_aggregate(desc):
  idx, lg, runs, procs = desc['test'], desc['lg'], desc['K'], desc.get('procs', 0)
  test, params = rts.TESTS[idx]
  label = test.__name__ + (' ' + str(params) if params else '')
  if label != desc['label']:
    raise Violation('suite:tests-table-changed', index=idx, got=label, expected=desc['label'])
  jobs = [(idx, GOOD_GENS[k % 3], lg, k) for k in range(runs)]
  if procs:
    ctx = multiprocessing.get_context('fork')
    with ctx.Pool(procs) as pool:
      results = libcall(pool.map, _one_first_run, jobs, 1)
  else:
    results = [libcall(_one_first_run, j) for j in jobs]
  per_name = {}
  for job, (pvs, failed) in zip(jobs, results):
    if failed:
      raise Violation('validity:sub-test-failed-on-good-generator', test=label, gen=job[1],
                      k=job[3], failed=failed[:4], pvalues=[p for nm, p in pvs if nm in failed][:4])
    for name, p in pvs:
      if not 0 <= p <= 1:
        raise Violation('pvalue:outside-unit-interval', test=label, name=name, got=repr(p))
      per_name.setdefault(name, []).append(p)
  worst = (1.0, None)
  for name, pvs in per_name.items():
    for alpha in ALPHAS:
      c = sum(1 for p in pvs if p <= alpha)
      tail = fr.binomial_upper_tail(len(pvs), c, alpha)
      if tail < worst[0]:
        worst = (tail, (name, alpha, c, len(pvs)))
      if tail <= TAIL_BOUND:
        raise Violation('validity:too-many-small-p-values', test=label, name=name, alpha=alpha,
                        count=c, runs=len(pvs), binomial_tail=tail, bound=TAIL_BOUND,
                        smallest=sorted(pvs)[:8])
  return {'nt': True, 'cls': ['aggregate:' + label], 'subtests': len(per_name),
          'runs': runs, 'smallest_tail': worst[0], 'at': repr(worst[1])}


def _labels():
  return [t.__name__ + (' ' + str(p) if p else '') for t, p in rts.TESTS]


def enum_validity_aggregate(tier):
  labels = _labels()
  # the expensive lattice cases (thorough only) first, so that their shards start with them
  order = sorted(range(len(labels)), key=lambda i: (not labels[i].startswith('FindBias'), i))
  for idx in order:
    label = labels[idx]
    lattice = label.startswith('FindBias')
    if tier == 'quick':
      if lattice:
        continue      # 3 - 30 s per run: thorough tier only (validity_full runs them 16 times)
      yield {'test': idx, 'label': label, 'lg': 20, 'K': 128 if label == 'Spectral' else 256}
    else:
      yield {'test': idx, 'label': label, 'lg': 20, 'K': 128 if lattice else 512,
             'procs': 8 if lattice else 0}
      if not lattice:
        yield {'test': idx, 'label': label, 'lg': 22, 'K': 128}


# ---------------------------------------------------------------- (a') random-walk tests over many seeds

def run_validity_walk(desc):
  """TestBitString restricted to RandomWalk on many seeds of a good generator (about 1 s per seed).

  The excursion sub-tests only apply when the walk has enough cycles; walks with few zero crossings
  (a few percent of all seeds) are the inputs on which a wrong applicability threshold shows as tiny
  p-values, so a few hundred seeds are needed - the full suite is too slow for that."""
  gen, lg = desc['gen'], desc['lg']
  n = 1 << lg
  low = 0
  for k in range(desc['k0'], desc['k0'] + desc['count']):
    bits = _bits(gen, n, _seed(gen, k, 'c13walk%d' % lg))
    # number of returns to zero of the +-1 walk, computed independently (popcount of prefixes)
    ret, structs = _with_captured(
        lambda: libcall(rts.TestBitString, bits, n, test_prefix='RandomWalk', log_level=0))
    _check_pvalue_range(structs)
    failed = ['%s/%s p=%r' % (ts.test_name, name, ts.combined_p_values[name])
              for ts in structs for name, st_ in ts.state.items() if st_ == rts.State.FAILED]
    nsub = sum(len(ts.p_values) for ts in structs)
    if nsub <= 2:
      low += 1        # excursion tests not applicable for this seed (fewer than 500 cycles)
    if failed or ret is not False:
      raise Violation('validity:randomwalk-fails-good-generator', gen=gen, n=n, k=k, failed=failed[:4],
                      returned=repr(ret), subtests=nsub)
  return {'nt': True, 'cls': ['validity-walk:%s@2^%d' % (gen, lg)] +
          (['validity-walk: some seeds below the excursion threshold'] if low else []),
          'seeds': desc['count'], 'seeds_without_excursion_tests': low}


def enum_validity_walk(tier):
  per, chunks = (40, 32) if tier == 'quick' else (100, 96)
  for c in range(chunks):
    yield {'gen': GOOD_GENS[c % 3], 'lg': 20, 'k0': 100000 + c * per, 'count': per}


ARMS = [
    Arm('validity_randomwalk', run_validity_walk, enumerate=enum_validity_walk, weight=3.0, budget=(300, 2400)),
    Arm('validity_full', run_validity_full, enumerate=enum_validity_full, weight=9.0,
        budget=(900, 7200),
        doc='full suite on shake128/pcg64/philox through TestBitString / TestSource: no failure'),
    Arm('power_findbias', run_power, enumerate=enum_power_findbias, weight=5.0, budget=(900, 7200),
        doc='FindBias fails truncated LCGs, Lehmer, java.util.Random, MWC up to 256 bits'),
    Arm('validity_aggregate', run_validity_aggregate, enumerate=enum_validity_aggregate,
        weight=4.0, budget=(900, 7200),
        doc='K first-run p-values per sub-test: #{p <= alpha} within a 1e-9-level binomial bound'),
    Arm('power_lfsr', run_power, enumerate=enum_power_lfsr, weight=1.0, budget=(600, 3600),
        doc='scattered linear complexity / large matrix rank fail the xorshift family'),
    Arm('decision', run_decision, strategy=strat_decision, quick=8000, thorough=120000,
        budget=(100, 900), doc='one TestStructure driven through a scripted history vs the model'),
    Arm('entrypoints', run_entry, strategy=strat_entry, quick=4000, thorough=60000,
        budget=(100, 900), doc='TestSource / TestBitString over scripted TESTS and a counting source'),
]
