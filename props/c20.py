"""C20 - bundled generators return exactly the requested bits, reproducibly."""

from hypothesis import strategies as st

from gens.common import Material, material
from harness import core
from harness.core import Arm, Violation, libcall
from refs import rng_ref

from paranoid_crypto.lib.randomness_tests import rng

ID = 'C20'
TITLE = 'Bundled generators return exactly the requested bits, reproducibly'
TECHNIQUE = ('model-based call histories + exhaustive registry x n grid, reference streams '
             '(java.util.Random/BigInteger, truncated LCG)')
RULE = (
    'history: Hypothesis draws a LIST of calls [(generator name, n, seed), ...] (names sampled from '
    'the library registry rng.RngNames(), n in 1..2048 / at block boundaries k*W+d / larger, seeds '
    '1..2^256 incl. 2^48, 2^63, 2^64 boundaries; calls are drawn from a small pool so that keys repeat '
    'with other calls in between); run() replays the list against the library and a model dict '
    '{(name, n, seed): value}. grid: enumeration of registry x every n in 1..2048 (plus larger n at '
    'every residue mod 64) x seeds, each key called three times (twice in a row, once after a foreign '
    'call). trunclcg_bits: every trunclcg* x n x seed, one call per case, so that a deviation is raised '
    'per call (finding F5 is matched there by the harness). stuck_bits: registry x n x 64..128 random '
    '1100-bit seeds (wider than any state), every one of the n requested bit positions must be 1 at least once and 0 at least '
    'once. Oracle per call: 0 <= value < 2^n; generators that use their seed (all but urandom and '
    'subsetsum*, which discard it by documented design and are only range-checked and counted) return '
    'the same value on every repetition of (name, n, seed) whatever was called in between; java == '
    'transcription of java.util.Random + new BigInteger(n, rnd); trunclcg<k> == transcription of the '
    'documented recurrence truncated to n bits. Non-trivial: n is not a multiple of 64 (a masking/'
    'shifting path is taken) or a key is repeated after an interleaved foreign call.')
ASSUMPTIONS = [
    'refs/rng_ref.py transcribes OpenJDK java.util.Random/BigInteger(int, Random) correctly (validated at '
    'import against the real-JVM vectors of rng_test.testJavaRandom and published nextInt() values)',
    'the truncated-LCG stream is the one documented in TruncLcgRand (multiplier table, state 2*size bits, '
    'upper half, ceil(size/8) little-endian bytes per step); "n bits" = the low n bits of that little-endian '
    'stream (validated against the pinned 63-bit vectors modulo the two mask bits)',
    'seeds are positive: seed=None means "seed randomly"; seed=0 is treated like None by xorshift128+, '
    'xorshift* and xorwow (`if seed:`), so 0 is outside the property ("non-zero seed")',
    'stuck_bits: with 64 (quick) / 128 (thorough) independent random 1100-bit seeds (wider than every generator state, so also the carry of mwc* is seeded) a fixed output bit of a '
    'working generator is constant with probability 2^-63 / 2^-127 per bit position (false-alarm bound '
    'about 2^-40 over the whole thorough tier); trunclcg* is left out of that arm (exact stream reference '
    'elsewhere; finding F5 by itself makes bits of the first byte constant)',
    'urandom and subsetsum* delete their seed argument by documented design (`del seed`): excluded from the '
    'determinism clause, still range- and stuck-bit-checked',
]

_problems = rng_ref.selftest()
if _problems:
  raise core.HarnessError('refs/rng_ref.py selftest failed: %s' % '; '.join(_problems))

NAMES = list(libcall(rng.RngNames))
F5_LISTED = any(e.get('id') == 'F5' for e in core.load_known(ID))


def seed_discarded(name):
  """Generators documented to ignore the seed (`del seed` in RandomBits)."""
  return name == 'urandom' or name.startswith('subsetsum')


def family(name):
  for f in ('trunclcg', 'mwc', 'lehmer', 'subsetsum'):
    if name.startswith(f):
      return f
  return name


def _lcg_size(name):
  return int(name[len('trunclcg'):])


def call(name, n, seed):
  g = libcall(rng.GetRng, name)
  return libcall(g.RandomBits, n, seed=seed)


def f5_explains(name, n, seed, got):
  """True iff `got` is exactly the F5 deviation (and a deviation at all)."""
  if not (isinstance(name, str) and name.startswith('trunclcg')):
    return False
  if not (isinstance(n, int) and isinstance(seed, int) and isinstance(got, int)):
    return False
  if n < 1 or n % 8 == 0:
    return False
  size = _lcg_size(name)
  return (got == rng_ref.trunc_lcg_first_byte_masked(size, n, seed)
          and got != rng_ref.trunc_lcg(size, n, seed))


def _known_f5(arm_name, desc, violation):
  if violation.clause not in ('range:trunclcg', 'stream:trunclcg'):
    return False
  d = violation.detail
  return f5_explains(d.get('name'), d.get('n'), d.get('seed'), d.get('got'))


KNOWN = {'F5': _known_f5}


def check_value(name, n, seed, got):
  """Range and reference-stream clauses for one call. Raises Violation or returns None."""
  if isinstance(got, bool) or not isinstance(got, int):
    raise Violation('type:' + family(name), name=name, n=n, seed=seed, got=repr(got)[:100])
  if name.startswith('trunclcg'):
    want = rng_ref.trunc_lcg(_lcg_size(name), n, seed)
    if got != want:
      clause = 'stream:trunclcg' if 0 <= got < (1 << n) else 'range:trunclcg'
      raise Violation(clause, name=name, n=n, seed=seed, got=got, expected=want,
                      got_bits=got.bit_length())
    return
  if not 0 <= got < (1 << n):
    raise Violation('range:' + family(name), name=name, n=n, seed=seed, got=got,
                    got_bits=got.bit_length())
  if name == 'java':
    want = rng_ref.java_biginteger(n, seed)
    if got != want:
      raise Violation('stream:java', name=name, n=n, seed=seed, got=got, expected=want)


def check_tolerating_f5(name, n, seed, got, known):
  """check_value, but a listed F5 deviation is noted in `known` instead of raised."""
  try:
    check_value(name, n, seed, got)
  except Violation as v:
    if F5_LISTED and _known_f5(None, None, v):
      known.append('F5')
      return
    raise


def _n_labels(n):
  out = []
  out.append('n%8!=0' if n % 8 else ('n%64==0' if n % 64 == 0 else 'n%8==0,n%64!=0'))
  if n > 2048:
    out.append('n>2048')
  return out


# ---------------------------------------------------------------- histories

def run_history(desc):
  model = {}
  last_seen = {}
  known = []
  cls = set()
  repeats = 0
  interleaved_repeats = 0
  discarded = 0
  partial = False
  for i, op in enumerate(desc):
    name, n, seed = op[0], op[1], op[2]
    if seed is None:
      # an UNSEEDED call interleaved with the seeded ones: only its range is checked; it must not disturb
      # the seeded results that follow (long-lived generator objects keep state between calls)
      got = call(name, n, None)
      if isinstance(got, bool) or not isinstance(got, int) or not (
          0 <= got < (1 << n) or name.startswith('trunclcg')):
        raise Violation('range-unseeded:' + family(name), name=name, n=n, got=repr(got)[:80])
      cls.add('unseeded-call-interleaved')
      continue
    got = call(name, n, seed)
    check_tolerating_f5(name, n, seed, got, known)
    key = (name, n, seed)
    if n % 64:
      partial = True
    cls.add('gen:' + family(name))
    cls.update(_n_labels(n))
    if seed_discarded(name):
      discarded += 1
      continue
    if key in model:
      repeats += 1
      if last_seen[key] != i - 1:
        interleaved_repeats += 1
      if got != model[key]:
        raise Violation('determinism:' + family(name), name=name, n=n, seed=seed,
                        first=model[key], again=got, calls_between=i - 1 - last_seen[key])
    else:
      model[key] = got
    last_seen[key] = i
  if not desc:
    cls.add('empty-history')
  if repeats:
    cls.add('repeated-key')
  if interleaved_repeats:
    cls.add('repeat-after-interleaved-call')
  if discarded:
    cls.add('seed-discarded-by-design(range only)')
  info = {'nt': bool(desc) and (partial or interleaved_repeats > 0), 'cls': sorted(cls),
          'calls': len(desc), 'repeats': repeats, 'seed_discarded_calls': discarded}
  if known:
    info['known'] = ['F5']
    info['f5_calls'] = len(known)
  return info


_BLOCKS = (8, 16, 24, 32, 64, 128, 256, 512, 1024)


def _n_strategy(tier):
  big = 20000 if tier == 'quick' else 120000
  boundary = st.builds(lambda w, k, d: max(1, w * k + d),
                       st.sampled_from(_BLOCKS), st.integers(1, 40), st.integers(-2, 2))
  return st.one_of(st.integers(1, 2048), st.integers(1, 130), boundary,
                   st.integers(2049, big))


_seed_strategy = st.one_of(
    st.integers(1, 1 << 16),
    st.integers(1, (1 << 64) - 1),
    st.integers(1, 1 << 256),
    st.builds(lambda e, d: max(1, (1 << e) + d),
              st.sampled_from([31, 32, 47, 48, 63, 64, 128, 160, 192]), st.integers(-2, 2)),
    st.builds(lambda k, e: k << e, st.integers(1, 1 << 32), st.sampled_from([1, 32, 64, 128])),
)


def strat_history(tier):
  names = st.sampled_from(NAMES)
  op = st.tuples(names, _n_strategy(tier), _seed_strategy)

  @st.composite
  def s(draw):
    pool = draw(st.lists(op, min_size=1, max_size=6))
    pooled = st.sampled_from(pool)
    # mostly repetitions of pooled calls (in any order), some fresh calls in between
    least = draw(st.sampled_from([1, 2, 8, 16]))      # shrinks towards short histories
    unseeded = st.tuples(st.sampled_from([o[0] for o in pool]), st.integers(1, 300), st.none())
    ops = draw(st.lists(st.one_of(pooled, pooled, pooled, op, unseeded), min_size=least, max_size=28))
    return [list(o) for o in ops]
  return s()


# ---------------------------------------------------------------- registry x n grid

def run_grid(desc):
  name, n = desc['g'], desc['n']
  known = []
  fname, fn, fseed = desc['foreign']
  for seed in desc['seeds']:
    v1 = call(name, n, seed)
    check_tolerating_f5(name, n, seed, v1, known)
    v2 = call(name, n, seed)
    check_tolerating_f5(name, n, seed, v2, known)
    call(fname, fn, fseed)
    # same generator object, other request: must not influence the repetition either
    call(name, n + 1, seed + 1)
    v3 = call(name, n, seed)
    check_tolerating_f5(name, n, seed, v3, known)
    if not seed_discarded(name):
      if v2 != v1:
        raise Violation('determinism:' + family(name), name=name, n=n, seed=seed, first=v1,
                        again=v2, calls_between=0)
      if v3 != v1:
        raise Violation('determinism:' + family(name), name=name, n=n, seed=seed, first=v1,
                        again=v3, calls_between=2)
  cls = ['gen:' + family(name)] + _n_labels(n)
  if seed_discarded(name):
    cls.append('seed-discarded-by-design(range only)')
  info = {'nt': True, 'cls': cls, 'seeds': len(desc['seeds'])}
  if known:
    info['known'] = ['F5']
    info['f5_calls'] = len(known)
  return info


def _grid_seeds(name, n, count):
  mat = Material(n * 1000003 + NAMES.index(name), 'c20grid')
  seeds = [n + 1, mat.bits(64) | (1 << 63), mat.bits(256) | 1]
  widths = (48, 31, 128, 160, 200, 96, 20, 64)
  i = 0
  while len(seeds) < count:
    seeds.append(mat.bits(widths[i % len(widths)]) + 1 + (i % 2))
    i += 1
  return seeds[:count]


def _large_ns(tier):
  qs = (40, 157) if tier == 'quick' else (33, 100, 517, 1600)
  for q in qs:
    for r in range(64):
      yield 64 * q + r


def enum_grid(tier):
  count = 3 if tier == 'quick' else 6
  for name in NAMES:
    idx = NAMES.index(name)
    for n in list(range(1, 2049)) + list(_large_ns(tier)):
      foreign = NAMES[(idx + 1 + n % (len(NAMES) - 1)) % len(NAMES)]
      yield {'g': name, 'n': n, 'seeds': _grid_seeds(name, n, count),
             'foreign': [foreign, 1 + (n * 7) % 300, n + 17]}


# ---------------------------------------------------------------- trunclcg, one call per case

def run_trunclcg(desc):
  name, n, seed = desc['g'], desc['n'], desc['seed']
  got = call(name, n, seed)
  check_value(name, n, seed, got)
  again = call(name, n, seed)
  if again != got:
    raise Violation('determinism:trunclcg', name=name, n=n, seed=seed, first=got, again=again,
                    calls_between=0)
  per = (_lcg_size(name) + 7) // 8
  cls = ['gen:' + name] + _n_labels(n)
  if ((n + 7) // 8) % per:
    cls.append('last-step-truncated')
  return {'nt': n % 64 != 0, 'cls': cls}


def enum_trunclcg(tier):
  count = 2 if tier == 'quick' else 6
  for name in NAMES:
    if not name.startswith('trunclcg'):
      continue
    for n in list(range(1, 2049)) + list(_large_ns(tier)):
      for seed in _grid_seeds(name, n, count + 1)[1:]:
        yield {'g': name, 'n': n, 'seed': seed}


# ---------------------------------------------------------------- every requested bit is live

# Seeds wider than the largest state (mwc512: a*b-1 has 1024 bits). A multiply-with-carry generator
# seeded below its base b starts with carry 0 and its first output a*x mod b inherits the factor 2^k of
# the multiplier (low bits constant); that is a property of MWC, not of RandomBits, so the arm seeds the
# whole state.
STUCK_SEED_BITS = 1100


def run_stuck(desc):
  name, n, k = desc['g'], desc['n'], desc['k']
  mat = Material(desc['m'], 'c20stuck')
  full = (1 << n) - 1
  seen1 = 0
  seen0 = 0
  for _ in range(k):
    seed = mat.bits(STUCK_SEED_BITS) | 1
    got = call(name, n, seed)
    check_value(name, n, seed, got)
    seen1 |= got
    seen0 |= ~got & full
  if seen1 != full:
    miss = full & ~seen1
    raise Violation('bit-never-set:' + family(name), name=name, n=n, draws=k, material=desc['m'],
                    lowest_dead_bit=(miss & -miss).bit_length() - 1,
                    highest_dead_bit=miss.bit_length() - 1, dead_bits=bin(miss).count('1'))
  if seen0 != full:
    miss = full & ~seen0
    raise Violation('bit-never-clear:' + family(name), name=name, n=n, draws=k,
                    material=desc['m'], lowest_stuck_bit=(miss & -miss).bit_length() - 1,
                    highest_stuck_bit=miss.bit_length() - 1, stuck_bits=bin(miss).count('1'))
  return {'nt': n % 64 != 0, 'cls': ['gen:' + family(name)] + _n_labels(n), 'draws': k}


def _stuck_ns(tier):
  if tier != 'quick':
    return list(range(1, 2049)) + [64 * 100 + r for r in range(64)]
  ns = set(range(1, 137))
  for w in (32, 64, 128, 256, 512, 1024):
    for k in range(1, 2048 // w + 2):
      for d in (-1, 0, 1, 2, 9):
        ns.add(w * k + d)
  for k in range(17, 257, 7):
    for d in (1, 3, 4, 5, 6, 7):
      ns.add(8 * k + d)
  ns.update(64 * 70 + r for r in range(64))
  return sorted(x for x in ns if x >= 1)


def enum_stuck(tier):
  k = 64 if tier == 'quick' else 128
  ns = _stuck_ns(tier)
  for name in NAMES:
    if name.startswith('trunclcg'):
      continue
    idx = NAMES.index(name)
    for n in ns:
      yield {'g': name, 'n': n, 'k': k, 'm': n * 4099 + idx}


# ------------------------------------------------------------------ arm: neighbouring sizes with one seed

def enum_neighbour_sizes(tier):
  """For every generator: one seed, the sizes n0..n0+w in ascending, descending and a scrambled order, each
  size requested twice in the whole history. A buffer that is reused between calls of one instance (same
  seed, same number of bytes / words) and masked in place shows up as a determinism violation."""
  names = rng.RngNames()
  bases = (1, 9, 57, 121) if tier == 'quick' else (1, 9, 17, 57, 121, 249, 505, 1017, 2041)
  for gi, name in enumerate(names):
    for bi, n0 in enumerate(bases):
      ns = list(range(n0, n0 + 9))
      seed = 23482349 + 1000003 * gi + 7919 * bi
      scr = [ns[(5 * i + 3) % len(ns)] for i in range(len(ns))]
      for order in (ns + ns[::-1], ns[::-1] + ns, scr + ns, ns + scr):
        ops = [[name, n, seed] for n in order]
        ops.insert(len(ns), [name, 64, None])     # one unseeded call between the two passes
        yield ops


ARMS = [
    Arm('neighbour_sizes', run_history, enumerate=enum_neighbour_sizes, budget=(200, 1500)),
    Arm('history', run_history, strategy=strat_history, quick=8000, thorough=400000,
        budget=(150, 1500),
        doc='model-based call histories over the whole registry: range, determinism across '
            'interleavings, java and trunclcg reference streams'),
    Arm('grid', run_grid, enumerate=enum_grid, exhaustive=True, budget=(200, 1500),
        doc='registry x every n in 1..2048 (+ larger n at every residue mod 64) x seeds, three calls '
            'per key'),
    Arm('trunclcg_bits', run_trunclcg, enumerate=enum_trunclcg, exhaustive=True, budget=(200, 1500),
        doc='trunclcg* x n x seed, one key per case: value == documented stream truncated to n '
            'bits (finding F5 is raised and matched here)'),
    Arm('stuck_bits', run_stuck, enumerate=enum_stuck, exhaustive=False, budget=(200, 1500),
        doc='every requested bit position is 1 for some seed and 0 for some seed (returns n bits, '
            'not fewer)'),
]
