"""C08 - ECDSA signatures with biased or predictable nonces reveal the signing key."""

import math

from hypothesis import strategies as st

from gens import artifacts as art
from gens import ecdsa_gen as eg
from gens.common import Material, material
from harness.core import Arm, Violation, libcall

from paranoid_crypto.lib import paranoid  # pylint: disable=unused-import
from paranoid_crypto.lib import ecdsa_sig_checks as sc
from paranoid_crypto.lib import lcg_constants

ID = 'C08'
TITLE = 'ECDSA signatures with biased or predictable nonces reveal the signing key'
RULE = (
    'A case is a batch built from one weak issuer (curve, private key d, m signatures whose nonces have '
    't biased bits: top bits zero / common prefix / common suffix / a secret multiple of such values; or '
    'U2F nonces - every byte repeated four times, 2 signatures; or GMP lc_2exp streams of a shipped '
    '(curve, size) model with sliding_window_size..+6 consecutive signatures), optionally interleaved with '
    'a healthy issuer on the same curve, an issuer on a second curve and duplicated signatures. Signing '
    'uses the independent reference arithmetic / OpenSSL. Oracle: every signature of the weak issuer is '
    'marked by the corresponding check and its DISCRETE_LOG record equals d; every other signature has '
    'the verdict it gets when its issuer is checked alone. Asserted region: see ASSERTED below; the rest '
    'of the region the property states (m*t >= 2*bits, t >= 16, >= 24 signatures for the multiplied form) '
    'is the recorded finding F11. Non-trivial: the weak issuer lies in the asserted region and the batch '
    'contains another issuer; distinct by descriptor hash.')
ASSUMPTIONS = [
    'reference signing (refs/ec_ref.py, OpenSSL scalar multiplication) produces real ECDSA signatures (checked by C09)',
    'GMP lc_2exp multiplier table transcribed in gens/ecdsa_gen.py (validated at design time against the declared biases)',
    'lattice reduction is heuristic: a miss inside the asserted region is reported as a violation and needs human classification',
]
TECHNIQUE = 'property-based testing (Hypothesis): constructed biased-nonce issuers in mixed batches; oracle = flagged with the planted private key'

KINDS = ('msb', 'prefix', 'postfix', 'gen')
CHECKS = {
    'msb': sc.CheckNonceMSB, 'prefix': sc.CheckNonceCommonPrefix,
    'postfix': sc.CheckNonceCommonPostfix, 'gen': sc.CheckNonceGeneralized,
}
CURVES7 = [eg.C.CURVE_SECP256R1, eg.C.CURVE_SECP256K1, eg.C.CURVE_SECP384R1, eg.C.CURVE_SECP521R1,
           eg.C.CURVE_BRAINPOOLP256R1, eg.C.CURVE_BRAINPOOLP384R1, eg.C.CURVE_BRAINPOOLP512R1]


def stated(kind, bits, t, m):
  """The region the property statement claims."""
  return t >= 16 and m * t >= 2 * bits and (kind != 'gen' or m >= 24)


def asserted(kind, bits, t, m):
  """The region in which design-time populations (23 680 issuers) showed no miss."""
  # m*t >= 4*bits: at 3.5*bits the common-suffix check still misses about 1 issuer in 60 when m*t exceeds
  # 3.5*bits by less than 0.5% (t = 39, 23 signatures on 256-bit curves), see DESIGN.md C08
  if not stated(kind, bits, t, m) or m * t < 4 * bits:
    return False
  if kind == 'gen':
    return t >= 16 and m >= 24
  if 16 <= t <= 48:
    return True
  return 48 < t <= 96 and m >= 8 and bits <= 256


def _dlog(sig):
  v = art.attached(sig.test_info, 'DISCRETE_LOG')
  if v is None or isinstance(v, list):
    return None
  return int(v, 16)


def _build(desc, weak_nonces, weak_ct, mat, hlen):
  """Returns (sigs, owners) - owners[i] in {'weak', 'healthy', 'other'}."""
  n = eg.ref(weak_ct).n
  d = 1 + mat.below(n - 1)
  weak = eg.Issuer(weak_ct, d)
  items = []
  for k in weak_nonces:
    s = None
    while s is None:
      s = weak.sig(k, eg.random_hash(mat, hlen))
      if s is None:   # r == 0 or s == 0: practically impossible
        raise AssertionError('degenerate signature')
    items.append(('weak', s))
  if desc.get('healthy'):
    hi = eg.Issuer(weak_ct, 1 + mat.below(n - 1))
    for k in eg.nonces_uniform(mat, n, desc['healthy']):
      items.append(('healthy', hi.sig(k, eg.random_hash(mat, hlen))))
  if desc.get('other'):
    oc = [c for c in CURVES7 if c != weak_ct][desc['other'] % 6]
    on = eg.ref(oc).n
    oi = eg.Issuer(oc, 1 + mat.below(on - 1))
    for k in eg.nonces_uniform(mat, on, 1 + desc['other'] % 3):
      items.append(('other', oi.sig(k, eg.random_hash(mat, 32))))
  if desc.get('samekey'):
    # the same private key used on a second curve, also with biased nonces: both must be recovered
    oc = [c for c in CURVES7 if c != weak_ct and eg.ref(c).n.bit_length() <= 256][desc['samekey'] % 2]
    on = eg.ref(oc).n
    twin = eg.Issuer(oc, d % on or 1)
    for k in eg.nonces_msb(mat, on, 64, 16):
      items.append(('twin', twin.sig(k, eg.random_hash(mat, 32))))
  for _ in range(desc.get('dups', 0)):
    o, s = items[mat.below(len(items))]
    c = type(s)()
    c.CopyFrom(s)
    items.append((o, c))
  if desc.get('interleave'):
    # keep the relative order of the weak issuer's signatures (LCG streams are consecutive)
    rest = [it for it in items if it[0] != 'weak']
    weak_items = [it for it in items if it[0] == 'weak']
    merged = []
    rest = mat.shuffle(rest)
    while weak_items or rest:
      if weak_items and (not rest or mat.below(2)):
        merged.append(weak_items.pop(0))
      else:
        merged.append(rest.pop(0))
    items = merged
  if desc.get('samekey'):
    weak.twin = twin
  return weak, [s for _, s in items], [o for o, _ in items]


def _judge(check_cls, weak, sigs, owners, clause, ctx):
  name = check_cls.__name__
  libcall(check_cls().Check, sigs)
  missed = wrong = 0
  for s, o in zip(sigs, owners):
    e = art.entry(s.test_info, name)
    if e is None:
      raise Violation(clause + ':no-entry', **ctx)
    if o == 'weak':
      if not e[0] or not s.test_info.weak:
        missed += 1
      elif _dlog(s) != weak.d:
        wrong += 1
    elif o == 'twin' and check_cls is sc.CheckNonceMSB:
      if not e[0] or _dlog(s) != weak.twin.d:
        raise Violation(clause + ':same-key-on-second-curve-missed', entry=e, **ctx)
  # the other issuers keep the verdict they get when checked alone
  for who in ('healthy', 'other'):   # ('twin' is a weak issuer of its own and judged above)
    idx = [i for i, o in enumerate(owners) if o == who]
    if not idx:
      continue
    alone = []
    for i in idx:
      c = type(sigs[i])()
      c.ecdsa_sig_info.CopyFrom(sigs[i].ecdsa_sig_info)
      c.issuer_key_info.CopyFrom(sigs[i].issuer_key_info)
      alone.append(c)
    libcall(check_cls().Check, alone)
    for i, c in zip(idx, alone):
      ea, eb = art.entry(c.test_info, name), art.entry(sigs[i].test_info, name)
      if ea is None or eb is None or ea[0] != eb[0] or _dlog(c) != _dlog(sigs[i]):
        raise Violation(clause + ':neighbour-verdict-changed', who=who, alone=ea, in_batch=eb, **ctx)
  if wrong:
    raise Violation(clause + ':wrong-key', wrong=wrong, **ctx)
  if missed:
    raise Violation(clause + ':missed', missed=missed, of=owners.count('weak'), **ctx)


# ---------------------------------------------------------------- bias families

def run_bias(desc):
  mat = Material(desc['m'], 'c08')
  ct = CURVES7[desc['curve'] % 7]
  n = eg.ref(ct).n
  bits = n.bit_length()
  kind = KINDS[desc['kind'] % 4]
  t = desc['t']
  ratio = desc['ratio10'] / 10.0
  m = max(2, math.ceil(ratio * bits / t))
  if kind == 'gen':
    m = max(m, 24)
  if t > 48 and kind != 'gen':
    m = max(m, 8 if desc.get('m8', True) else 2)
  sub = ('msb', 'prefix', 'postfix')[desc['sub'] % 3]
  if kind == 'msb':
    ks = eg.nonces_msb(mat, n, t, m)
  elif kind == 'prefix':
    ks = eg.nonces_prefix(mat, n, t, m)
  elif kind == 'postfix':
    ks = eg.nonces_postfix(mat, n, t, m)
  else:
    ks = eg.nonces_generalized(mat, n, t, m, sub)
    if any(k == 0 for k in ks):
      ks = [k or 1 for k in ks]
  hlen = [20, 28, 32, 48, 64][desc['hsel'] % 5]
  weak, sigs, owners = _build(desc, ks, ct, mat, hlen)
  ctx = dict(kind=kind, curve=eg.CURVE_NAMES[ct], bits=bits, t=t, m=m, sub=sub if kind == 'gen' else None)
  inreg = asserted(kind, bits, t, m)
  _judge(CHECKS[kind], weak, sigs, owners, 'bias', ctx)
  cls = ['bias kind=%s' % kind, 'bias bits=%d' % bits,
         'bias t=%s' % ('16-24' if t <= 24 else '25-48' if t <= 48 else '49-96' if t <= 96 else '97+'),
         'bias region=%s' % ('asserted' if inreg else 'stated-only' if stated(kind, bits, t, m) else 'outside')]
  if 'healthy' in owners or 'other' in owners:
    cls.append('bias mixed-batch')
  return {'nt': inreg and len(set(owners)) > 1, 'cls': cls, 'm_sigs': m}


def strat_bias(tier):
  curve = st.sampled_from([0, 0, 0, 1, 1, 4, 4, 2, 5] + ([3, 6, 2, 5] if tier == 'thorough' else []))
  @st.composite
  def s(draw):
    region = draw(st.sampled_from(['A', 'A', 'A', 'A', 'B', 'K']))
    if region == 'A':      # 16 <= t <= 48, ratio >= 4
      t = draw(st.integers(16, 48))
      ratio10 = draw(st.sampled_from([40, 40, 41, 45, 50]))
    elif region == 'B':    # 48 < t <= 96 on 256-bit curves (others fall into the finding region)
      t = draw(st.integers(49, 96))
      ratio10 = draw(st.sampled_from([40, 45, 50]))
    else:                  # stated but not asserted: margin band and large bias
      t = draw(st.one_of(st.integers(16, 48), st.integers(49, 200)))
      ratio10 = draw(st.sampled_from([20, 22, 25, 30, 35, 38]))
    c = draw(curve)
    if tier == 'quick' and t < 24 and c in (2, 3, 5, 6):
      t = draw(st.integers(24, 48))   # bound the lattice dimension in the quick tier
    return {
        'm': draw(material), 'curve': c, 'kind': draw(st.integers(0, 3)), 't': t,
        'ratio10': ratio10, 'sub': draw(st.integers(0, 2)), 'hsel': draw(st.integers(0, 4)),
        'healthy': draw(st.sampled_from([0, 1, 3, 5])), 'other': draw(st.sampled_from([0, 0, 1, 2, 7])),
        'dups': draw(st.sampled_from([0, 0, 1, 3])), 'interleave': draw(st.booleans()),
        'm8': region != 'K' or draw(st.booleans()),
        'samekey': draw(st.sampled_from([0, 0, 0, 1, 2, 3, 4]))}
  return s()


# ---------------------------------------------------------------- U2F

U2F_CURVES = [c for c in eg.PRIME_CURVES if eg.ref(c).n.bit_length() % 32 == 0]


def run_u2f(desc):
  mat = Material(desc['m'], 'c08u')
  ct = U2F_CURVES[desc['curve'] % len(U2F_CURVES)]
  n = eg.ref(ct).n
  ks = eg.nonces_u2f(mat, n, 2 + desc['extra'])
  weak, sigs, owners = _build(desc, ks, ct, mat, [20, 32, 48, 64][desc['hsel'] % 4])
  _judge(sc.CheckCr50U2f, weak, sigs, owners, 'u2f',
         dict(curve=eg.CURVE_NAMES[ct], nsigs=len(ks)))
  return {'nt': len(set(owners)) > 1, 'cls': ['u2f curve=%s' % eg.CURVE_NAMES[ct], 'u2f sigs=%d' % len(ks)]}


def strat_u2f(tier):
  return st.fixed_dictionaries({
      'm': material, 'curve': st.integers(0, 20), 'extra': st.sampled_from([0, 0, 0, 1, 3]),
      'hsel': st.integers(0, 3), 'healthy': st.sampled_from([0, 1, 2]),
      'other': st.sampled_from([0, 1, 2]), 'dups': st.sampled_from([0, 1]),
      'interleave': st.booleans()})


# ---------------------------------------------------------------- GMP LCG

GMP_MODELS = [e for e in lcg_constants.CONSTANT_FACTORY if e['lcg'] == lcg_constants.LcgName.GMP]


def run_gmp(desc):
  mat = Material(desc['m'], 'c08g')
  e = GMP_MODELS[desc['model'] % len(GMP_MODELS)]
  ct = e['curve']
  n = eg.ref(ct).n
  nsig = e['sliding_window_size'] + desc['extra']
  ks = None
  while ks is None:
    ks = eg.nonces_gmp(mat, n, e['lcg_size'], nsig)
  weak, sigs, owners = _build(desc, ks, ct, mat, [32, 48, 64][desc['hsel'] % 3])
  _judge(sc.CheckLCGNonceGMP, weak, sigs, owners, 'gmp',
         dict(curve=eg.CURVE_NAMES[ct], lcg_size=e['lcg_size'], nsigs=nsig,
              window=e['sliding_window_size']))
  return {'nt': len(set(owners)) > 1,
          'cls': ['gmp %s/%d' % (eg.CURVE_NAMES[ct], e['lcg_size']), 'gmp extra=%d' % desc['extra']]}


def strat_gmp(tier):
  return st.fixed_dictionaries({
      'm': material, 'model': st.integers(0, len(GMP_MODELS) - 1), 'extra': st.integers(0, 6),
      'hsel': st.integers(0, 2), 'healthy': st.sampled_from([0, 1, 2]),
      'other': st.sampled_from([0, 0, 1]), 'dups': st.sampled_from([0, 1]),
      'interleave': st.booleans()})


def enum_gmp(tier):
  for mi in range(len(GMP_MODELS)):
    for extra in ((0, 3) if tier == 'quick' else range(7)):
      for k in range(1 if tier == 'quick' else 4):
        yield {'m': mi * 1000 + extra * 10 + k, 'model': mi, 'extra': extra, 'hsel': k,
               'healthy': (mi + extra + k) % 3, 'other': (mi + k) % 2, 'dups': 0,
               'interleave': bool((mi + k) % 2)}


# ---------------------------------------------------------------- known finding F11

def _f11(arm_name, desc, v):
  """Detection miss (never a wrong key) in the stated-but-not-asserted region."""
  if arm_name != 'bias' or v.clause != 'bias:missed':
    return False
  if isinstance(desc, dict) and desc.get('sentinel'):
    # replays/C08/sentinel-*: cases of the stated-only region that ARE detected on the pinned tree; a miss
    # there is a regression, not the recorded finding
    return False
  d = v.detail
  return stated(d['kind'], d['bits'], d['t'], d['m']) and not asserted(d['kind'], d['bits'], d['t'], d['m'])


KNOWN = {'F11': _f11}

ARMS = [
    Arm('bias', run_bias, strategy=strat_bias, quick=480, thorough=6000, budget=(170, 2400), weight=3),
    Arm('u2f', run_u2f, strategy=strat_u2f, quick=320, thorough=4000, budget=(120, 1200)),
    Arm('gmp_models', run_gmp, enumerate=enum_gmp, budget=(170, 2400), weight=2),
    Arm('gmp', run_gmp, strategy=strat_gmp, quick=48, thorough=1200, budget=(170, 2400), weight=2),
]
