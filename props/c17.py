"""C17 - a verdict does not depend on batch neighbours, batch order or earlier calls."""

import json
import os
import subprocess
import sys

import gmpy2 as gmpy
from hypothesis import strategies as st

from gens import artifacts as art
from gens import ecdsa_gen as eg
from gens import rsa_families as fam
from gens.common import Material, material
from harness import boot
from harness.core import Arm, Violation, libcall

from paranoid_crypto.lib import paranoid  # pylint: disable=unused-import
from paranoid_crypto.lib import ec_aggregate_checks
from paranoid_crypto.lib import ec_single_checks
from paranoid_crypto.lib import ec_util
from paranoid_crypto.lib import ecdsa_sig_checks as sc
from paranoid_crypto.lib import rsa_aggregate_checks
from paranoid_crypto.lib import rsa_single_checks
from props.c01 import _LowHW

ID = 'C17'
TITLE = 'A verdict does not depend on batch neighbours, batch order or earlier calls'
RULE = (
    'A case builds a set of artifacts of one type (RSA keys / EC keys / ECDSA signatures; weak and healthy '
    'mixed; weak signature sets only from the asserted region of C08 or clearly unbiased) and evaluates one '
    'check class in several contexts on fresh copies: each artifact alone, the full batch, a drawn '
    'permutation, the batch plus healthy extras, the batch after a drawn history of other calls in the same '
    'process (discrete-log searches with larger/smaller bounds and difference tables on the same and other '
    'curves, checks on other key sizes and curves), and the batch in a freshly spawned python process. '
    'Oracle: for checks that judge artifacts individually the result entry and the attached evidence are '
    'identical in all contexts; for joint checks (CheckGCD, CheckGCDN1, CheckECKeySmallDifference, signature '
    'checks per issuer) permuting permutes the verdicts, healthy extras change nothing for the others (only '
    'the partner named in a difference record may differ), and whatever is flagged in the fresh process is '
    'flagged after the history. Non-trivial: some artifact is weak and the contexts differ by a permutation '
    'or a preceding call on the same curve; distinct by descriptor hash.')
ASSUMPTIONS = [
    'CheckECKeySmallDifference is constructed with max_diff <= 2^12 and CheckLowHammingWeight with <= 20000 steps (documented parameters)',
    'the fresh process is started with the same interpreter, PYTHONHASHSEED=0 and the same generated modules',
]
TECHNIQUE = 'metamorphic property-based testing (alone / batch / permutation / extras / after-history / fresh-process contexts) with Hypothesis-generated batches and histories'

VERIF = boot.VERIF


def _copy(a):
  c = type(a)()
  c.CopyFrom(a)
  c.ClearField('test_info')
  return c


def _verdict(a, name):
  e = art.entry(a.test_info, name)
  info = {x.info_name: x.value for x in a.test_info.attached_info}
  return [None if e is None else [bool(e[0]), int(e[1])], bool(a.test_info.weak), info]


def _run(check_ctor, name, arts):
  cs = [_copy(a) for a in arts]
  libcall(check_ctor().Check, cs)
  return [_verdict(c, name) for c in cs]


# ---------------------------------------------------------------- builders (deterministic from the descriptor)

def build_rsa(desc):
  mat = Material(desc['m'], 'c17r')
  ns, primes = [], []
  for kind, k in desc['arts']:
    if kind == 'fermat':
      p, q, _ = fam.fermat_close(mat, 256, k % 50)
    elif kind == 'shared' and primes:
      p, q = primes[k % len(primes)], mat.prime(256, top2=True)
    elif kind == 'pattern':
      p, q = fam.pattern_prime(mat, 512, [8, 16, 31][k % 3])[0], mat.prime(512, top2=True)
    elif kind == 'pattern_big':
      # larger modulus whose prime repeats a long word (only the large pattern sizes of the list apply)
      N, w = [(2048, 127), (2048, 128), (2048, 255), (3072, 255), (3072, 256), (2048, 256)][k % 6]
      p, q = fam.pattern_prime(mat, N // 2, w, low_dev_bits=12)[0], mat.prime(N // 2, top2=True)
    elif kind == 'permuted_big':
      N = [2048, 3072][k % 2]
      adm = [(16, 9), (16, 11), (32, 5), (32, 7), (64, 3)]
      ws, ps = adm[k % len(adm)]
      p, q = fam.permuted_pattern_prime(mat, N // 2, ps, ws)[0], mat.prime(N // 2, top2=True)
    elif kind == 'unseeded':
      from paranoid_crypto.lib.data import unseeded_rands  # pylint: disable=g-import-not-at-top
      vals = sorted(unseeded_rands.size_unseeded_map[512])
      v = vals[k % len(vals)] | (3 << 510)
      p = fam.next_prime(v)
      while True:
        q = mat.prime(512)
        if ((p * q).bit_length() + 1) // 2 == 512:
          break
    elif kind == 'keypair':
      # two keys of the vulnerable keypair generator from the SAME seed, of different sizes
      from paranoid_crypto.lib import keypair_generator  # pylint: disable=g-import-not-at-top
      seed = bytes([k % 256] + [0] * 31)
      for bits in ((2048, 3072) if k % 2 else (3072, 2048)):
        kp, kq = keypair_generator.Generator(seed).generate_key(bits)
        ns.append(int(kp) * int(kq))
      continue
    elif kind == 'healthy_1024':
      p, q = fam.healthy(mat, 1024)
    elif kind == 'healthy_small':
      p, q = fam.healthy(mat, [768, 1024, 1536][k % 3])
    elif kind == 'lowhw':
      p, q = fam.low_hw_prime(mat, 256, 4), fam.low_hw_prime(mat, 256, 5)
    elif kind == 'n1shared':
      g = int(gmpy.next_prime(mat.bits(140) | (1 << 139)))
      ns.append(g * (mat.bits(380) | 1) * 2 + 1)
      ns.append(g * (mat.bits(380) | 1) * 2 + 1)
      continue
    elif kind == 'dup' and ns:
      ns.append(ns[k % len(ns)])
      continue
    else:
      p, q = fam.healthy(mat, 512)
    primes += [p, q]
    ns.append(p * q)
  return [art.rsa_key(n) for n in ns]


def build_ec(desc):
  mat = Material(desc['m'], 'c17e')
  keys, last = [], {}
  for cur, kind, k in desc['arts']:
    cid = [eg.C.CURVE_SECP256R1, eg.C.CURVE_BRAINPOOLP256R1, eg.C.CURVE_SECP224R1, eg.C.CURVE_SECP384R1,
           eg.C.CURVE_SECP192R1, 0][cur % 6]
    if cid not in eg.CURVE_NAMES:
      keys.append(art.ec_key(cid, mat.bits(200), mat.bits(200)))
      continue
    n = eg.ref(cid).n
    if kind == 'near' and cid in last:
      d = (last[cid] + 1 + k % 1000) % n or 1
    elif kind == 'small':
      d = 1 + k % 5000
    elif kind == 'shift':
      d = (1 + mat.bits(32)) << (8 * (k % 20))
    elif kind == 'same' and cid in last:
      d = last[cid]
    else:
      d = 1 + mat.below(n - 1)
    last[cid] = d
    x, y = eg.mul_g(cid, d)
    if kind == 'off':
      y = (y + 1) % eg.ref(cid).p
    keys.append(art.ec_key(cid, x, y))
  return keys


SIG_CURVES = [eg.C.CURVE_BRAINPOOLP256R1, eg.C.CURVE_SECP256R1, eg.C.CURVE_SECP384R1, eg.C.CURVE_SECP224R1]


_LAST_ISSUERS = []


def build_sig(desc):
  mat = Material(desc['m'], 'c17s')
  sigs = []
  del _LAST_ISSUERS[:]
  for cur, kind, t, k in desc['arts']:
    cid = SIG_CURVES[cur % len(SIG_CURVES)]
    n = eg.ref(cid).n
    bits = n.bit_length()
    iss = eg.Issuer(cid, 1 + mat.below(n - 1))
    _LAST_ISSUERS.append(iss)
    t = 24 + t % 25                      # 24..48 biased bits
    m = -(-4 * bits // t)                # ratio >= 4: well inside the asserted region of C08
    if kind == 'msb':
      ks = eg.nonces_msb(mat, n, t, m)
    elif kind == 'prefix':
      ks = eg.nonces_prefix(mat, n, t, m)
    elif kind == 'postfix':
      ks = eg.nonces_postfix(mat, n, t, m)
    elif kind == 'u2f' and bits % 32 == 0:
      ks = eg.nonces_u2f(mat, n, 2 + k % 2)
    else:
      ks = eg.nonces_uniform(mat, n, 1 + k % 4)
    for kk in ks:
      s = iss.sig(kk, mat.bytes(32))
      if s is not None:
        sigs.append(s)
  return sigs


def healthy_extras(t, desc, count):
  mat = Material(desc['m'], 'c17x')
  if t == 'rsa':
    return [art.rsa_key(p * q) for p, q in (fam.healthy(mat, 512) for _ in range(count))]
  if t == 'ec':
    out = []
    for i in range(count):
      cid = [eg.C.CURVE_SECP256R1, eg.C.CURVE_BRAINPOOLP256R1, eg.C.CURVE_SECP224R1][i % 3]
      x, y = eg.mul_g(cid, 1 + mat.below(eg.ref(cid).n - 1))
      out.append(art.ec_key(cid, x, y))
    return out
  out = []
  for i in range(count):
    cid = SIG_CURVES[(desc['arts'][0][0] + (i // 3)) % len(SIG_CURVES)]
    n = eg.ref(cid).n
    iss = eg.Issuer(cid, 1 + mat.below(n - 1))
    for kk in eg.nonces_uniform(mat, n, 1 + i % 2):
      out.append(iss.sig(kk, mat.bytes(32)))
  return out


BUILD = {'rsa': build_rsa, 'ec': build_ec, 'sig': build_sig}

# (constructor, joint?) per check name
CHECKS = {
    'rsa': {
        'CheckSizes': (rsa_single_checks.CheckSizes, False),
        'CheckFermat': (rsa_single_checks.CheckFermat, False),
        'CheckHighAndLowBitsEqual': (rsa_single_checks.CheckHighAndLowBitsEqual, False),
        'CheckContinuedFractions': (rsa_single_checks.CheckContinuedFractions, False),
        'CheckBitPatterns': (rsa_single_checks.CheckBitPatterns, False),
        'CheckPermutedBitPatterns': (rsa_single_checks.CheckPermutedBitPatterns, False),
        'CheckUnseededRand': (rsa_single_checks.CheckUnseededRand, False),
        'CheckSmallUpperDifferences': (rsa_single_checks.CheckSmallUpperDifferences, False),
        'CheckROCA': (rsa_single_checks.CheckROCA, False),
        'CheckKeypairDenylist': (rsa_single_checks.CheckKeypairDenylist, False),
        'CheckLowHammingWeight': (lambda: _LowHW(20000), False),
        'CheckGCD': (rsa_aggregate_checks.CheckGCD, True),
        'CheckGCDN1': (rsa_aggregate_checks.CheckGCDN1, True),
    },
    'ec': {
        'CheckValidECKey': (ec_single_checks.CheckValidECKey, False),
        'CheckWeakCurve': (ec_single_checks.CheckWeakCurve, False),
        'CheckWeakECPrivateKey': (ec_single_checks.CheckWeakECPrivateKey, False),
        'CheckECKeySmallDifference': (lambda: ec_aggregate_checks.CheckECKeySmallDifference(max_diff=2**12), True),
    },
    'sig': {
        'CheckNonceMSB': (sc.CheckNonceMSB, True),
        'CheckNonceCommonPrefix': (sc.CheckNonceCommonPrefix, True),
        'CheckNonceCommonPostfix': (sc.CheckNonceCommonPostfix, True),
        'CheckCr50U2f': (sc.CheckCr50U2f, True),
        'CheckLCGNonceGMP': (sc.CheckLCGNonceGMP, True),
    },
}


AIM = {
    'pattern': 'CheckBitPatterns', 'pattern_big': 'CheckBitPatterns', 'permuted_big': 'CheckPermutedBitPatterns',
    'fermat': 'CheckFermat', 'shared': 'CheckGCD', 'dup': 'CheckGCD', 'n1shared': 'CheckGCDN1',
    'lowhw': 'CheckLowHammingWeight', 'unseeded': 'CheckUnseededRand', 'keypair': 'CheckKeypairDenylist',
    'near': 'CheckECKeySmallDifference', 'same': 'CheckECKeySmallDifference',
    'small': 'CheckWeakECPrivateKey', 'shift': 'CheckWeakECPrivateKey', 'off': 'CheckValidECKey',
    'msb': 'CheckNonceMSB', 'prefix': 'CheckNonceCommonPrefix', 'postfix': 'CheckNonceCommonPostfix',
    'u2f': 'CheckCr50U2f',
}


def _same(v1, v2, joint, name):
  """Verdict equality; for difference records only the flag (the named partner may legitimately differ)."""
  if v1[0] != v2[0] or v1[1] != v2[1]:
    return False
  if name in ('CheckECKeySmallDifference', 'CheckGCDN1'):
    # the partner named in a difference record, and the exact gcd of the n-1 values (which picks up small
    # common factors of any additional key), legitimately depend on the batch: compare the flags
    return set(v1[2]) == set(v2[2])
  return v1[2] == v2[2]


def _history(desc, mat):
  """Other work in the same process that leaves caches / tables in various states."""
  for op in desc['history']:
    kind, a, b = op
    cid = [eg.C.CURVE_SECP256R1, eg.C.CURVE_BRAINPOOLP256R1, eg.C.CURVE_SECP224R1,
           eg.C.CURVE_SECP384R1][a % 4]
    curve = ec_util.CURVE_FACTORY[cid]
    n = eg.ref(cid).n
    pts = [tuple(gmpy.mpz(c) for c in eg.mul_g(cid, 1 + (b * 7919 + i) % 100000)) for i in range(1 + b % 3)]
    if kind == 'batchdl':
      libcall(curve.BatchDL, pts, [2, 2**8, 2**16, 2**20][b % 4])
    elif kind == 'diffs':
      libcall(curve.BatchDLOfDifferences, pts + [tuple(gmpy.mpz(c) for c in eg.mul_g(cid, 5))], None,
              [2**4, 2**10, 2**14][b % 3])
    elif kind == 'bigdiffs':
      # a pair search whose table is larger than the one a weak-private-key search uses (rebuilds the shared table)
      libcall(curve.BatchDLOfDifferences, pts + [tuple(gmpy.mpz(c) for c in eg.mul_g(cid, 5))], None, 2**20)
    elif kind == 'reset':
      curve._table, curve._table_size = {}, 0
    elif kind == 'sigtwin' and _LAST_ISSUERS:
      # the same private key used on another curve, checked earlier in this process
      src = _LAST_ISSUERS[b % len(_LAST_ISSUERS)]
      oc = [c for c in SIG_CURVES if c != src.curve_type][a % 3]
      on = eg.ref(oc).n
      twin = eg.Issuer(oc, src.d % on or 1)
      ts = [twin.sig(k, mat.bytes(32)) for k in eg.nonces_msb(mat, on, 48, -(-4 * on.bit_length() // 48))]
      for c in (sc.CheckNonceMSB, sc.CheckNonceCommonPrefix):
        libcall(c().Check, [x for x in ts if x is not None])
    elif kind == 'small_table':
      # leaves a very small cached table on every curve
      for c2 in ec_util.CURVE_FACTORY.values():
        if c2 is not None:
          c2._table, c2._table_size = {}, 0
          libcall(c2.BatchDLOfDifferences, [c2.g, c2.Multiply(c2.g, 3)], None, 2 ** (2 + b % 3))
    elif kind == 'multg':
      libcall(curve.BatchMultiplyG, [1 + mat.below(n - 1) for _ in range(1 + b % 4)])
    elif kind == 'rsa':
      p, q = fam.healthy(mat, [512, 1024, 2048][b % 3])
      k = art.rsa_key(p * q)
      for c in (rsa_single_checks.CheckUnseededRand, rsa_single_checks.CheckFermat,
                rsa_aggregate_checks.CheckGCD):
        libcall(c().Check, [k])
      for nm in ('CheckBitPatterns', 'CheckPermutedBitPatterns', 'CheckContinuedFractions', 'CheckUnseededRand'):
        libcall(paranoid.GetRSAAllChecks()[nm].Check, [k])
    elif kind == 'ecall':
      x, y = eg.mul_g(cid, 1 + mat.below(n - 1))
      libcall(ec_aggregate_checks.CheckECKeySmallDifference(max_diff=[2**3, 2**13][b % 2]).Check,
              [art.ec_key(cid, x, y), art.ec_key(cid, *eg.mul_g(cid, 1 + mat.below(n - 1)))])


def _fresh_process(desc, t, name):
  env = dict(os.environ, PYTHONHASHSEED='0', VERIF_REPO=boot.REPO)
  payload = json.dumps({'desc': desc, 't': t, 'name': name})
  r = subprocess.run([sys.executable, '-c',
                      'import sys; sys.path.insert(0, %r); from props import c17; c17._child()' % VERIF],
                     input=payload, capture_output=True, text=True, env=env, timeout=900, cwd=VERIF)
  if r.returncode != 0:
    raise RuntimeError('fresh process failed: ' + r.stderr[-1500:])
  return json.loads(r.stdout.strip().splitlines()[-1])


def _child():
  req = json.loads(sys.stdin.read())
  arts = BUILD[req['t']](req['desc'])
  ctor, _ = CHECKS[req['t']][req['name']]
  print(json.dumps(_run(ctor, req['name'], arts)))


def run_contexts(desc):
  t = desc['type']
  names = list(CHECKS[t])
  name = names[desc['check'] % len(names)]
  if desc.get('aim'):
    # the check that is meant to detect the family of one of the artifacts
    kinds = [a[0] if t == 'rsa' else a[1] for a in desc['arts']]
    aimed = AIM.get(kinds[desc['check'] % len(kinds)])
    if aimed in CHECKS[t]:
      name = aimed
  ctor, joint = CHECKS[t][name]
  if desc.get('singleton') and t == 'rsa' and name in paranoid.GetRSAAllChecks() and name != 'CheckLowHammingWeight':
    # the long-lived instance the all-checks entry point uses (shared by every call of the process)
    inst = paranoid.GetRSAAllChecks()[name]
    ctor = lambda: inst
  mat = Material(desc['m'], 'c17')
  arts = BUILD[t](desc)
  if not arts:
    return {'nt': False, 'cls': ['empty']}
  ctx = dict(type=t, check=name)
  hfirst = bool(desc.get('hfirst') and desc['history'])
  if hfirst:
    # earlier work happens before anything else; the verdicts are then compared with a fresh process
    _history(desc, mat)
  base = _run(ctor, name, arts)
  any_weak = any(v[0] and v[0][0] for v in base)
  compared = ['batch']
  # (1) alone (individually judging checks only)
  if not joint:
    for i, a in enumerate(arts):
      v = _run(ctor, name, [a])[0]
      if not _same(v, base[i], joint, name):
        raise Violation('alone-vs-batch', index=i, alone=v, batch=base[i], **ctx)
    compared.append('alone')
  # (2) permutation
  perm = mat.shuffle(list(range(len(arts))))
  pv = _run(ctor, name, [arts[i] for i in perm])
  for pos, i in enumerate(perm):
    if not _same(pv[pos], base[i], joint, name):
      raise Violation('permutation', index=i, position=pos, permuted=pv[pos], batch=base[i], perm=perm, **ctx)
  compared.append('permutation')
  # (3) healthy extras at drawn positions
  if desc['extras']:
    extras = healthy_extras(t, desc, desc['extras'])
    mixed = [(a, i) for i, a in enumerate(arts)]
    for e in extras:
      mixed.insert(mat.below(len(mixed) + 1), (e, None))
    ev = _run(ctor, name, [a for a, _ in mixed])
    for pos, (_, i) in enumerate(mixed):
      if i is None:
        continue   # whether the extras themselves are accused is C07's business (they are small keys)
      elif not _same(ev[pos], base[i], joint, name):
        raise Violation('healthy-extras-changed-verdict', index=i, with_extras=ev[pos], batch=base[i], **ctx)
    compared.append('extras')
  # (4) after a history of other calls in this process
  if desc['history'] and not hfirst:
    _history(desc, mat)
    hv = _run(ctor, name, arts)
    for i, (h, b) in enumerate(zip(hv, base)):
      if not _same(h, b, joint, name):
        raise Violation('after-history', index=i, after=h, before=b, history=desc['history'], **ctx)
    compared.append('history')
  # (5) fresh process
  if desc['fresh'] or hfirst:
    fv = _fresh_process(desc, t, name)
    now = _run(ctor, name, arts)
    for i, (f, b) in enumerate(zip(fv, now)):
      f = [f[0], f[1], f[2]]
      if not _same(f, b, joint, name):
        raise Violation('fresh-process-vs-this-process', index=i, fresh=f, here=b, **ctx)
    compared.append('fresh-process' + ('-after-history' if hfirst else ''))
  cls = ['%s %s' % (t, name)] + ['context ' + c for c in compared] + (['some-artifact-weak'] if any_weak else [])
  return {'nt': any_weak and len(arts) > 1, 'cls': cls, 'n': len(arts)}


def strat_contexts(tier):
  hist = st.lists(st.tuples(st.sampled_from(['batchdl', 'diffs', 'reset', 'multg', 'rsa', 'ecall', 'small_table', 'small_table', 'sigtwin', 'sigtwin', 'bigdiffs', 'bigdiffs']),
                            st.integers(0, 3), st.integers(0, 1000)).map(list), max_size=4)

  @st.composite
  def s(draw):
    t = draw(st.sampled_from(['rsa', 'rsa', 'ec', 'ec', 'sig']))
    if t == 'rsa':
      arts = draw(st.lists(st.tuples(st.sampled_from(['healthy', 'fermat', 'shared', 'pattern', 'lowhw',
                                                       'n1shared', 'dup', 'pattern_big', 'pattern_big',
                                                       'permuted_big', 'healthy_small', 'healthy_small', 'unseeded', 'unseeded',
                                                       'healthy_1024', 'keypair']),
                                     st.integers(0, 1000)).map(list), min_size=1, max_size=5))
      check = draw(st.integers(0, 12))
    elif t == 'ec':
      arts = draw(st.lists(st.tuples(st.integers(0, 5), st.sampled_from(['random', 'near', 'near', 'small',
                                                                          'shift', 'same', 'off']),
                                     st.integers(0, 1000)).map(list), min_size=1, max_size=5))
      check = draw(st.sampled_from([0, 1, 3, 3, 3, 3, 2, 2]))
    else:
      arts = draw(st.lists(st.tuples(st.integers(0, 3), st.sampled_from(['msb', 'prefix', 'postfix', 'u2f',
                                                                          'uniform', 'uniform']),
                                     st.integers(0, 24), st.integers(0, 1000)).map(list),
                           min_size=1, max_size=3))
      check = draw(st.integers(0, 4))
    return {'m': draw(material), 'type': t, 'arts': arts, 'check': check,
            'extras': draw(st.sampled_from([0, 1, 3])), 'history': draw(hist),
            'fresh': draw(st.sampled_from([False, False, False, True])),
            'singleton': draw(st.booleans()), 'hfirst': draw(st.sampled_from([False, False, True])), 'aim': draw(st.sampled_from([True, True, False]))}
  return s()


ARMS = [
    Arm('contexts', run_contexts, strategy=strat_contexts, quick=208, thorough=4000, budget=(170, 2400)),
]
