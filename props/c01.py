"""C01 - every factor reported for an RSA modulus really divides it."""

import gmpy2 as gmpy
from hypothesis import strategies as st

from gens import artifacts as art
from gens import rsa_families as fam
from gens.common import Material, material
from harness.core import Arm, Violation, libcall

from paranoid_crypto.lib import paranoid
from paranoid_crypto.lib import rsa_aggregate_checks as agg
from paranoid_crypto.lib import rsa_single_checks as single
from paranoid_crypto.lib import rsa_util
from paranoid_crypto.lib import special_case_factoring

ID = 'C01'
TITLE = 'Every factor reported for an RSA modulus really divides it'
RULE = (
    'Batches of 1-6 RSA keys (moduli >= 2^63) drawn from healthy semiprimes, every degenerate class '
    '(prime, prime square, even, power of two, 2^k+-1, three primes, smooth, composite square), every '
    'documented weak family (Fermat-close, shared low/high bits, next_prime(p+D), word patterns, '
    'limb-swapped patterns, low Hamming weight, p-1 smooth, shared primes, nested and duplicate moduli, '
    'both primes shared with two different partners) are passed to one RSA check class constructed with '
    'drawn parameters (or to CheckAllRSA). Oracle (validity predicate, parsed independently of '
    'util.GetAttachedFactors): every N_FACTORS value is a positive divisor of n, every N-1_FACTORS value '
    'divides n-1, a key with a record is weak and the recording check has a positive entry, and some '
    'N_FACTORS value is a proper divisor unless n divides another distinct modulus of the batch. The '
    'factoring helpers are checked the same way on arbitrary n and guesses; an exhaustive grid passes every '
    'degenerate class at several sizes to every factoring check under several constructor parameters. Non-trivial: a factor record '
    '(or a non-empty helper result) was produced; distinct by descriptor hash.')
ASSUMPTIONS = [
    'Python/gmpy2 integer division is correct (the oracle is one division per recorded value)',
    'CheckLowHammingWeight is run with maxsteps <= 20000 in most cases (default only in a few) to bound cost',
]
TECHNIQUE = 'property-based testing (Hypothesis): validity predicate over every factor record, all checks x drawn constructor parameters x weak/degenerate families'

FAMILIES = ('healthy', 'degenerate', 'fermat', 'shared', 'upper', 'pattern', 'permuted', 'lowhw',
            'smooth', 'shared_prime', 'nested', 'dup', 'two_partners', 'tiny_factor', 'near_lowhw', 'near_square',
            'keypair')


def build_batch(desc):
  """Returns list of moduli (ints) for a descriptor."""
  mat = Material(desc['m'], 'c01')
  ns = []
  pool = []   # primes available for sharing
  for spec in desc['keys']:
    f = spec['f']
    bits = spec['bits']
    half = max(33, bits // 2)
    if f == 'healthy':
      p, q = fam.healthy(mat, max(66, bits))
      n = p * q
      pool += [p, q]
    elif f == 'degenerate':
      n = fam.degenerate(mat, fam.DEGENERATE_KINDS[spec['k'] % len(fam.DEGENERATE_KINDS)], bits)
    elif f == 'fermat':
      p, q, _ = fam.fermat_close(mat, half, spec['k'] % 3000)
      n = p * q
    elif f == 'shared':
      hb = max(64, half)
      need = (2 * hb + 3) // 4 + 2
      r = 3 + spec['k'] % (need - 4)
      p, q = fam.shared_bits(mat, hb, r, need - r)
      n = p * q
    elif f == 'upper':
      p, q, _ = fam.small_upper_difference(mat, 384 + (spec['k'] % 2) * 128,
                                           fam.UPPER_DIFFS[spec['k'] % 6])
      n = p * q
    elif f == 'pattern':
      hb = max(128, half)
      w = [1, 3, 5, 7, 8, 16, 31, 32][spec['k'] % 8]
      if w > hb // 8:
        w = 8
      p = fam.pattern_prime(mat, hb, w)[0]
      n = p * mat.prime(hb, top2=True)
    elif f == 'permuted':
      hb = max(256, half)
      p = fam.permuted_pattern_prime(mat, hb, 3 + 2 * (spec['k'] % 3), 8 if hb < 512 else 16)[0]
      n = p * mat.prime(hb, top2=True)
    elif f == 'lowhw':
      hb = max(64, min(256, half))
      n = fam.low_hw_prime(mat, hb, 3 + spec['k'] % 6) * fam.low_hw_prime(mat, hb, 3 + spec['k'] % 5)
    elif f == 'smooth':
      hb = max(80, min(512, half))
      p = fam.smooth_prime(mat, hb)
      q = fam.smooth_prime(mat, hb) if spec['k'] % 2 else mat.prime(hb, top2=True)
      n = p * q
      if p == q:
        n = p * mat.prime(hb, top2=True)
    elif f == 'shared_prime' and pool:
      n = pool[spec['k'] % len(pool)] * mat.prime(half, top2=True)
    elif f == 'nested' and ns:
      n = ns[spec['k'] % len(ns)] * mat.prime(8 + spec['k'] % 40)
    elif f == 'dup' and ns:
      n = ns[spec['k'] % len(ns)]
    elif f == 'two_partners':
      a, b, c, d = (mat.prime(half, top2=True) for _ in range(4))
      ns += [a * c, b * d]
      n = a * b
    elif f == 'near_lowhw':
      # near miss for the low-Hamming-weight search: a*b + delta with sparse a, b
      hb = max(40, min(128, half))
      a = (1 << (hb - 1)) | 1
      b = (1 << (hb - 1)) | 1
      for _ in range(2 + spec['k'] % 4):
        a |= 1 << mat.between(1, hb - 2)
        b |= 1 << mat.between(1, hb - 2)
      n = a * b + [1, 2, 3, -1, -2][spec['k'] % 5]
    elif f == 'near_square':
      # near miss for Fermat: a^2 - b^2 + delta with small b
      hb = max(40, min(512, half))
      a = mat.odd(hb)
      b = 2 * mat.below(1 << (spec['k'] % 20 + 1))
      n = a * a - b * b + [2, -2, 4, 1, -1][spec['k'] % 5]
    elif f == 'keypair':
      # a key of the vulnerable keypair generator (seed covered by the shipped table) followed by a modulus
      # that merely shares its 64 most significant bits
      from paranoid_crypto.lib import keypair_generator  # pylint: disable=g-import-not-at-top
      p, q = keypair_generator.Generator(bytes([spec['k'] % 256] + [0] * 31)).generate_key(2048)
      ns.append(int(p) * int(q))
      n = (int(p) * int(q)) ^ (1 << (100 + spec['k'] % 1500)) | 1
    elif f == 'tiny_factor':
      n = mat.prime(2 + spec['k'] % 12) * mat.prime(max(64, bits))
    else:
      p, q = fam.healthy(mat, max(66, bits))
      n = p * q
      pool += [p, q]
    ns.append(int(n))
  order = desc.get('perm')
  if order:
    ns = [ns[i % len(ns)] for i in order] if len(order) == len(ns) and sorted(
        i % len(ns) for i in order) == list(range(len(ns))) else ns
  return ns


def make_check(desc):
  c = desc['check']
  p = desc.get('param', 0)
  name = c
  if c == 'CheckFermat':
    return single.CheckFermat(max_steps=[0, 1, 10, 1000, 100000, 200000][p % 6]), name
  if c == 'CheckBitPatterns':
    if p % 3 == 0:
      return single.CheckBitPatterns(), name
    mat = Material(p, 'sizes')
    return single.CheckBitPatterns(
        pattern_sizes=[1 + mat.below(600) for _ in range(1 + mat.below(6))]), name
  if c == 'CheckContinuedFractions':
    return single.CheckContinuedFractions(bound=2 ** [4, 8, 16, 32, 48, 64][p % 6]), name
  if c == 'CheckPollardpm1':
    b = [None, 10, 100, 1000, 65536][p % 5]
    return (single.CheckPollardpm1(bound=b) if b else _default_pollard()), name
  if c == 'CheckGCDN1':
    return agg.CheckGCDN1(gcd_bound=2 ** [1, 8, 60, 128, 200][p % 5]), name
  if c == 'CheckGCD':
    return agg.CheckGCD(), name
  if c == 'CheckLowHammingWeight':
    return _LowHW(20000 if p % 8 else None), name
  return getattr(single, c)(), name


_POLLARD = None


def _default_pollard():
  global _POLLARD
  if _POLLARD is None:
    _POLLARD = single.CheckPollardpm1()
  return _POLLARD


class _LowHW(single.CheckLowHammingWeight):
  """CheckLowHammingWeight with a bounded number of search steps (documented parameter
  of rsa_util.CheckLowHammingWeight); same recording code path."""

  def __init__(self, maxsteps):
    super().__init__()
    self.check_name = 'CheckLowHammingWeight'
    self._maxsteps = maxsteps

  def Check(self, artifacts):
    if self._maxsteps is None:
      return super().Check(artifacts)
    orig = rsa_util.CheckLowHammingWeight
    ms = self._maxsteps
    rsa_util.CheckLowHammingWeight = lambda n: orig(n, maxsteps=ms)
    try:
      return super().Check(artifacts)
    finally:
      rsa_util.CheckLowHammingWeight = orig


SINGLE_NAMES = ['CheckSizes', 'CheckExponents', 'CheckROCA', 'CheckROCAVariant', 'CheckFermat',
                'CheckHighAndLowBitsEqual', 'CheckOpensslDenylist', 'CheckContinuedFractions',
                'CheckBitPatterns', 'CheckPermutedBitPatterns', 'CheckPollardpm1',
                'CheckLowHammingWeight', 'CheckUnseededRand', 'CheckSmallUpperDifferences',
                'CheckKeypairDenylist', 'CheckGCD', 'CheckGCDN1']
FACTORING = ['CheckFermat', 'CheckHighAndLowBitsEqual', 'CheckContinuedFractions', 'CheckBitPatterns',
             'CheckPermutedBitPatterns', 'CheckPollardpm1', 'CheckLowHammingWeight',
             'CheckUnseededRand', 'CheckSmallUpperDifferences', 'CheckGCD', 'CheckGCDN1']


def validate(keys, ns, check_names, clause_prefix, ctx):
  recs = 0
  distinct = set(ns)
  for i, (k, n) in enumerate(zip(keys, ns)):
    ti = k.test_info
    try:
      nf = art.factor_set(ti, 'N_FACTORS')
      n1 = art.factor_set(ti, 'N-1_FACTORS')
    except Exception as e:  # unparsable record
      raise Violation(clause_prefix + ':unparsable-record', index=i, n=n, error=repr(e)[:200], **ctx)
    res = art.results(ti)
    for name, entries in res.items():
      if len(entries) != 1:
        raise Violation(clause_prefix + ':duplicate-entry', index=i, name=name, **ctx)
    positive = [nm for nm, e in res.items() if e[0][0]]
    if nf is not None:
      recs += 1
      for f in nf:
        if f < 1 or n % f != 0:
          raise Violation(clause_prefix + ':factor-does-not-divide', index=i, n=n, factor=f,
                          record=sorted(nf), **ctx)
      nested = any(m != n and m % n == 0 for m in distinct)
      if not nested and not any(1 < f < n for f in nf):
        raise Violation(clause_prefix + ':no-proper-divisor', index=i, n=n, record=sorted(nf), **ctx)
    if n1 is not None:
      recs += 1
      for f in n1:
        if f < 1 or (n - 1) % f != 0:
          raise Violation(clause_prefix + ':n1-factor-does-not-divide', index=i, n=n, factor=f, **ctx)
    if nf is not None or n1 is not None:
      if not ti.weak:
        raise Violation(clause_prefix + ':record-without-weak', index=i, n=n, **ctx)
      if not any(nm in positive for nm in check_names):
        raise Violation(clause_prefix + ':record-without-positive-entry', index=i, n=n,
                        positive=positive, **ctx)
  return recs


AIM = {
    'fermat': ['CheckFermat'], 'shared': ['CheckHighAndLowBitsEqual', 'CheckFermat'],
    'upper': ['CheckSmallUpperDifferences'], 'pattern': ['CheckBitPatterns', 'CheckContinuedFractions'],
    'permuted': ['CheckPermutedBitPatterns'], 'lowhw': ['CheckLowHammingWeight'],
    'smooth': ['CheckPollardpm1'], 'shared_prime': ['CheckGCD'], 'nested': ['CheckGCD'],
    'dup': ['CheckGCD', 'CheckGCDN1'], 'two_partners': ['CheckGCD'],
    'degenerate': ['CheckFermat', 'CheckHighAndLowBitsEqual', 'CheckContinuedFractions',
                   'CheckBitPatterns', 'CheckLowHammingWeight', 'CheckPollardpm1'],
    'near_lowhw': ['CheckLowHammingWeight'], 'near_square': ['CheckFermat', 'CheckHighAndLowBitsEqual'],
    'keypair': ['CheckKeypairDenylist'],
    'healthy': ['CheckGCDN1', 'CheckGCD'], 'tiny_factor': ['CheckBitPatterns', 'CheckContinuedFractions'],
}


def _effective_check(desc):
  if desc.get('aim') and desc['check'] != 'ALL':
    fams = [k['f'] for k in desc['keys']]
    cands = AIM.get(fams[desc['param'] % len(fams)], [])
    if cands:
      return cands[desc['param'] % len(cands)]
  return desc['check']


def run_batch(desc):
  desc = dict(desc, check=_effective_check(desc))
  ns = build_batch(desc)
  keys = [art.rsa_key(n) for n in ns]
  if desc['check'] == 'ALL':
    names = SINGLE_NAMES
    saved = paranoid.GetRSAAllChecks().get('CheckLowHammingWeight')
    paranoid.GetRSAAllChecks()['CheckLowHammingWeight'] = _LowHW(20000)
    try:
      libcall(paranoid.CheckAllRSA, keys)
    finally:
      paranoid.GetRSAAllChecks()['CheckLowHammingWeight'] = saved
  else:
    check, name = make_check(desc)
    names = [name]
    if desc.get('pre_run'):
      # the protobufs already carry (negative) entries of the same check from an earlier, weaker run:
      # each key alone (no batch partner) and, where the check has a parameter, its weakest setting
      weakest = {'CheckFermat': lambda: single.CheckFermat(max_steps=0),
                 'CheckContinuedFractions': lambda: single.CheckContinuedFractions(bound=2**4000),
                 'CheckGCDN1': lambda: agg.CheckGCDN1(gcd_bound=2**4000),
                 'CheckBitPatterns': lambda: single.CheckBitPatterns(pattern_sizes=[100000])}
      first = weakest.get(name, lambda: check)()
      for k in keys:
        libcall(first.Check, [k])
    libcall(check.Check, keys)
  recs = validate(keys, ns, names, 'record', {'check': desc['check'], 'param': desc.get('param', 0)})
  fams = sorted({s['f'] for s in desc['keys']})
  cls = ['check=' + desc['check']] + ['family=' + f for f in fams]
  if recs:
    cls.append('record-produced')
  return {'nt': recs > 0, 'cls': cls, 'records': recs, 'nkeys': len(ns)}


def strat_batch(tier):
  maxbits = 1024 if tier == 'quick' else 2048
  key = st.fixed_dictionaries({
      'f': st.sampled_from(FAMILIES),
      'bits': st.sampled_from([64, 65, 96, 128, 200, 256, 512, maxbits]),
      'k': st.integers(0, 10**6)})
  return st.fixed_dictionaries({
      'm': material,
      'keys': st.lists(key, min_size=1, max_size=5),
      'check': st.sampled_from(FACTORING * 3 + SINGLE_NAMES + ['ALL']),
      'param': st.integers(0, 10**6),
      'aim': st.booleans(), 'pre_run': st.sampled_from([False, False, True]),
      'perm': st.one_of(st.none(), st.permutations(list(range(5))).map(list)),
  })


# ---------------------------------------------------------------- helpers

def _pair_ok(n, res):
  return len(res) == 2 and int(res[0]) * int(res[1]) == n and int(res[0]) >= 1


HAIM = {
    'fermat': 'FermatFactor', 'shared': 'FactorHighAndLowBitsEqual', 'upper': 'CheckSmallUpperDifferences',
    'pattern': 'CheckFraction', 'lowhw': 'CheckLowHammingWeight', 'smooth': 'Pollardpm1',
    'degenerate': 'FermatFactor', 'tiny_factor': 'CheckFraction', 'healthy': 'FactorWithGuess',
    'permuted': 'CheckContinuedFraction', 'near_lowhw': 'CheckLowHammingWeight',
    'near_square': 'FermatFactor',
}


def run_helpers(desc):
  if desc.get('aim'):
    desc = dict(desc, helper=HAIM.get(desc['key']['f'], desc['helper']))
  mat = Material(desc['m'], 'c01h')
  ns = build_batch({'m': desc['m'], 'keys': [desc['key']]})
  n = ns[-1]
  g = gmpy.mpz(n)
  h = desc['helper']
  p = desc['param']
  got = None
  if h == 'FermatFactor':
    res = libcall(rsa_util.FermatFactor, g, [0, 1, 100, 20000, 100000][p % 5])
    if res is not None:
      got = [int(x) for x in res]
      if not _pair_ok(n, got):
        raise Violation('helper:fermat-wrong-pair', n=n, got=got)
  elif h == 'FactorHighAndLowBitsEqual':
    res = libcall(rsa_util.FactorHighAndLowBitsEqual, g, p % 6)
    if res is not None:
      got = [int(x) for x in res]
      if not _pair_ok(n, got):
        raise Violation('helper:highlow-wrong-pair', n=n, got=got)
  elif h == 'CheckContinuedFraction':
    ok, res = libcall(rsa_util.CheckContinuedFraction, g, 2 ** [4, 16, 48, 64][p % 4])
    if res:
      got = [int(x) for x in res]
      if not _pair_ok(n, got) or not 1 < got[0] < n:
        raise Violation('helper:cf-wrong-pair', n=n, got=got)
      if ok:
        raise Violation('helper:cf-factors-but-ok', n=n, got=got)
  elif h == 'CheckFraction':
    d0 = [1, 3, 7, 255, 2**31 - 1, 2**64 - 1, 2**127 - 1][p % 7] if p % 2 else 1 + mat.bits(1 + p % 200)
    res = libcall(rsa_util.CheckFraction, g, int(d0))
    if res:
      got = [int(x) for x in res]
      if not _pair_ok(n, got) or not 1 < got[0] < n:
        raise Violation('helper:fraction-wrong-pair', n=n, d0=int(d0), got=got)
  elif h == 'Pollardpm1':
    m = [fam.pollard_default_m(), 2**64 * 3**40 * 5**20 * 7**10, 720720][p % 3]
    weak, res = libcall(rsa_util.Pollardpm1, g, gmpy.mpz(m), 2 ** [1, 20, 60][p % 3])
    if res:
      got = [int(x) for x in res]
      if not _pair_ok(n, got) or not 1 < got[0] < n or not weak:
        raise Violation('helper:pollard-wrong-pair', n=n, got=got, weak=weak)
  elif h == 'CheckLowHammingWeight':
    weak, res = libcall(rsa_util.CheckLowHammingWeight, g, [10, 2500][p % 2], [100, 5000, 20000][p % 3])
    if res:
      got = [int(x) for x in res]
      if not _pair_ok(n, got) or not weak:
        raise Violation('helper:lowhw-wrong-pair', n=n, got=got, weak=weak)
  elif h == 'FactorWithGuess':
    p0 = [mat.bits(n.bit_length() // 2) | 1, int(gmpy.isqrt(n)), 1 + mat.below(n - 1), 1, n, 2,
          int(gmpy.isqrt(n)) + 1 + mat.below(1 << 20)][p % 7]
    res = libcall(special_case_factoring.FactorWithGuess, g, gmpy.mpz(max(1, p0)))
    if res:
      got = [int(x) for x in res]
      if not _pair_ok(n, got) or not 1 < got[0] < n:
        raise Violation('helper:guess-wrong-pair', n=n, p0=p0, got=got)
  elif h == 'CheckSmallUpperDifferences':
    res = libcall(rsa_util.CheckSmallUpperDifferences, g)
    if res:
      got = [int(x) for x in res]
      if not _pair_ok(n, got) or not 1 < got[0] < n:
        raise Violation('helper:upperdiff-wrong-pair', n=n, got=got)
  return {'nt': got is not None, 'cls': ['helper=' + h, 'family=' + desc['key']['f']] +
          (['helper-returned-factors'] if got else [])}


HELPERS = ['FermatFactor', 'FactorHighAndLowBitsEqual', 'CheckContinuedFraction', 'CheckFraction',
           'Pollardpm1', 'CheckLowHammingWeight', 'FactorWithGuess', 'CheckSmallUpperDifferences']
_SOLO = tuple(f for f in FAMILIES if f not in ('shared_prime', 'nested', 'dup', 'two_partners', 'keypair'))


def strat_helpers(tier):
  maxbits = 1024 if tier == 'quick' else 2048
  key = st.fixed_dictionaries({
      'f': st.sampled_from(_SOLO),
      'bits': st.sampled_from([64, 65, 66, 100, 128, 256, 512, 768, maxbits]),
      'k': st.integers(0, 10**6)})
  return st.fixed_dictionaries({'m': material, 'key': key, 'helper': st.sampled_from(HELPERS),
                                'param': st.integers(0, 10**6), 'aim': st.booleans()})


def enum_degenerate(tier):
  """Every degenerate class x every factoring check x sizes x constructor parameters, one key per batch."""
  sizes = [64, 65, 128, 1024] if tier == 'quick' else [64, 65, 66, 96, 128, 200, 256, 512, 1024, 2048]
  params = [0, 1, 4] if tier == 'quick' else [0, 1, 2, 3, 4, 5]
  for k in range(len(fam.DEGENERATE_KINDS)):
    for check in FACTORING:
      for bits in sizes:
        for param in params:
          yield {'m': bits * 7 + param, 'keys': [{'f': 'degenerate', 'bits': bits, 'k': k}], 'check': check,
                 'param': param, 'aim': False, 'pre_run': False, 'perm': None}


ARMS = [
    Arm('degenerate_grid', run_batch, enumerate=enum_degenerate, exhaustive=True),
    Arm('batch_checks', run_batch, strategy=strat_batch, quick=2400, thorough=30000,
        budget=(170, 1700)),
    Arm('helpers', run_helpers, strategy=strat_helpers, quick=3200, thorough=40000,
        budget=(170, 1700)),
]
