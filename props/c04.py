"""C04 - RSA keys whose primes are close in a documented sense are always factored."""

import gmpy2 as gmpy
from hypothesis import strategies as st

from gens import artifacts as art
from gens import rsa_families as fam
from gens.common import Material, material
from harness.core import Arm, Violation, libcall

from paranoid_crypto.lib import rsa_single_checks
from paranoid_crypto.lib import rsa_util
from paranoid_crypto.lib.data import data_pb2
from paranoid_crypto.lib.data import storage as storage_mod
from paranoid_crypto.lib.data import unseeded_rands

ID = 'C04'
TITLE = 'RSA keys whose primes are close in a documented sense are always factored'
RULE = (
    'Four constructed families (no filtering): (1) Fermat-close prime pairs with the exact step '
    'count k = (p+q)/2 - ceil(sqrt n) computed by the harness and max_steps drawn from '
    '{k-1,k,k+1,k+2,0,random} - oracle in both directions (factored iff k < max_steps); '
    '(2) primes agreeing on r >= 3 low and s high bits with r+s >= N/4+2 (all splits); '
    '(3) q = next_prime(p + 2^(L-x)) for the six documented x, primes >= 384 bits, L self-consistent '
    'with the L the check derives; (4) p = next_prime(listed unseeded output or its top-bit variant) '
    'and a user Storage with harness-chosen values. Oracle: the recorded / returned factor set equals '
    '{p, q} and the key is flagged weak. Non-trivial: expected verdict is "factored" (or the exact '
    'boundary k == max_steps where it must NOT be), n odd and not a square; distinct by descriptor hash.')
ASSUMPTIONS = [
    'gmpy2 primality testing (is_prime with 30 rounds / next_prime) is correct',
    'the shipped unseeded-PRNG table defines family (4); the harness does not re-derive GMP/OpenSSL outputs',
]
TECHNIQUE = 'property-based testing (Hypothesis) with constructed weak-key families and an exact two-sided oracle'


def _check_key(check, n, p, q, expect, clause, **ctx):
  key = art.rsa_key(n)
  mode = ctx.pop('neighbour', 0)
  if mode:
    # the same check object also sees a healthy key of the same size: earlier in the batch (1), in an
    # earlier call (2), or the weak key is submitted a second time on a fresh protobuf (3)
    hp, hq = fam.healthy(Material(n % (1 << 61), 'c04nb'), n.bit_length())
    other = art.rsa_key(hp * hq)
    if mode == 1:
      ret = libcall(check.Check, [other, key])
    elif mode == 2:
      libcall(check.Check, [other])
      ret = libcall(check.Check, [key])
    else:
      libcall(check.Check, [art.rsa_key(n)])
      ret = libcall(check.Check, [key])
    ctx['neighbour'] = mode
  else:
    ret = libcall(check.Check, [key])
  name = type(check).__name__
  e = art.entry(key.test_info, name)
  if e is None:
    raise Violation(clause + ':no-entry', check=name, **ctx)
  fs = art.factor_set(key.test_info, 'N_FACTORS')
  if expect:
    if not e[0] or not key.test_info.weak or not ret:
      raise Violation(clause + ':not-flagged', check=name, n=n, p=p, q=q, **ctx)
    if fs != {p, q}:
      raise Violation(clause + ':wrong-factors', check=name, n=n, p=p, q=q,
                      got=sorted(fs or []), **ctx)
  else:
    if e[0] or key.test_info.weak or ret or fs is not None:
      raise Violation(clause + ':flagged-beyond-bound', check=name, n=n, p=p, q=q, **ctx)


# ---------------------------------------------------------------- (1) Fermat exactness

def run_fermat(desc):
  mat = Material(desc['m'], 'c04f')
  p, q, k = fam.fermat_close(mat, desc['pbits'], desc['target'])
  n = p * q
  sel = desc['ms']
  if sel[0] == 'rel':
    ms = max(0, k + sel[1])
  else:
    ms = sel[1]
  expect = k < ms
  res = libcall(rsa_util.FermatFactor, gmpy.mpz(n), ms)
  if expect:
    if res is None or {int(res[0]), int(res[1])} != {p, q}:
      raise Violation('fermat:missed', n=n, p=p, q=q, steps=k, max_steps=ms,
                      got=None if res is None else [int(x) for x in res])
  else:
    if res is not None:
      # any pair returned must at least multiply to n; but with k >= ms nothing may be found
      raise Violation('fermat:found-beyond-bound', n=n, steps=k, max_steps=ms,
                      got=[int(x) for x in res])
  if desc.get('weak_first') and ms >= 1:
    # a Fermat-factorable key is judged first by the same check object in the same batch: the verdict on
    # the key under test must not depend on it
    wp, wq, wk = fam.fermat_close(Material(desc['m'], 'c04fw'), desc['pbits'], 0)
    chk = rsa_single_checks.CheckFermat(max_steps=ms)
    first, key = art.rsa_key(wp * wq), art.rsa_key(n)
    libcall(chk.Check, [first, key])
    e = art.entry(key.test_info, 'CheckFermat')
    fs = art.factor_set(key.test_info, 'N_FACTORS')
    if e is None or bool(e[0]) != expect or bool(key.test_info.weak) != expect or (
        fs != ({p, q} if expect else None)):
      raise Violation('checkfermat:verdict-depends-on-earlier-key', steps=k, max_steps=ms, entry=e,
                      factors=sorted(fs or []), expected_factored=expect)
  _check_key(rsa_single_checks.CheckFermat(max_steps=ms), n, p, q, expect, 'checkfermat',
             steps=k, max_steps=ms)
  cls = ['fermat pbits=%d' % desc['pbits'],
         'fermat ms-k=%s' % (ms - k if abs(ms - k) <= 2 else ('>' if ms > k else '<'))]
  return {'nt': abs(ms - k) <= 2 and p != q, 'cls': cls, 'steps': k, 'max_steps': ms}


def strat_fermat(tier):
  sizes = [64, 65, 96, 128, 256, 512, 1024] + ([1536, 2048] if tier == 'thorough' else [])
  maxt = 20000 if tier == 'quick' else 100000
  return st.fixed_dictionaries({
      'm': material,
      'pbits': st.sampled_from(sizes),
      'target': st.one_of(st.integers(0, 6), st.integers(0, 300), st.integers(0, maxt)),
      'ms': st.one_of(
          st.tuples(st.just('rel'), st.sampled_from([-1, 0, 1, 2])),
          st.tuples(st.just('rel'), st.sampled_from([0, 1])),
          st.tuples(st.just('abs'), st.sampled_from([0, 1, 2])),
          st.tuples(st.just('abs'), st.integers(0, maxt))).map(list),
      'weak_first': st.sampled_from([False, False, True]),
  })


# ---------------------------------------------------------------- (2) shared low/high bits

def run_shared(desc):
  mat = Material(desc['m'], 'c04s')
  pbits = desc['pbits']
  need = (2 * pbits + 3) // 4 + 2 + desc['extra']   # >= ceil(N/4) + 2 for N <= 2*pbits
  r = 3 + desc['rsel'] % max(1, need - 3 - 1)
  s = need - r
  if s < 1 or r + s > pbits - 16:
    r, s = 3, need - 3
  p, q = fam.shared_bits(mat, pbits, r, s)
  n = p * q
  N = n.bit_length()
  ra, sa = fam.agree_low(p, q), fam.agree_high(p, q)
  if not (ra >= 3 and 4 * (ra + sa) >= N + 8):
    raise AssertionError('generator outside the asserted region')  # harness bug if it happens
  f1 = libcall(rsa_util.FermatFactor, gmpy.mpz(n), 100000)
  f2 = libcall(rsa_util.FactorHighAndLowBitsEqual, gmpy.mpz(n))
  ok1 = f1 is not None and {int(x) for x in f1} == {p, q}
  ok2 = f2 is not None and {int(x) for x in f2} == {p, q}
  if f1 is not None and not ok1:
    raise Violation('shared:fermat-wrong-factors', n=n, got=[int(x) for x in f1])
  if f2 is not None and not ok2:
    raise Violation('shared:highlow-wrong-factors', n=n, got=[int(x) for x in f2])
  if not (ok1 or ok2):
    raise Violation('shared:missed', n=n, p=p, q=q, r=ra, s=sa, N=N)
  # the two check classes together flag the key and record {p, q}
  key = art.rsa_key(n)
  r1 = libcall(rsa_single_checks.CheckFermat().Check, [key])
  r2 = libcall(rsa_single_checks.CheckHighAndLowBitsEqual().Check, [key])
  fs = art.factor_set(key.test_info, 'N_FACTORS')
  if not (r1 or r2) or not key.test_info.weak:
    raise Violation('shared:checks-not-flagged', n=n, p=p, q=q, r=ra, s=sa)
  if fs != {p, q}:
    raise Violation('shared:checks-wrong-factors', n=n, got=sorted(fs or []))
  cls = ['shared pbits=%d' % pbits,
         'shared margin=%d' % min(3, (4 * (ra + sa) - N - 8) // 4),
         'shared found-by=%s' % ('both' if ok1 and ok2 else 'fermat' if ok1 else 'highlow'),
         'shared r=%s' % ('3' if ra == 3 else '4-15' if ra < 16 else '16+')]
  return {'nt': True, 'cls': cls, 'r': ra, 's': sa, 'N': N}


def strat_shared(tier):
  sizes = [64, 80, 100, 128, 256, 512] + ([1024] if tier == 'thorough' else [])
  return st.fixed_dictionaries({
      'm': material,
      'pbits': st.sampled_from(sizes),
      'extra': st.sampled_from([0, 0, 0, 0, 1, 2, 5]),
      'rsel': st.integers(0, 4096),
  })


# ---------------------------------------------------------------- (3) next_prime(p + D)

def run_upper(desc):
  mat = Material(desc['m'], 'c04u')
  which = fam.UPPER_DIFFS[desc['which']]
  p, q, L = fam.small_upper_difference(mat, desc['pbits'], which)
  n = p * q
  res = libcall(rsa_util.CheckSmallUpperDifferences, gmpy.mpz(n))
  if res is None or {int(x) for x in res} != {p, q}:
    raise Violation('upperdiff:missed', n=n, p=p, q=q, L=L, diff='2^(L-%d)' % which,
                    got=None if res is None else [int(x) for x in res])
  _check_key(rsa_single_checks.CheckSmallUpperDifferences(), n, p, q, True, 'checkupperdiff',
             diff=which, neighbour=desc.get('nb', 0))
  return {'nt': True, 'cls': ['upperdiff 2^(L-%d)' % which, 'upperdiff pbits=%d' % desc['pbits']],
          'L': L}


def strat_upper(tier):
  sizes = [384, 385, 400, 512, 768] + ([1024, 1536, 2048] if tier == 'thorough' else [1024])
  return st.fixed_dictionaries({
      'm': material,
      'pbits': st.sampled_from(sizes),
      'which': st.integers(0, 5), 'nb': st.sampled_from([0, 0, 1, 2, 3]),
  })


# ---------------------------------------------------------------- (4) unseeded PRNG outputs

_SIZES = sorted(unseeded_rands.size_unseeded_map)


def _unseeded_case(mat, size, v, variant):
  vv = [v, v | (1 << (size - 1)), v | (3 << (size - 2))][variant]
  if vv.bit_length() != size:
    vv = v | (3 << (size - 2))
  p = fam.next_prime(vv)
  while True:
    q = mat.prime(size)
    n = p * q
    if (n.bit_length() + 1) // 2 == size and q != p:
      return p, q, n


def run_unseeded(desc):
  mat = Material(desc['m'], 'c04r')
  size = desc['size']
  vals = sorted(unseeded_rands.size_unseeded_map[size])
  v = vals[desc['idx'] % len(vals)]
  p, q, n = _unseeded_case(mat, size, v, desc['variant'])
  _check_key(rsa_single_checks.CheckUnseededRand(), n, p, q, True, 'unseeded',
             size=size, idx=desc['idx'] % len(vals), variant=desc['variant'],
             neighbour=desc.get('nb', 0))
  return {'nt': True, 'cls': ['unseeded size=%d' % size, 'unseeded variant=%d' % desc['variant']]}


def strat_unseeded(tier):
  sizes = [512, 512, 1024] if tier == 'quick' else [512, 1024, 1536, 2048]
  return st.fixed_dictionaries({
      'm': material, 'size': st.sampled_from(sizes), 'idx': st.integers(0, 400),
      'variant': st.integers(0, 2), 'nb': st.sampled_from([0, 0, 1, 2, 3])})


def enum_unseeded(tier):
  """Thorough: every listed value x 3 variants for the sizes up to 2048 (exhaustive over the table)."""
  if tier != 'thorough':
    return
  for size in _SIZES:
    if size > 2048:
      continue
    n = len(unseeded_rands.size_unseeded_map[size])
    for idx in range(n):
      for variant in range(3):
        yield {'m': size * 100003 + idx * 7 + variant, 'size': size, 'idx': idx, 'variant': variant,
               'nb': (idx + variant) % 4}


class _Storage(storage_mod.Storage):
  """A user-supplied storage with harness-chosen unseeded outputs."""

  def __init__(self, table):
    self._table = table

  def GetUnseededRands(self, size):
    return frozenset(self._table.get(size, ()))

  def GetKeypairData(self):
    return data_pb2.KeypairData()

  def GetOpensslDenylist(self):
    return set()


def run_unseeded_custom(desc):
  mat = Material(desc['m'], 'c04c')
  size = desc['size']
  listed = [mat.bits(size) for _ in range(desc['nlisted'])]
  v = listed[desc['pick'] % len(listed)]
  p, q, n = _unseeded_case(mat, size, v, desc['variant'])
  st_ = _Storage({size: listed, size + 8: [mat.bits(size + 8)]})
  _check_key(rsa_single_checks.CheckUnseededRand(paranoid_storage=st_), n, p, q, True,
             'unseeded-custom', size=size)
  # a healthy key of the same size is not accused through the custom storage
  hp, hq = fam.healthy(mat, 2 * size)
  _check_key(rsa_single_checks.CheckUnseededRand(paranoid_storage=st_), hp * hq, hp, hq, False,
             'unseeded-custom-healthy', size=size)
  return {'nt': True, 'cls': ['unseeded-custom size=%d' % size]}


def strat_unseeded_custom(tier):
  return st.fixed_dictionaries({
      'm': material, 'size': st.sampled_from([128, 256, 512] + ([1024] if tier == 'thorough' else [])),
      'nlisted': st.integers(1, 6), 'pick': st.integers(0, 5), 'variant': st.integers(0, 2)})


ARMS = [
    Arm('fermat_exact', run_fermat, strategy=strat_fermat, quick=8000, thorough=60000,
        budget=(150, 1500)),
    Arm('shared_bits', run_shared, strategy=strat_shared, quick=2400, thorough=20000,
        budget=(150, 1500), weight=2),
    Arm('upper_difference', run_upper, strategy=strat_upper, quick=1600, thorough=12000,
        budget=(150, 1500), weight=2),
    Arm('unseeded', run_unseeded, strategy=strat_unseeded, quick=480, thorough=2000,
        budget=(150, 1500), weight=3),
    Arm('unseeded_table', run_unseeded, enumerate=enum_unseeded, exhaustive=True,
        budget=(150, 2400), weight=4),
    Arm('unseeded_custom_storage', run_unseeded_custom, strategy=strat_unseeded_custom,
        quick=640, thorough=5000, budget=(150, 1500)),
]
