"""C02 - every discrete log or key relation reported for an EC key or signer is true."""

import re

import gmpy2 as gmpy
from hypothesis import strategies as st

from gens import artifacts as art
from gens import ecdsa_gen as eg
from gens.common import Material, material
from harness.core import Arm, Violation, libcall

from paranoid_crypto.lib import paranoid  # pylint: disable=unused-import
from paranoid_crypto.lib import ec_aggregate_checks
from paranoid_crypto.lib import ec_single_checks
from paranoid_crypto.lib import ec_util
from paranoid_crypto.lib import ecdsa_sig_checks as sc

ID = 'C02'
TITLE = 'Every discrete log or key relation reported for an EC key or signer is true'
RULE = (
    'EC key batches (1-6 keys, 1-2 curves, all nine prime curves) with structured private keys (small, '
    '32-bit word shifted by a multiple of 8 bits, repeated 32-bit words, near misses of these forms such '
    'as a 33-bit word or a shift that is not a multiple of 8, pairs at distance delta around max_diff, '
    'negated keys, identical keys) and random keys, optionally re-encoded with leading zero bytes; ECDSA '
    'batches with several issuers and curves mixed whose nonces are biased below the detection margin (so '
    'that the lattices emit wrong guesses), biased above it, unbiased, U2F-like, LCG-like, and (r, s) that '
    'are not signatures at all (uniform, (1,1), (n-1,n-1), r = s, duplicates), hash length 0-64, invalid '
    'issuer keys. Oracle: every DISCRETE_LOG record d satisfies d*G = key under the independent reference '
    '(and OpenSSL), every DISCRETE_LOG_DIFF record "key - (x, y) = k * G" parsed with a regular expression '
    'satisfies P - (x, y) = k*G and (x, y) is another key of the batch; a signature with a positive entry '
    'of a nonce / LCG / U2F check carries a DISCRETE_LOG reproducing its issuer key; every non-None value '
    'returned by BatchDL / ExtendedBatchDL / BatchDLOfDifferences verifies. Non-trivial: at least one '
    'record or non-None value was verified; distinct by descriptor hash.')
ASSUMPTIONS = [
    'reference arithmetic refs/ec_ref.py and OpenSSL scalar multiplication are correct (cross-checked against each other in C11)',
    'CheckECKeySmallDifference is constructed with max_diff <= 2^12 (documented parameter; the default 2^24 table costs 85 s and 3.3 GB per curve)',
]
TECHNIQUE = 'property-based testing (Hypothesis): validity predicate over every recorded discrete log / key relation, adversarial and below-margin inputs'

DIFF_RE = re.compile(r'^key - \(([0-9a-f]+), ([0-9a-f]+)\) = (-?[0-9]+) \* G$')


def _verify_dlog(ct, point, d, clause, **ctx):
  rc = eg.ref(ct)
  d = int(d)
  P = rc.mul(rc.g, d % rc.n) if d % rc.n else None
  if P != (int(point[0]), int(point[1])):
    raise Violation(clause + ':dlog-wrong', curve=eg.CURVE_NAMES[ct], d=d, point=[int(point[0]), int(point[1])], **ctx)
  k = d % rc.n
  if k:
    Q = eg.mul_g(ct, k)
    if Q != P:
      raise AssertionError('reference and OpenSSL disagree')  # harness error


# ---------------------------------------------------------------- EC keys

def _private_keys(desc, mat, n):
  """Structured and random private keys for one curve."""
  bits = n.bit_length()
  ds = []
  for spec in desc:
    kind, a, b = spec
    if kind == 'small':
      d = 1 + a % (1 << (1 + b % 33))
    elif kind == 'shift':
      w = [1, 2**32 - 1, 2**31, 0xdeadbeef, 1 + mat.bits(32)][a % 5] or 1
      j = 8 * (b % ((bits + 7) // 8))
      d = w << j
    elif kind == 'shift_near':      # near miss: 33-bit word or shift not a multiple of 8
      w = (1 << 32) | mat.bits(32) if a % 2 else 1 + mat.bits(32)
      j = 8 * (b % (bits // 8)) + (0 if a % 2 else 1 + b % 7)
      d = w << j
    elif kind == 'repeat':
      w = [1, 2**32 - 1, 0x80000001, 1 + mat.bits(32)][a % 4] or 1
      reps = 2 + b % (bits // 32 - 1)
      d = sum(w << (32 * i) for i in range(reps))
    elif kind == 'repeat_near':
      w = 1 + mat.bits(32)
      reps = 2 + b % (bits // 32 - 1)
      d = sum(w << (32 * i) for i in range(reps)) ^ (1 << (40 + b % 60))
    elif kind == 'cross':
      # structured with respect to ANOTHER curve's order: i * (m^-1 mod n_A)^-1 mod n (a full-size scalar
      # that a multiplier inverse taken modulo the wrong order would map to a small logarithm)
      nA = eg.ref(eg.PRIME_CURVES[a % len(eg.PRIME_CURVES)]).n
      m = (1 << (8 * (b % 24))) if b % 2 else sum(1 << (32 * i) for i in range(2 + b % 5))
      if nA == n or m % nA == 0:
        d = 1 + mat.below(n - 1)
      else:
        inv_a = pow(m, -1, nA)
        d = (1 + mat.bits(32)) * pow(inv_a, -1, n) % n if inv_a % n else 1 + mat.below(n - 1)
    elif kind == 'near' and ds:
      d = ds[a % len(ds)] + [1, 2, -1, 4095, 4096, 4097, 100000][b % 7]
    elif kind == 'neg' and ds:
      d = n - ds[a % len(ds)]
    elif kind == 'same' and ds:
      d = ds[a % len(ds)]
    else:
      d = 1 + mat.below(n - 1)
    d %= n
    ds.append(d or 1)
  return ds


def run_ec_keys(desc):
  mat = Material(desc['m'], 'c02k')
  keys, meta = [], []
  for ci, part in enumerate(desc['parts']):
    ct = eg.PRIME_CURVES[part['curve'] % len(eg.PRIME_CURVES)]
    n = eg.ref(ct).n
    for d in _private_keys(part['keys'], mat, n):
      P = eg.mul_g(ct, d)
      keys.append(art.ec_key(ct, P[0], P[1], pad=part.get('pad', 0)))
      meta.append((ct, P, d))
  order = mat.shuffle(list(range(len(keys)))) if desc.get('shuffle') else list(range(len(keys)))
  keys = [keys[i] for i in order]
  meta = [meta[i] for i in order]
  verified = 0
  which = desc['check']
  if which in ('weakkey', 'both'):
    libcall(ec_single_checks.CheckWeakECPrivateKey().Check, keys)
  if which in ('diff', 'both'):
    libcall(ec_aggregate_checks.CheckECKeySmallDifference(max_diff=2 ** desc['maxdiff_log']).Check, keys)
  for i, (k, (ct, P, d)) in enumerate(zip(keys, meta)):
    rec = art.attached(k.test_info, 'DISCRETE_LOG')
    if rec is not None:
      if isinstance(rec, list):
        raise Violation('eckeys:duplicate-record', index=i)
      _verify_dlog(ct, P, int(rec, 16), 'eckeys', index=i, true_d=d)
      verified += 1
      if not k.test_info.weak:
        raise Violation('eckeys:record-without-weak', index=i)
    rel = art.attached(k.test_info, 'DISCRETE_LOG_DIFF')
    if rel is not None:
      mm = DIFF_RE.match(rel) if isinstance(rel, str) else None
      if not mm:
        raise Violation('eckeys:relation-unparsable', index=i, record=str(rel)[:200])
      qx, qy, kk = int(mm.group(1), 16), int(mm.group(2), 16), int(mm.group(3))
      rc = eg.ref(ct)
      lhs = rc.sub(P, (qx, qy)) if rc.on_curve((qx, qy)) else 'off-curve'
      rhs = rc.mul(rc.g, kk)
      if lhs != rhs:
        raise Violation('eckeys:relation-false', index=i, curve=eg.CURVE_NAMES[ct], record=rel)
      others = [(c2, P2) for j, (c2, P2, _) in enumerate(meta) if j != i]
      if (ct, (qx, qy)) not in others:
        raise Violation('eckeys:relation-with-unknown-key', index=i, record=rel)
      if (qx, qy) == P:
        raise Violation('eckeys:relation-with-itself', index=i, record=rel)
      verified += 1
      if not k.test_info.weak:
        raise Violation('eckeys:record-without-weak', index=i)
  kinds = sorted({s[0] for p in desc['parts'] for s in p['keys']})
  return {'nt': verified > 0, 'cls': ['eckeys check=' + which] + ['eckeys kind=' + k for k in kinds] +
          (['eckeys record-verified'] if verified else []), 'verified': verified}


def strat_ec_keys(tier):
  spec = st.tuples(st.sampled_from(['small', 'shift', 'shift_near', 'repeat', 'repeat_near', 'near',
                                    'neg', 'same', 'random', 'cross', 'cross']),
                   st.integers(0, 10**6), st.integers(0, 10**6)).map(list)
  part = st.fixed_dictionaries({'curve': st.integers(0, 8), 'keys': st.lists(spec, min_size=1, max_size=4),
                                'pad': st.sampled_from([0, 0, 1, 3])})
  return st.fixed_dictionaries({
      'm': material, 'parts': st.lists(part, min_size=1, max_size=2),
      'check': st.sampled_from(['diff'] * 6 + ['weakkey', 'weakkey', 'both']),
      'maxdiff_log': st.sampled_from([1, 4, 12, 12]), 'shuffle': st.booleans()})


# ---------------------------------------------------------------- signatures

SIG_CHECKS = {
    'msb': sc.CheckNonceMSB, 'prefix': sc.CheckNonceCommonPrefix, 'postfix': sc.CheckNonceCommonPostfix,
    'gen': sc.CheckNonceGeneralized, 'u2f': sc.CheckCr50U2f, 'gmp': sc.CheckLCGNonceGMP,
    'java': sc.CheckLCGNonceJavaUtilRandom,
}


def _issuer_sigs(spec, mat):
  """Returns (curve_type, issuer point, list of signature protos)."""
  ct = eg.PRIME_CURVES[spec['curve'] % len(eg.PRIME_CURVES)]
  n = eg.ref(ct).n
  bits = n.bit_length()
  d = [1, 2, n - 1, 1 + mat.below(n - 1), 1 + mat.below(n - 1)][spec['dsel'] % 5]
  iss = eg.Issuer(ct, d)
  pub = iss.pub
  if spec['badkey'] == 1:
    pub = (pub[0], (pub[1] + 1) % eg.ref(ct).p)      # off curve
  elif spec['badkey'] == 2:
    pub = (0, 0)
  m = spec['nsigs']
  t = spec['t']
  fam = spec['fam']
  if fam == 'uniform':
    ks = eg.nonces_uniform(mat, n, m)
  elif fam == 'msb':
    ks = eg.nonces_msb(mat, n, t, m)
  elif fam == 'prefix':
    ks = eg.nonces_prefix(mat, n, t, m)
  elif fam == 'postfix':
    ks = eg.nonces_postfix(mat, n, t, m)
  elif fam == 'gen':
    ks = [k or 1 for k in eg.nonces_generalized(mat, n, t, m, 'msb')]
  elif fam == 'u2f' and bits % 32 == 0:
    ks = eg.nonces_u2f(mat, n, m)
  elif fam == 'gmp':
    ks = eg.nonces_gmp(mat, n, [32, 64, 128][t % 3], m) or eg.nonces_uniform(mat, n, m)
  elif fam == 'tiny':
    ks = [1 + mat.below(1 << (1 + t % 16)) for _ in range(m)]
  else:
    ks = eg.nonces_uniform(mat, n, m)
  sigs = []
  for i, k in enumerate(ks):
    h = eg.random_hash(mat, spec['hlen'])
    rs = eg.sign(ct, d, k, h)
    if rs is None:
      continue
    r, s = rs
    if spec['garbage'] and i % spec['garbage'] == 0:
      r, s = [(1, 1), (n - 1, n - 1), (1 + mat.below(n - 1),) * 2,
              (1 + mat.below(n - 1), 1 + mat.below(n - 1)), (r, n - s)][(spec['garbage'] + i) % 5]
    sigs.append(art.ecdsa_sig(ct, pub[0], pub[1], r, s, h, pad=spec['pad']))
  if spec['dup'] and sigs:
    c = type(sigs[0])()
    c.CopyFrom(sigs[0])
    sigs.append(c)
  return ct, pub, sigs


def run_sigs(desc):
  mat = Material(desc['m'], 'c02s')
  sigs, meta = [], []
  issuers = list(desc['issuers'])
  if desc.get('follow'):
    # every patterned issuer is followed, on the same curve, by a healthy one (uniform nonces, valid key)
    issuers = []
    for spec in desc['issuers']:
      issuers.append(spec)
      if spec['fam'] != 'uniform':
        issuers.append(dict(spec, fam='uniform', dsel=3 + spec['dsel'] % 2, garbage=0, badkey=0, dup=False,
                            nsigs=1 + spec['nsigs'] % 3))
  for spec in issuers:
    ct, pub, ss = _issuer_sigs(spec, mat)
    sigs += ss
    meta += [(ct, pub)] * len(ss)
  if desc.get('shuffle'):
    order = mat.shuffle(list(range(len(sigs))))
    sigs = [sigs[i] for i in order]
    meta = [meta[i] for i in order]
  verified = 0
  checks = list(desc['checks'])
  if desc.get('aim') or desc.get('follow'):
    # also run the check that matches the first issuer's nonce family
    f = desc['issuers'][0]['fam']
    if f in SIG_CHECKS and f not in checks and f != 'java':
      checks.append(f)
  for cname in checks:
    cls = SIG_CHECKS[cname]
    libcall(cls().Check, sigs)
    for i, (s, (ct, pub)) in enumerate(zip(sigs, meta)):
      e = art.entry(s.test_info, cls.__name__)
      if e is None:
        raise Violation('sigs:no-entry', check=cname, index=i)
      if e[0]:
        rec = art.attached(s.test_info, 'DISCRETE_LOG')
        if rec is None or isinstance(rec, list):
          raise Violation('sigs:weak-without-key', check=cname, index=i)
        _verify_dlog(ct, pub, int(rec, 16), 'sigs', check=cname, index=i)
        verified += 1
  # whatever was recorded by any of the checks must verify
  for i, (s, (ct, pub)) in enumerate(zip(sigs, meta)):
    rec = art.attached(s.test_info, 'DISCRETE_LOG')
    if rec is not None and not isinstance(rec, list):
      _verify_dlog(ct, pub, int(rec, 16), 'sigs', index=i)
      if not s.test_info.weak:
        raise Violation('sigs:record-without-weak', index=i)
  fams = sorted({sp['fam'] for sp in desc['issuers']})
  return {'nt': verified > 0, 'cls': ['sigs check=' + c for c in checks] +
          ['sigs fam=' + f for f in fams] + (['sigs key-verified'] if verified else []) +
          (['sigs garbage'] if any(sp['garbage'] for sp in desc['issuers']) else []) +
          (['sigs invalid-issuer-key'] if any(sp['badkey'] for sp in desc['issuers']) else []) +
          (['sigs healthy-follower'] if desc.get('follow') and len(issuers) > len(desc['issuers']) else []),
          'verified': verified, 'nsigs': len(sigs)}


def strat_sigs(tier):
  issuer = st.fixed_dictionaries({
      'curve': st.sampled_from([2, 2, 5, 6, 0, 1, 3, 4, 7, 8]),   # index into PRIME_CURVES
      'dsel': st.integers(0, 4),
      'fam': st.sampled_from(['uniform', 'msb', 'prefix', 'postfix', 'gen', 'u2f', 'gmp', 'tiny']),
      't': st.sampled_from([4, 8, 12, 16, 24, 32, 64, 100, 128]), 'nsigs': st.integers(1, 12),
      'hlen': st.sampled_from([0, 1, 20, 32, 48, 64]),
      'garbage': st.sampled_from([0, 0, 0, 1, 2, 3]), 'badkey': st.sampled_from([0, 0, 0, 1, 2]),
      'pad': st.sampled_from([0, 0, 2]), 'dup': st.booleans()})
  cheap = ['msb', 'prefix', 'postfix', 'gen', 'u2f', 'gmp']
  return st.fixed_dictionaries({
      'm': material, 'issuers': st.lists(issuer, min_size=1, max_size=3),
      'checks': st.one_of(st.lists(st.sampled_from(cheap), min_size=1, max_size=3, unique=True),
                          st.just(['java']) if tier == 'thorough' else st.lists(
                              st.sampled_from(cheap), min_size=1, max_size=2, unique=True)),
      'shuffle': st.booleans(), 'aim': st.booleans(), 'follow': st.sampled_from([False, False, True])})


def strat_sigs_java(tier):
  """CheckLCGNonceJavaUtilRandom costs seconds per signature pair: few small cases."""
  issuer = st.fixed_dictionaries({
      'curve': st.sampled_from([2, 5]), 'dsel': st.integers(0, 4),
      'fam': st.sampled_from(['uniform', 'tiny', 'msb']), 't': st.integers(4, 64),
      'nsigs': st.integers(2, 3), 'hlen': st.sampled_from([32, 20]), 'garbage': st.sampled_from([0, 1]),
      'badkey': st.just(0), 'pad': st.just(0), 'dup': st.booleans()})
  return st.fixed_dictionaries({'m': material, 'issuers': st.lists(issuer, min_size=1, max_size=1),
                                'checks': st.just(['java']), 'shuffle': st.booleans()})


# ---------------------------------------------------------------- DL functions

def run_dl(desc):
  mat = Material(desc['m'], 'c02d')
  ct = eg.PRIME_CURVES[desc['curve'] % len(eg.PRIME_CURVES)]
  n = eg.ref(ct).n
  curve = ec_util.CURVE_FACTORY[ct]
  curve._table, curve._table_size = {}, 0   # the cached table must not make run() history dependent
  bound = desc['bound']
  ds = _private_keys(desc['keys'], mat, n)
  for i, x in enumerate(desc['xs']):
    ds.append((x % (2 * bound + 3)) % n or 1)
  pts = [eg.mul_g(ct, d) for d in ds]
  mp = [(gmpy.mpz(p[0]), gmpy.mpz(p[1])) for p in pts]
  verified = 0
  res = libcall(curve.BatchDL, list(mp), bound)
  if len(res) != len(pts):
    raise Violation('dl:batchdl-shape', got=len(res), expected=len(pts))
  for P, r in zip(pts, res):
    if r is not None:
      _verify_dlog(ct, P, int(r), 'dl:batchdl', bound=bound)
      verified += 1
  if desc['maxdiff_log']:
    res = libcall(curve.BatchDLOfDifferences, list(mp[:len(mp) // 2 + 1]), list(mp[len(mp) // 2 + 1:]),
                  2 ** desc['maxdiff_log'])
    for i, rel in enumerate(res):
      if rel is None:
        continue
      mm = DIFF_RE.match(rel)
      if not mm:
        raise Violation('dl:diff-unparsable', record=str(rel)[:200])
      qx, qy, kk = int(mm.group(1), 16), int(mm.group(2), 16), int(mm.group(3))
      rc = eg.ref(ct)
      if (qx, qy) not in pts or rc.sub(pts[i], (qx, qy)) != rc.mul(rc.g, kk):
        raise Violation('dl:diff-relation-false', index=i, record=rel)
      verified += 1
  return {'nt': verified > 0, 'cls': ['dl curve=%s' % eg.CURVE_NAMES[ct]] +
          (['dl value-verified'] if verified else []), 'verified': verified}


def strat_dl(tier):
  spec = st.tuples(st.sampled_from(['small', 'near', 'neg', 'same', 'random']),
                   st.integers(0, 10**6), st.integers(0, 10**6)).map(list)
  return st.fixed_dictionaries({
      'm': material, 'curve': st.integers(0, 8), 'keys': st.lists(spec, min_size=0, max_size=4),
      'xs': st.lists(st.integers(0, 10**7), min_size=1, max_size=8),
      'bound': st.sampled_from([1, 2, 7, 100, 1000, 2**12, 2**16]),
      'maxdiff_log': st.sampled_from([0, 3, 10, 12])})


ARMS = [
    Arm('ec_keys', run_ec_keys, strategy=strat_ec_keys, quick=400, thorough=6000, budget=(170, 2400),
        weight=3),
    Arm('signatures', run_sigs, strategy=strat_sigs, quick=800, thorough=10000, budget=(170, 2400)),
    Arm('signatures_java_lcg', run_sigs, strategy=strat_sigs_java, quick=16, thorough=200,
        budget=(170, 2400), weight=4),
    Arm('dl_functions', run_dl, strategy=strat_dl, quick=800, thorough=10000, budget=(170, 2400)),
]
