"""C06 - checks with a closed-form criterion flag exactly the artifacts that meet it."""

import collections.abc
import hashlib
import os

import gmpy2 as gmpy
from hypothesis import strategies as st

from gens import artifacts as art
from gens import ecdsa_gen
from gens.common import Material, material
from harness.core import Arm, Violation, libcall
from refs import c06_ref as R
from refs import ec_ref

from paranoid_crypto.lib import paranoid  # pylint: disable=unused-import  (import order)
from paranoid_crypto.lib import ec_single_checks
from paranoid_crypto.lib import ec_util
from paranoid_crypto.lib import roca
from paranoid_crypto.lib import rsa_single_checks as single
from paranoid_crypto.lib.data import data_pb2
from paranoid_crypto.lib.data import storage as storage_mod

ID = 'C06'
TITLE = 'Checks with a closed-form criterion flag exactly the artifacts that meet it'
TECHNIQUE = ('property-based testing (Hypothesis) with boundary-aimed constructed inputs and exhaustive '
             'enumeration of the finite parts (every residue of every detector prime, every curve id, '
             'every covered keypair seed, every point of small cofactor curves); two-sided oracle from '
             'independent closed-form references')
RULE = (
    'Every arm asserts both directions (flagged iff the criterion holds) per artifact: result entry, '
    'test_info.weak and the return value of Check. sizes: moduli 2^(L-1), 2^(L-1)+1, 2^L-1, random and '
    'semiprime with exactly L bits, L aimed at 2040..2056, leading zero bytes; flagged iff L < 2048. '
    'exponents: value and encoding (leading zeros, empty, trailing zero byte, 65537 + 2^k); flagged iff '
    'value != 65537. roca / roca_variant: n = CRT(chosen residues) + random multiple of the CRT modulus '
    '(240..2048 bits): all residues in <65537> / exactly one or two outside / true ROCA-structured '
    'semiprimes / random; all squares / one non-square / squares inside <65537> (ROCA, so the variant must '
    'not flag) / g^a*g^b structured semiprimes / a residue 0 (executed, verdict not asserted, counted); '
    'reference = explicit subgroup sets and Euler criterion. roca_residues / variant_residues enumerate '
    'every residue of every detector prime with the other residues inside the criterion. openssl: batch '
    'of moduli, user Storage (set, frozenset, abc.Set) holding the independently computed fingerprint of '
    'a subset plus near misses (other bit length, n+2, upper case, first 80 bits, full hash); flagged iff '
    'the fingerprint is literally in the set. keypair: keys of the independent transcription of the '
    'vulnerable generator for seed byte b0 x {2048,3072,4096} (all 768 in thorough) must be flagged with '
    '{p,q} recorded (and equal the library generator output); n +- 2^k sharing the 64 msb must not be '
    'flagged; uncovered seeds: any flag must carry factors whose product is n; user Storage tables with '
    'multi-byte metadata and with wrong metadata. ec: every curve id (enum, binary, outside the enum) x '
    'point kinds (valid, x=0, negated, x+p, y+p, x=p, y=p, (0,0), empty, off by one, random, huge, point '
    'of another curve); CheckValidECKey flagged iff curve unknown or reference says invalid; '
    'CheckWeakCurve flagged iff known curve with order < 224 bits (OpenSSL order); toy curves with '
    'cofactor > 1: every (x,y) in [0,p)^2 and shifted copies, valid iff in the explicitly listed subgroup. '
    'Non-trivial: within three units of the boundary (|L-2048| <= 3, |e-65537| <= 3 or a non-minimal '
    'encoding of 65537) or constructed to meet / just miss the criterion (all kinds except "random"); '
    'zero-residue variant cases are never counted as non-trivial.')
ASSUMPTIONS = [
    'the two prime lists are the documented ones (39 smallest odd primes; 48 smallest primes > 3); the '
    'reference recomputes them and does not read them from roca.py',
    'whether residue 0 is a quadratic residue is a convention: variant inputs with n = 0 mod one of the 48 '
    'primes are executed but their verdict is not asserted',
    'the shipped keypair table (keypair_table_small.lzma) defines which seeds are covered: first byte '
    '0..255, all other bytes 0, for 2048/3072/4096-bit keys',
    'gmpy2.is_prime (BPSW) has no counterexample among the generated candidates (keypair transcription)',
    'named-curve parameters come from OpenSSL (refs/curves_openssl.json); all nine have cofactor 1, so '
    'out-of-subgroup points do not exist on them - that clause is exercised on toy curves through '
    'EcCurve.IsValidPublicKey only',
    'the default OpenSSL denylists of this checkout are empty files; only the custom Storage path is '
    'meaningful (with the default storage nothing may be flagged)',
]


# ---------------------------------------------------------------- common verdict reader

def _verdicts(check, keys, expected, clause, **ctx):
  """Runs check.Check(keys); expected[i] in (True, False, None = no assertion)."""
  name = type(check).__name__
  ret = libcall(check.Check, keys)
  got = []
  for i, (k, exp) in enumerate(zip(keys, expected)):
    e = art.entry(k.test_info, name)
    got.append(None if e is None else e[0])
    if exp is None:
      continue
    if e is None:
      raise Violation(clause + ':no-entry', index=i, **ctx)
    if e[0] != exp:
      raise Violation(clause + (':missed' if exp else ':false-flag'), index=i, check=name, **ctx)
    if bool(k.test_info.weak) != exp:
      raise Violation(clause + ':weak-bit', index=i, check=name, weak=bool(k.test_info.weak), **ctx)
  if all(e is not None for e in expected) and bool(ret) != any(expected):
    raise Violation(clause + ':return-value', got=repr(ret), expected=any(expected), **ctx)
  return got


_CACHE = {}


def _inst(name, factory):
  if name not in _CACHE:
    _CACHE[name] = factory()
  return _CACHE[name]


# ---------------------------------------------------------------- sizes

def _size_value(mat, kind, L):
  if L <= 0:
    return 0
  if kind == 'lo':
    return 1 << (L - 1)
  if kind == 'lo+1':
    return (1 << (L - 1)) + 1 if L >= 2 else 1
  if kind == 'hi':
    return (1 << L) - 1
  if kind == 'semi' and L >= 16:
    half = L // 2
    while True:
      n = mat.prime(half, top2=True) * mat.prime(L - half, top2=True)
      if n.bit_length() == L:
        return n
  return mat.bits(L) | (1 << (L - 1))


def run_sizes(desc):
  mat = Material(desc['m'], 'c06s')
  ns, keys, exp = [], [], []
  for it in desc['items']:
    n = _size_value(mat, it['k'], it['L'])
    L = len(bin(n)) - 2 if n else 0
    ns.append(n)
    keys.append(art.rsa_key(n, pad_n=it['pad']))
    exp.append(L < 2048)
  _verdicts(single.CheckSizes(), keys, exp, 'sizes',
            bits=[n.bit_length() for n in ns], pads=[it['pad'] for it in desc['items']])
  cls = []
  for it, n in zip(desc['items'], ns):
    L = n.bit_length()
    cls.append('size L=%s' % (L if 2044 <= L <= 2052 else '<2044' if L < 2044 else '>2052'))
    if it['pad']:
      cls.append('size leading-zero-bytes')
    if n in ((1 << 2047), (1 << 2047) - 1, (1 << 2048) - 1, (1 << 2047) + 1):
      cls.append('size exact-boundary-value')
  return {'nt': any(abs(n.bit_length() - 2048) <= 3 for n in ns), 'cls': sorted(set(cls)),
          'bits': [n.bit_length() for n in ns]}


_SIZE_KINDS = ['lo', 'lo+1', 'hi', 'rnd', 'rnd']


def strat_sizes(tier):
  L = st.one_of(st.integers(2040, 2056), st.sampled_from([2047, 2048, 2049]),
                st.integers(0, 4200 if tier == 'quick' else 9000),
                st.sampled_from([64, 512, 1024, 2040, 3072, 4096]))
  item = st.fixed_dictionaries({'k': st.sampled_from(_SIZE_KINDS), 'L': L,
                                'pad': st.sampled_from([0, 0, 1, 2, 7])})
  return st.fixed_dictionaries({'m': material, 'items': st.lists(item, min_size=1, max_size=3)})


def enum_sizes(tier):
  """Every L in 2036..2060 x every kind x pads, plus a few semiprimes at the boundary."""
  i = 0
  for L in range(2036, 2061):
    for k in ('lo', 'lo+1', 'hi', 'rnd'):
      for pad in (0, 1, 3):
        i += 1
        yield {'m': i, 'items': [{'k': k, 'L': L, 'pad': pad}]}
  for L in (2046, 2047, 2048, 2049):
    for j in range(2 if tier == 'quick' else 8):
      yield {'m': 1000 + j, 'items': [{'k': 'semi', 'L': L, 'pad': j % 2}]}


# ---------------------------------------------------------------- exponents

_E_VALUES = [0, 1, 2, 3, 5, 17, 257, 65535, 65536, 65537, 65538, 65539, 65540, 65534,
             65537 << 8, 65537 << 16, 65537 + (1 << 17), 65537 + (1 << 24), 65537 + (1 << 32),
             65537 + (1 << 64), 65537 + (1 << 2048), (1 << 32) + 1, 0x010001010001, 0x0100,
             0x0101, 0x01000100, 1 << 16, (1 << 17) - 1]


def run_exponents(desc):
  mat = Material(desc['m'], 'c06e')
  n = mat.bits(2048) | (1 << 2047) | 1
  keys, exp, vals = [], [], []
  for it in desc['items']:
    v = it['v']
    keys.append(art.rsa_key(n, e=v, pad_e=it['pad']))
    exp.append(v != 65537)
    vals.append(v)
  _verdicts(single.CheckExponents(), keys, exp, 'exponents', e=vals,
            pads=[it['pad'] for it in desc['items']])
  cls = []
  for it in desc['items']:
    v = it['v']
    cls.append('e %s' % ('==65537' if v == 65537 else 'within-3' if abs(v - 65537) <= 3
                         else '0/empty' if v == 0 else 'small' if v < 65537 else 'large'))
    if it['pad'] and v == 65537:
      cls.append('e 65537 with leading zeros')
    if v > 65537 and (v & 0xFFFFFF == 65537 or (v >> 8) == 65537 or (v >> 16) == 65537):
      cls.append('e contains the bytes 010001')
  nt = any(abs(it['v'] - 65537) <= 3 or (it['v'] == 65537 and it['pad']) for it in desc['items'])
  return {'nt': nt, 'cls': sorted(set(cls))}


def strat_exponents(tier):
  v = st.one_of(st.sampled_from(_E_VALUES), st.sampled_from([65537, 65537, 65536, 65538]),
                st.integers(0, 1 << 18), st.integers(0, 1 << 40),
                st.integers(0, 1 << (300 if tier == 'quick' else 2100)))
  item = st.fixed_dictionaries({'v': v, 'pad': st.sampled_from([0, 0, 1, 2, 5, 29])})
  return st.fixed_dictionaries({'m': material, 'items': st.lists(item, min_size=1, max_size=3)})


def enum_exponents(tier):
  i = 0
  for v in _E_VALUES + list(range(65530, 65545)):
    for pad in (0, 1, 4):
      i += 1
      yield {'m': i, 'items': [{'v': v, 'pad': pad}]}


# ---------------------------------------------------------------- ROCA

ALL_PRIMES = tuple(sorted(set(R.ROCA_PRIMES) | set(R.VARIANT_PRIMES)))   # 3, 5, ..., 229


def _lift(mat, r, M, bits):
  """r + k*M with exactly `bits` bits (bits >= M.bit_length() + 8), k random."""
  lo = ((1 << (bits - 1)) - r + M - 1) // M
  hi = ((1 << bits) - 1 - r) // M
  return r + M * mat.between(lo, hi)


def _structured_prime(mat, M, g, bits):
  """Prime p = k*M + (g^a mod M), the shape of an Infineon (ROCA) prime."""
  while True:
    a = mat.below(1 << 64)
    r = pow(g, a, M)
    for _ in range(4000):
      c = _lift(mat, r, M, bits)
      if gmpy.is_prime(c):
        return int(c), a


def _in_sub(mat, p):
  return mat.choice(sorted(R.subgroup(p)))


def _outside(mat, p, nonzero):
  comp = [r for r in range(0 if not nonzero else 1, p) if r not in R.subgroup(p)]
  if not comp:
    comp = [0]
  return mat.choice(comp)


def _roca_checks(n, pad, clause, assert_variant=True, **ctx):
  """Runs both detectors and both checks on n; returns (roca_expected, variant_expected|None)."""
  exp_r = R.roca_weak(n)
  zero = R.has_zero_residue(n)
  exp_v = None if zero or not assert_variant else R.variant_weak(n)
  det = _inst('rocadet', roca.ROCAKeyDetector)
  vdet = _inst('vardet', roca.ROCAKeyVariantDetector)
  for conv in (int, gmpy.mpz):
    got = libcall(det.IsWeak, conv(n))
    if bool(got) != exp_r:
      raise Violation(clause + (':roca-missed' if exp_r else ':roca-false-flag'), n=n,
                      via='ROCAKeyDetector.IsWeak(%s)' % conv.__name__, **ctx)
    gotv = libcall(vdet.IsWeak, conv(n))
    if exp_v is not None and bool(gotv) != exp_v:
      raise Violation(clause + (':variant-missed' if exp_v else ':variant-false-flag'), n=n,
                      via='ROCAKeyVariantDetector.IsWeak(%s)' % conv.__name__, roca=exp_r, **ctx)
  _verdicts(_inst('CheckROCA', single.CheckROCA), [art.rsa_key(n, pad_n=pad)], [exp_r],
            clause + ':CheckROCA', n=n, **ctx)
  _verdicts(_inst('CheckROCAVariant', single.CheckROCAVariant), [art.rsa_key(n, pad_n=pad)], [exp_v],
            clause + ':CheckROCAVariant', n=n, roca=exp_r, **ctx)
  return exp_r, exp_v, zero


def _roca_cls(prefix, kind, exp_r, exp_v, zero, bits):
  cls = ['%s kind=%s' % (prefix, kind),
         '%s roca=%s variant=%s' % (prefix, exp_r, 'unasserted(zero residue)' if zero else exp_v),
         '%s bits=%s' % (prefix, '<512' if bits < 512 else '512-1023' if bits < 1024 else '1024+')]
  return cls


def run_roca(desc):
  mat = Material(desc['m'], 'c06r')
  kind, bits = desc['k'], desc['bits']
  primes = R.ROCA_PRIMES
  ctx = {'kind': kind}
  if kind == 'rand':
    n = mat.bits(bits) | (1 << (bits - 1)) | 1
  elif kind == 'real':
    M = 1
    for p in primes:
      M *= p
    half = max(bits // 2, M.bit_length() + 10)
    p1, _ = _structured_prime(mat, M, R.F4, half)
    p2, _ = _structured_prime(mat, M, R.F4, half)
    n = p1 * p2
  else:
    res = [_in_sub(mat, p) for p in primes]
    if kind in ('out1', 'out1nz', 'out2'):
      idx = [desc['w'] % len(primes)]
      if kind == 'out2':
        idx.append((desc['w'] // len(primes)) % len(primes))
      for i in idx:
        res[i] = _outside(mat, primes[i], kind == 'out1nz')
      ctx['outside_at'] = [primes[i] for i in idx]
    r, M = R.crt(res, primes)
    n = _lift(mat, r, M, bits)
  exp_r, exp_v, zero = _roca_checks(n, desc['pad'], 'roca', **ctx)
  if kind in ('in', 'real') and not exp_r or kind in ('out1', 'out1nz', 'out2') and exp_r:
    raise AssertionError('generator/reference disagreement for kind %s' % kind)
  return {'nt': kind != 'rand', 'cls': _roca_cls('roca', kind, exp_r, exp_v, zero, n.bit_length())}


def strat_roca(tier):
  bits = st.one_of(st.sampled_from([512, 1024, 2048]), st.integers(240, 2048))
  return st.fixed_dictionaries({
      'm': material, 'k': st.sampled_from(['in', 'in', 'out1', 'out1', 'out1nz', 'out2', 'rand', 'real']),
      'bits': bits, 'w': st.integers(0, 39 * 39 - 1), 'pad': st.sampled_from([0, 0, 1])})


def enum_roca_residues(tier):
  """Every residue of every one of the 39 primes, the other 38 residues inside <65537>."""
  reps = 1 if tier == 'quick' else 3
  for i, p in enumerate(R.ROCA_PRIMES):
    for r in range(p):
      for j in range(reps):
        yield {'i': i, 'r': r, 'm': (i * 256 + r) * 8 + j, 'bits': (512, 1024, 2048)[(i + r + j) % 3]}


def run_roca_residue(desc):
  mat = Material(desc['m'], 'c06rr')
  primes = R.ROCA_PRIMES
  res = [_in_sub(mat, p) for p in primes]
  res[desc['i']] = desc['r']
  r, M = R.crt(res, primes)
  n = _lift(mat, r, M, desc['bits'])
  p = primes[desc['i']]
  inside = desc['r'] in R.subgroup(p)
  exp_r, exp_v, zero = _roca_checks(n, 0, 'roca-residue', prime=p, residue=desc['r'])
  if exp_r != inside:
    raise AssertionError('reference inconsistent')
  cls = ['roca-residue %s' % ('inside' if inside else 'zero' if desc['r'] == 0 else 'outside'),
         'roca-residue <65537> %s mod p' % ('is everything but 0' if len(R.subgroup(p)) == p - 1
                                           else 'is a proper subgroup')]
  return {'nt': True, 'cls': cls}


# ---------------------------------------------------------------- ROCA variant

def _square(mat, p):
  return mat.choice(R.squares(p))


def _nonsquare(mat, p):
  sq = set(R.squares(p))
  return mat.choice([r for r in range(1, p) if r not in sq])


def _square_in_sub(mat, p):
  both = sorted(set(R.squares(p)) & R.subgroup(p))
  return mat.choice(both)


def run_variant(desc):
  mat = Material(desc['m'], 'c06v')
  kind, bits = desc['k'], desc['bits']
  ctx = {'kind': kind}
  M = 1
  for p in ALL_PRIMES:
    M *= p
  if kind == 'rand':
    n = mat.bits(bits) | (1 << (bits - 1)) | 1
  elif kind == 'real':
    # p = g^a, q = g^b (mod M) with a = b (mod 2) and an unknown base g: the docstring's target
    while True:
      g = mat.between(2, M - 1)
      if gmpy.gcd(g, M) == 1 and g != R.F4:
        break
    half = max(bits // 2, M.bit_length() + 10)
    p1, a1 = _structured_prime(mat, M, g, half)
    while True:
      p2, a2 = _structured_prime(mat, M, g, half)
      if (a1 - a2) % 2 == 0 and p2 != p1:
        break
    n = p1 * p2
  else:
    res = []
    for p in ALL_PRIMES:
      if p == 3:
        res.append(1 + mat.below(2))
      elif kind == 'qr-roca' and p in R.ROCA_PRIMES:
        res.append(_square_in_sub(mat, p))
      else:
        res.append(_square(mat, p))
    if kind in ('nonqr1', 'nonqr2', 'zero'):
      vp = R.VARIANT_PRIMES
      idx = [desc['w'] % len(vp)]
      if kind == 'nonqr2':
        idx.append((desc['w'] // len(vp)) % len(vp))
      for i in idx:
        res[ALL_PRIMES.index(vp[i])] = 0 if kind == 'zero' else _nonsquare(mat, vp[i])
      ctx['changed_at'] = [vp[i] for i in idx]
    r, _ = R.crt(res, ALL_PRIMES)
    n = _lift(mat, r, M, bits)
  exp_r, exp_v, zero = _roca_checks(n, desc['pad'], 'variant', **ctx)
  if not zero:
    if kind in ('nonqr1', 'nonqr2', 'qr-roca') and exp_v:
      raise AssertionError('generator/reference disagreement for kind %s' % kind)
    if kind == 'qr-roca' and not exp_r:
      raise AssertionError('qr-roca is not ROCA by the reference')
    if kind in ('qr', 'real') and not (exp_v or exp_r):
      raise AssertionError('generator/reference disagreement for kind %s' % kind)
  return {'nt': kind != 'rand' and not zero,
          'cls': _roca_cls('variant', kind, exp_r, exp_v, zero, n.bit_length())}


def strat_variant(tier):
  bits = st.one_of(st.sampled_from([640, 1024, 2048]), st.integers(320, 2048))
  return st.fixed_dictionaries({
      'm': material,
      'k': st.sampled_from(['qr', 'qr', 'nonqr1', 'nonqr1', 'nonqr2', 'qr-roca', 'qr-roca', 'zero',
                            'rand', 'real']),
      'bits': bits, 'w': st.integers(0, 48 * 48 - 1), 'pad': st.sampled_from([0, 0, 1])})


def enum_variant_residues(tier):
  """Every residue of every one of the 48 primes, all other residues non-zero squares."""
  reps = 1 if tier == 'quick' else 3
  for i, p in enumerate(R.VARIANT_PRIMES):
    for r in range(p):
      for j in range(reps):
        yield {'i': i, 'r': r, 'm': (i * 256 + r) * 8 + j, 'bits': (640, 1024, 2048)[(i + r + j) % 3]}


def run_variant_residue(desc):
  mat = Material(desc['m'], 'c06vr')
  res = [(1 + mat.below(2)) if p == 3 else _square(mat, p) for p in ALL_PRIMES]
  p = R.VARIANT_PRIMES[desc['i']]
  res[ALL_PRIMES.index(p)] = desc['r']
  r, M = R.crt(res, ALL_PRIMES)
  n = _lift(mat, r, M, desc['bits'])
  exp_r, exp_v, zero = _roca_checks(n, 0, 'variant-residue', prime=p, residue=desc['r'])
  if desc['r'] == 0:
    label = 'zero (unasserted)'
  else:
    label = 'square' if R.is_qr(desc['r'], p) else 'non-square'
    if exp_v != (label == 'square' and not exp_r):
      raise AssertionError('reference inconsistent')
  return {'nt': desc['r'] != 0, 'cls': ['variant-residue %s' % label,
                                        'variant-residue expected=%s' % exp_v]}


# ---------------------------------------------------------------- OpenSSL denylist

class _AbcSet(collections.abc.Set):
  """A user container that is a Set but neither set nor frozenset."""

  def __init__(self, items):
    self._items = sorted(set(items))

  def __contains__(self, x):
    return isinstance(x, str) and x in self._items

  def __iter__(self):
    return iter(self._items)

  def __len__(self):
    return len(self._items)


class _Storage(storage_mod.Storage):
  """A user-supplied storage with harness-chosen contents."""

  def __init__(self, denylist=(), table=None):
    self._deny = denylist
    self._tab = table or {}

  def GetUnseededRands(self, size):
    return frozenset()

  def GetKeypairData(self):
    d = data_pb2.KeypairData()
    for k, v in self._tab.items():
      d.table[k] = v
    return d

  def GetOpensslDenylist(self):
    return self._deny


def _near_misses(n, kinds):
  fp = R.vulnkey_fingerprint(n)
  kt, h = fp.split(':')
  full = hashlib.sha1(('Modulus=%X\n' % n).encode()).hexdigest()
  out = []
  for k in kinds:
    if k == 'bits+1':
      out.append('RSA-%d:%s' % (n.bit_length() + 1, h))
    elif k == 'bits-1':
      out.append('RSA-%d:%s' % (n.bit_length() - 1, h))
    elif k == 'bits-round':
      b = -(-n.bit_length() // 8) * 8
      out.append('RSA-%d:%s' % (b if b != n.bit_length() else b + 8, h))
    elif k == 'n+2':
      out.append(R.vulnkey_fingerprint(n + 2))
    elif k == 'upper':
      if h.upper() != h:
        out.append('%s:%s' % (kt, h.upper()))
    elif k == 'head':
      if full[:20] != h:
        out.append('%s:%s' % (kt, full[:20]))
    elif k == 'full':
      out.append('%s:%s' % (kt, full))
    elif k == 'bare':
      out.append(h)
    elif k == 'lower-x':
      alt = hashlib.sha1(('Modulus=%x\n' % n).encode()).hexdigest()[20:]
      if alt != h:
        out.append('%s:%s' % (kt, alt))
    elif k == 'no-newline':
      out.append('%s:%s' % (kt, hashlib.sha1(('Modulus=%X' % n).encode()).hexdigest()[20:]))
  return out


_NEAR = ['bits+1', 'bits-1', 'bits-round', 'n+2', 'upper', 'head', 'full', 'bare', 'lower-x',
         'no-newline']


def run_openssl(desc):
  mat = Material(desc['m'], 'c06o')
  ns, keys = [], []
  deny = ['RSA-2048:%020x' % mat.bits(80) for _ in range(desc['noise'])]
  nears = 0
  for it in desc['keys']:
    L = it['L']
    n = {'lo': 1 << (L - 1), 'hi': (1 << L) - 1}.get(it['k']) or (mat.bits(L) | (1 << (L - 1)) | 1)
    if it.get('dup') and ns:
      n = ns[0]
    ns.append(n)
    keys.append(art.rsa_key(n, pad_n=it['pad']))
    if it['listed']:
      deny.append(R.vulnkey_fingerprint(n))
    nm = _near_misses(n, it['near'])
    nears += len(nm)
    deny.extend(nm)
  deny = mat.shuffle(deny)
  cont = {'set': set, 'frozenset': frozenset, 'abc': _AbcSet}[desc['cont']](deny)
  exp = [R.vulnkey_fingerprint(n) in set(deny) for n in ns]
  check = libcall(single.CheckOpensslDenylist, paranoid_storage=_Storage(denylist=cont))
  _verdicts(check, keys, exp, 'openssl', bits=[n.bit_length() for n in ns],
            listed=[it['listed'] for it in desc['keys']], near=[it['near'] for it in desc['keys']],
            container=desc['cont'])
  # with the default storage (empty lists in this checkout) nothing is in the supplied list
  dflt = _inst('CheckOpensslDenylist', lambda: libcall(single.CheckOpensslDenylist))
  _verdicts(dflt, [art.rsa_key(n) for n in ns[:1]], [False] * len(ns[:1]), 'openssl-default-storage')
  cls = ['openssl container=%s' % desc['cont'],
         'openssl flagged=%d/%d' % (min(sum(exp), 2), min(len(exp), 2))]
  if nears:
    cls.append('openssl with-near-misses')
  if any(e and it['pad'] for e, it in zip(exp, desc['keys'])):
    cls.append('openssl listed key with leading zero bytes')
  if any(n.bit_length() % 8 for n in ns):
    cls.append('openssl bit length not a multiple of 8')
  if any(len('%X' % n) % 2 for n in ns):
    cls.append('openssl odd number of hex digits')
  return {'nt': any(exp) or nears > 0, 'cls': cls}


def strat_openssl(tier):
  L = st.one_of(st.sampled_from([1024, 2048, 4096]), st.sampled_from([1023, 2047, 2045, 2049, 4093]),
                st.integers(64, 4200))
  key = st.fixed_dictionaries({
      'L': L, 'k': st.sampled_from(['rnd', 'rnd', 'rnd', 'lo', 'hi']), 'pad': st.sampled_from([0, 0, 1, 3]),
      'listed': st.booleans(), 'dup': st.sampled_from([False, False, False, True]),
      'near': st.lists(st.sampled_from(_NEAR), max_size=3, unique=True)})
  return st.fixed_dictionaries({
      'm': material, 'keys': st.lists(key, min_size=1, max_size=4),
      'cont': st.sampled_from(['set', 'frozenset', 'abc']), 'noise': st.integers(0, 5)})


# ---------------------------------------------------------------- keypair (CVE-2021-41117)

def _default_keypair_check():
  return _inst('CheckKeypairDenylist', lambda: libcall(single.CheckKeypairDenylist))


def _default_table():
  def load():
    from paranoid_crypto.lib.data import default_storage  # pylint: disable=g-import-not-at-top
    return dict(default_storage.DefaultStorage().GetKeypairData().table)
  return _inst('keypair-table', load)


def _keypair_expect(check, n, p, q, expect, clause, pad=0, **ctx):
  """expect True: flagged with {p,q}; False: not flagged; None: any flag must carry valid factors."""
  key = art.rsa_key(n, pad_n=pad)
  ret = libcall(check.Check, [key])
  e = art.entry(key.test_info, 'CheckKeypairDenylist')
  if e is None:
    raise Violation(clause + ':no-entry', **ctx)
  fs = art.factor_set(key.test_info, 'N_FACTORS')
  flagged = e[0]
  if bool(ret) != flagged or bool(key.test_info.weak) != flagged:
    raise Violation(clause + ':inconsistent-verdict', entry=flagged, ret=repr(ret),
                    weak=bool(key.test_info.weak), **ctx)
  if expect is True:
    if not flagged:
      raise Violation(clause + ':missed', n=n, **ctx)
    if fs != {p, q}:
      raise Violation(clause + ':wrong-factors', n=n, got=sorted(fs or []), **ctx)
  elif expect is False:
    if flagged or fs is not None:
      raise Violation(clause + ':false-flag', n=n, got=sorted(fs or []), **ctx)
  else:
    if flagged:
      prod = 1
      for f in fs or [0]:
        prod *= f
      if fs is None or len(fs) != 2 or prod != n:
        raise Violation(clause + ':flag-without-valid-factors', n=n, got=sorted(fs or []), **ctx)
    elif fs is not None:
      raise Violation(clause + ':factors-without-flag', n=n, **ctx)
  return flagged


def _lib_generate(seed, bits):
  from paranoid_crypto.lib import keypair_generator  # pylint: disable=g-import-not-at-top
  return libcall(lambda: keypair_generator.Generator(seed).generate_key(bits))


def run_keypair(desc):
  kind, b0, bits = desc['k'], desc['b0'], desc['bits']
  mat = Material(desc['m'], 'c06k')
  cls = ['keypair kind=%s bits=%d' % (kind, bits)]
  if kind == 'covered':
    seed = R.seed_from_sparse(b0, [])
    p, q = R.keypair_key(seed, bits)
    n = p * q
    lp, lq = _lib_generate(bytearray(seed), bits)
    if {int(lp), int(lq)} != {p, q}:
      raise Violation('keypair:generator-differs-from-transcription', b0=b0, bits=bits)
    msb = n >> (n.bit_length() - 64)
    if _default_table().get(msb) != bytes([b0]):
      raise Violation('keypair:covered-seed-not-in-shipped-table', b0=b0, bits=bits, msb=msb)
    _keypair_expect(_default_keypair_check(), n, p, q, True, 'keypair:covered', pad=desc['pad'],
                    b0=b0, bits=bits)
    # moduli that merely share the 64 most significant bits with the covered key
    low = n.bit_length() - 64
    for sel in desc['near']:
      k = sel % low
      n2 = n ^ (1 << k)
      if n2 >> low != msb:
        raise AssertionError('msb changed')
      _keypair_expect(_default_keypair_check(), n2, p, q, False, 'keypair:shares-64-msb',
                      b0=b0, bits=bits, flipped_bit=k)
      cls.append('keypair near-miss flipped bit %s' % ('0' if k == 0 else 'top' if k == low - 1 else 'mid'))
    return {'nt': True, 'cls': cls}
  if kind == 'uncovered':
    extra = [[1 + e[0] % 31, 1 + e[1] % 255] for e in desc['extra']] or [[5, 1]]
    seed = R.seed_from_sparse(b0, extra)
    p, q = R.keypair_key(seed, bits)
    n = p * q
    in_table = (n >> (n.bit_length() - 64)) in _default_table()
    flagged = _keypair_expect(_default_keypair_check(), n, p, q, None, 'keypair:uncovered',
                              b0=b0, bits=bits, extra=extra)
    cls.append('keypair uncovered seed: %s' % ('flagged' if flagged else 'not flagged'))
    if in_table:
      cls.append('keypair uncovered seed hits the table by msb')
    return {'nt': True, 'cls': cls}
  # custom storage: table built by the harness (documented metadata format b0|i1|b1|...)
  entries = []
  table = {}
  for j, ent in enumerate(desc['table']):
    extra = sorted({1 + e[0] % 31: 1 + e[1] % 9 for e in ent['extra']}.items())
    if not ent.get('sorted', True):
      extra = extra[::-1]
    seed = R.seed_from_sparse(ent['b0'], extra)
    p, q = R.keypair_key(seed, bits)
    n = p * q
    meta = bytes([ent['b0']] + [x for iv in extra for x in iv])
    msb = n >> (n.bit_length() - 64)
    mode = ent['mode']
    if mode == 'listed':
      table[msb] = meta
    elif mode == 'wrong-meta':
      # the 64 msb of n point at the metadata of a different seed
      table[msb] = bytes([(ent['b0'] + 1 + mat.below(255)) % 256]) + meta[1:]
    entries.append((n, p, q, mode, len(extra)))
  check = libcall(single.CheckKeypairDenylist, paranoid_storage=_Storage(table=table))
  for n, p, q, mode, nx in entries:
    if (n >> (n.bit_length() - 64)) in table and mode == 'absent':
      mode = 'collides'
    exp = {'listed': True, 'absent': False, 'wrong-meta': None, 'collides': None}[mode]
    _keypair_expect(check, n, p, q, exp, 'keypair:custom-' + mode, bits=bits, nonzero_extra=nx)
    cls.append('keypair custom %s extra-bytes=%d' % (mode, nx))
  return {'nt': any(e[3] == 'listed' for e in entries), 'cls': sorted(set(cls))}


def strat_keypair(tier):
  pair = st.tuples(st.integers(0, 30), st.integers(0, 254)).map(list)
  covered = st.fixed_dictionaries({
      'k': st.just('covered'), 'b0': st.integers(0, 255),
      'bits': st.sampled_from([2048, 2048, 3072, 4096]), 'm': material,
      'pad': st.sampled_from([0, 0, 1]),
      'near': st.lists(st.one_of(st.sampled_from([0, 1, 100, -1]), st.integers(0, 5000)),
                       min_size=1, max_size=2)})
  uncovered = st.fixed_dictionaries({
      'k': st.just('uncovered'), 'b0': st.integers(0, 255), 'bits': st.sampled_from([2048, 3072]),
      'm': material, 'extra': st.lists(pair, min_size=1, max_size=3)})
  ent = st.fixed_dictionaries({
      'b0': st.integers(0, 255), 'extra': st.lists(pair, min_size=0, max_size=3),
      'mode': st.sampled_from(['listed', 'listed', 'listed', 'absent', 'wrong-meta']),
      'sorted': st.booleans()})
  custom = st.fixed_dictionaries({
      'k': st.just('custom'), 'b0': st.just(0), 'm': material,
      'bits': st.sampled_from([512, 1024, 2048] if tier == 'quick' else [512, 1024, 2048, 3072, 4096]),
      'table': st.lists(ent, min_size=1, max_size=3)})
  return st.one_of(covered, covered, uncovered, custom, custom)


def enum_keypair_seeds(tier):
  """All 256 x 3 covered seeds (thorough); a seed-dependent sample of 24 in quick."""
  if tier == 'thorough':
    for bits in (2048, 3072, 4096):
      for b0 in range(256):
        yield {'k': 'covered', 'b0': b0, 'bits': bits, 'm': b0, 'pad': 0, 'near': [100, b0 * 7]}
    return
  seed = int(os.environ.get('VERIF_SEED', '0') or 0)
  mat = Material(seed, 'c06-keypair-sample')
  for bits in (2048, 3072, 4096):
    for b0 in mat.shuffle(range(256))[:8]:
      yield {'k': 'covered', 'b0': b0, 'bits': bits, 'm': b0, 'pad': 0, 'near': [100]}


# ---------------------------------------------------------------- EC validity / weak curve

PRIME = dict(ecdsa_gen.CURVE_NAMES)
POINT_KINDS = ['valid', 'neg', 'x0', 'x+p', 'y+p', 'xy+p', 'x=p', 'y=p', 'zero', 'y+1', 'y-1', 'x+1',
               'rand', 'huge', 'x+2p', 'other-curve', 'p-1', 'swap', 'G', 'y=0']


def _valid_point(mat, rc):
  while True:
    x = mat.below(rc.p)
    y = R.sqrt_mod(x * x * x + rc.a * x + rc.b, rc.p)
    if y:
      return (x, y if mat.below(2) else rc.p - y)


def _point(mat, rc, kind, ct):
  p = rc.p
  x, y = _valid_point(mat, rc)
  if kind == 'valid':
    return x, y
  if kind == 'neg':
    return x, p - y
  if kind == 'x0':       # a valid point with x = 0 exists iff b is a square
    r = R.sqrt_mod(rc.b, p)
    return (0, r) if r else (0, y)
  if kind == 'x+p':
    return x + p, y
  if kind == 'y+p':
    return x, y + p
  if kind == 'xy+p':
    return x + p, y + p
  if kind == 'x=p':      # congruent to the valid point (0, sqrt b) when it exists
    r = R.sqrt_mod(rc.b, p)
    return (p, r) if r else (p, y)
  if kind == 'y=p':
    return x, p
  if kind == 'zero':
    return 0, 0
  if kind == 'y+1':
    return x, y + 1
  if kind == 'y-1':
    return x, y - 1
  if kind == 'x+1':
    return x + 1, y
  if kind == 'rand':
    return mat.below(p), mat.below(p)
  if kind == 'huge':
    return x + (p << (8 * (1 + mat.below(40)))), y
  if kind == 'x+2p':
    return x + 2 * p, y
  if kind == 'other-curve':
    others = [c for c in PRIME if c != ct and ecdsa_gen.ref(c).p.bit_length() == p.bit_length()]
    if others:
      return _valid_point(mat, ecdsa_gen.ref(mat.choice(others)))
    return _valid_point(mat, ecdsa_gen.ref(mat.choice(sorted(PRIME))))
  if kind == 'p-1':
    return p - 1, y
  if kind == 'swap':
    return y, x
  if kind == 'G':
    return rc.g
  if kind == 'y=0':
    return x, 0
  raise ValueError(kind)


def run_ec(desc):
  mat = Material(desc['m'], 'c06ec')
  ct, kind, pad = desc['ct'], desc['pk'], desc['pad']
  known = ct in PRIME
  if known:
    rc = ecdsa_gen.ref(ct)
    x, y = _point(mat, rc, kind, ct)
    invalid = not rc.valid_public((x, y))
    weak_curve = rc.n.bit_length() < 224
  else:
    src = ecdsa_gen.ref(mat.choice(sorted(PRIME)))
    x, y = _point(mat, src, kind if kind in ('valid', 'zero', 'rand', 'G') else 'valid', None)
    invalid = True          # unknown / unsupported curve
    weak_curve = False
  ctx = dict(curve_type=ct, kind=kind, x=x, y=y)
  key = art.ec_key(ct, x, y, pad=pad)
  _verdicts(_inst('CheckValidECKey', ec_single_checks.CheckValidECKey), [key], [invalid],
            'ecvalid', **ctx)
  key2 = art.ec_key(ct, x, y, pad=pad)
  if known:
    _verdicts(_inst('CheckWeakCurve', ec_single_checks.CheckWeakCurve), [key2], [weak_curve],
              'weakcurve', **ctx)
  else:
    # the property only says which curves are flagged; whether an entry exists is not asserted
    ret = libcall(_inst('CheckWeakCurve', ec_single_checks.CheckWeakCurve).Check, [key2])
    e = art.entry(key2.test_info, 'CheckWeakCurve')
    if ret or (e is not None and e[0]) or key2.test_info.weak:
      raise Violation('weakcurve:unknown-curve-flagged', **ctx)
  if known:
    # the same key judged after a flagged key in one batch (one Check call): verdicts are per artifact
    c192 = ecdsa_gen.C.CURVE_SECP192R1
    first = art.ec_key(c192, *ecdsa_gen.mul_g(c192, 5))
    _verdicts(_inst('CheckWeakCurve', ec_single_checks.CheckWeakCurve),
              [first, art.ec_key(ct, x, y, pad=pad)], [True, weak_curve], 'weakcurve-in-batch', **ctx)
    bad = art.ec_key(ct, 1, 1)
    _verdicts(_inst('CheckValidECKey', ec_single_checks.CheckValidECKey),
              [bad, art.ec_key(ct, x, y, pad=pad)], [not rc.valid_public((1, 1)), invalid],
              'ecvalid-in-batch', **ctx)
  if known:
    curve = ec_util.CURVE_FACTORY[ct]
    for conv in (int, gmpy.mpz):
      got = libcall(curve.IsValidPublicKey, (conv(x), conv(y)))
      if bool(got) == invalid:
        raise Violation('isvalidpublickey:' + ('accepted-invalid' if invalid else 'rejected-valid'),
                        via=conv.__name__, **ctx)
    if desc.get('inf'):
      got = libcall(curve.IsValidPublicKey, ec_util.INFINITY)
      if got:
        raise Violation('isvalidpublickey:accepted-infinity', curve_type=ct)
  if known:
    cls = ['ec %s kind=%s -> %s' % ('prime-curve', kind, 'invalid' if invalid else 'valid')]
    cls.append('ec curve=%s weak=%s' % (PRIME[ct], weak_curve))
    if kind in ('x0', 'x=p') and R.sqrt_mod(rc.b, rc.p):
      cls.append('ec x congruent 0 on the curve (b is a square)')
  else:
    cls = ['ec curve-id %s' % ('0 (unknown)' if ct == 0 else 'binary-field' if 7 <= ct <= 16
                               else 'outside the enum')]
  if pad:
    cls.append('ec leading zero bytes')
  if x == 0 and y == 0 and not pad:
    cls.append('ec empty coordinate bytes')
  return {'nt': (not known) or kind != 'rand', 'cls': cls}


_ODD_IDS = [-(1 << 31), -1, 20, 21, 100, 255, 256, 65538, (1 << 31) - 1]


def strat_ec(tier):
  known = st.sampled_from(sorted(PRIME))
  ct = st.one_of(known, known, known, known, known, known, st.integers(-2, 24),
                 st.sampled_from(_ODD_IDS), st.integers(-(1 << 31), (1 << 31) - 1))
  return st.fixed_dictionaries({
      'm': material, 'ct': ct, 'pk': st.sampled_from(POINT_KINDS), 'pad': st.sampled_from([0, 0, 1, 4]),
      'inf': st.booleans()})


def enum_ec_ids(tier):
  """Every curve id -2..24 and out-of-enum extremes x every point kind."""
  i = 0
  for ct in list(range(-2, 25)) + _ODD_IDS:
    kinds = POINT_KINDS if ct in PRIME else ['valid', 'zero', 'rand', 'G']
    for k in kinds:
      for pad in (0, 2):
        i += 1
        yield {'m': i, 'ct': ct, 'pk': k, 'pad': pad, 'inf': pad == 0}


# ---------------------------------------------------------------- cofactor > 1 (toy curves)

def _factor(n):
  f, d = [], 2
  while d * d <= n:
    while n % d == 0:
      f.append(d)
      n //= d
    d += 1
  if n > 1:
    f.append(n)
  return f


def _toy_subgroups(p, a, b):
  """[(G, n, h, set of non-neutral elements of <G>)] for every prime n with n | N, n^2 not | N, N/n > 1."""
  pts = ec_ref.toy_points(p, a, b)
  N = len(pts) + 1
  rc = ec_ref.RefCurve(p, a, b)
  out = []
  for n in sorted(set(_factor(N))):
    h = N // n
    if h == 1 or h % n == 0:
      continue
    for P in pts:
      # walk the cyclic group generated by P; a point of order n is (ord/n)*P
      walk = [P]
      while True:
        Q = rc.add(walk[-1], P)
        if Q is None:
          break
        walk.append(Q)
      order = len(walk) + 1
      if order % n == 0:
        G = walk[order // n - 1]
        sub = {G}
        Q = G
        while True:
          Q = rc.add(Q, G)
          if Q is None:
            break
          sub.add(Q)
        if len(sub) != n - 1:
          raise AssertionError('subgroup walk inconsistent')
        out.append((G, n, h, sub))
        break
  return out, pts


def enum_toy(tier):
  ps = (5, 7, 11, 13, 17, 19, 23) if tier == 'quick' else (5, 7, 11, 13, 17, 19, 23, 29, 31, 37, 41, 43)
  for p in ps:
    arange = range(p) if (tier == 'thorough' or p <= 13) else range(0, min(p, 5))
    for a in arange:
      for b in range(p):
        if (4 * a * a * a + 27 * b * b) % p:
          yield {'p': p, 'a': a, 'b': b, 'neg_a': (a + b) % 2 == 1}


def run_toy(desc):
  p, a, b = desc['p'], desc['a'], desc['b']
  subs, pts = _toy_subgroups(p, a, b)
  if not subs:
    return {'nt': False, 'cls': ['toy prime-order or prime-power-order group (skipped)']}
  # the library is also given a as a negative representative (as the named curves give a = -3)
  a_lib = a - p if desc.get('neg_a') else a
  on = set(pts)
  checked = 0
  outside = 0
  cls = set()
  for G, n, h, sub in subs:
    curve = libcall(ec_util.EcCurve, 'toy', a_lib, b, p, G[0], G[1], n, h)
    ctx = dict(p=p, a=a_lib, b=b, n=n, h=h, G=list(G))
    for x in range(p):
      for y in range(p):
        exp = (x, y) in sub
        for conv in (int, gmpy.mpz):
          got = libcall(curve.IsValidPublicKey, (conv(x), conv(y)))
          if bool(got) != exp:
            kind = ('rejected-valid' if exp else
                    'accepted-out-of-subgroup' if (x, y) in on else 'accepted-off-curve')
            raise Violation('toy:' + kind, point=[x, y], via=conv.__name__, **ctx)
        checked += 1
        if (x, y) in on and not exp:
          outside += 1
    for (x, y) in sorted(sub):
      for sx, sy in ((p, 0), (0, p), (p, p), (2 * p, 0)):
        got = libcall(curve.IsValidPublicKey, (gmpy.mpz(x + sx), gmpy.mpz(y + sy)))
        if got:
          raise Violation('toy:accepted-out-of-range', point=[x + sx, y + sy], **ctx)
        checked += 1
    if libcall(curve.IsValidPublicKey, ec_util.INFINITY):
      raise Violation('toy:accepted-infinity', **ctx)
    cls.add('toy cofactor=%s' % (h if h <= 4 else '5+'))
    cls.add('toy subgroup order %s' % ('2' if n == 2 else '3-7' if n <= 7 else '11+'))
  if any(y == 0 for _, y in on):
    cls.add('toy curve has 2-torsion points')
  if a_lib == -3:
    cls.add('toy a given as the literal -3')
  return {'nt': outside > 0, 'cls': sorted(cls), 'points': checked, 'out_of_subgroup': outside}


ARMS = [
    Arm('keypair', run_keypair, strategy=strat_keypair, quick=64, thorough=600,
        budget=(150, 1500), weight=10, doc='covered / uncovered seeds, msb-sharing moduli, user tables'),
    Arm('keypair_seeds', run_keypair, enumerate=enum_keypair_seeds, exhaustive=True,
        budget=(150, 2400), weight=9, doc='all 768 covered seeds in thorough, 24 sampled in quick'),
    Arm('sizes', run_sizes, strategy=strat_sizes, quick=2400, thorough=40000),
    Arm('sizes_boundary', run_sizes, enumerate=enum_sizes, exhaustive=True),
    Arm('exponents', run_exponents, strategy=strat_exponents, quick=2400, thorough=40000),
    Arm('exponents_listed', run_exponents, enumerate=enum_exponents, exhaustive=True),
    Arm('roca', run_roca, strategy=strat_roca, quick=1600, thorough=30000, weight=2),
    Arm('roca_residues', run_roca_residue, enumerate=enum_roca_residues, exhaustive=True, weight=2),
    Arm('roca_variant', run_variant, strategy=strat_variant, quick=1600, thorough=30000, weight=2),
    Arm('variant_residues', run_variant_residue, enumerate=enum_variant_residues, exhaustive=True,
        weight=2),
    Arm('openssl_denylist', run_openssl, strategy=strat_openssl, quick=2400, thorough=40000),
    Arm('ec_keys', run_ec, strategy=strat_ec, quick=3200, thorough=50000, weight=2),
    Arm('ec_curve_ids', run_ec, enumerate=enum_ec_ids, exhaustive=True),
    Arm('ec_cofactor_toy', run_toy, enumerate=enum_toy, exhaustive=True, weight=3,
        doc='IsValidPublicKey on every point of small curves with cofactor > 1'),
]
