"""C14 - linear complexity is the true shortest-LFSR length in every implementation."""

import glob
import hashlib
import json
import os
import shutil
import subprocess
import sys
import time

from hypothesis import strategies as st

from gens.common import Material, material
from harness import boot
from harness.core import Arm, Violation, derive_seed, libcall
from refs import lfsr_ref as ref

from paranoid_crypto.lib.randomness_tests import berlekamp_massey as bm
from paranoid_crypto.lib.randomness_tests.cc_util.pybind import berlekamp_massey as pybm

ID = 'C14'
TITLE = 'Linear complexity is the true shortest-LFSR length in every implementation'
TECHNIQUE = ('differential testing against a definition-validated textbook Berlekamp-Massey; '
             'exhaustive enumeration; discrepancy-schedule constructions; libFuzzer+ASan/UBSan')
RULE = (
    'Implementations under test: LinearComplexityNative (pure Python), LinearComplexity (wrapper) '
    'over the C++ source of the working tree compiled with and without carry-less multiplication, '
    'and the raw C++ entry point with surplus bytes/bits. Oracle: textbook Berlekamp-Massey on '
    'integers (refs/lfsr_ref.bm_int), itself checked against the Gaussian-elimination definition '
    'on every sequence of length <= 14 (arm ref_validation). Arm exhaustive enumerates every '
    'sequence of length 0..18 (quick) / 0..22 (thorough) in blocks of 512. Arm lengths walks every '
    'length 0..1100 (thorough 0..2304) with four constructions each. Arm sequences draws '
    '(family, length, parameters) with Hypothesis; bulk bits come from SHAKE-256 of a 64-bit '
    'material integer; families: random, sparse, zero, one, periodic, lfsr(degree), pad (leading/'
    'trailing zero runs), jump (LFSR prefix of degree 0..40, complexity jump forced at bit 64k+63 '
    '(+-1), random/zero/one/lfsr tail) and disc (the sequence is constructed from a prescribed '
    'discrepancy schedule through an online Berlekamp-Massey, events aimed at bits 63/62/0 of a '
    'word). A sequence is non-trivial when its complexity changes in the last bit of a 64-bit word '
    'or, for n mod 64 != 0, inside the final partial word; classes carryA/B/C mark words without a '
    'length change in bits 0..62 (the only words in which the CLMUL code sets carry_a/carry_c). '
    'Arm counts compares LfsrCount/LfsrLogProbability with the brute-force histogram (n <= 16/20) '
    'and with exact dynamic-programming counts for every n <= 4096 and every m. Arm fuzz runs a '
    'libFuzzer binary (both C++ variants + in-driver reference, ASan+UBSan) seeded with the '
    'word-boundary corpus of arm single. Distinctness by SHA-256 of the descriptor.')
ASSUMPTIONS = [
    'the 30-line Gaussian-elimination definition of linear complexity (refs/lfsr_ref.lc_definition) is correct; '
    'the textbook Berlekamp-Massey reference is trusted beyond n = 14 because it agrees with it on all 32767 shorter sequences',
    'CPython integer arithmetic, int.bit_count and SHAKE-256 are correct',
    'g++ -O2 (with -mpclmul -D__CLMUL__ for the CLMUL variant) compiles the working-tree source faithfully; '
    'the ctypes stand-in passes (bytes, n) unchanged like the pybind11 module would',
    'LfsrCount/LfsrLogProbability are defined for n >= 1 (LfsrLogProbability raises for n <= 0; '
    'LfsrCount returns 0 there); LfsrLogProbability returns log2 of the probability (first docstring line, '
    'upstream test and all callers), not its negation',
]

WORD = 64


# ---------------------------------------------------------------- calling the implementations

def _wrapper(variant, s, n):
  """berlekamp_massey.LinearComplexity with the chosen compiled variant behind it."""
  old = pybm._variant
  pybm._variant = variant
  try:
    return libcall(bm.LinearComplexity, s, n)
  finally:
    pybm._variant = old


def _check_all(s, n, expected, where, wrapper=True, native_py=True):
  """All implementations on the in-domain sequence (s, n); n >= 1 for the C++ side."""
  if native_py:
    got = libcall(bm.LinearComplexityNative, s, n)
    if got != expected or not isinstance(got, int):
      raise Violation('python-native:wrong-length', n=n, s=s, got=got, expected=expected,
                      where=where)
  if n == 0:
    return  # the empty byte string only goes to C++ in a subprocess (arm empty_input)
  for variant in ('clmul', 'plain'):
    if wrapper:
      got = _wrapper(variant, s, n)
    else:
      got = pybm.LfsrLengthVariant(variant, s.to_bytes((n + 7) // 8, 'little'), n)
    if got != expected:
      raise Violation('cc-%s:wrong-length' % variant, n=n, s=s, got=got, expected=expected,
                      where=where)


def _check_raw(data, n, expected, where):
  if not data:
    return
  for variant in ('clmul', 'plain'):
    got = pybm.LfsrLengthVariant(variant, data, n)
    if got != expected:
      raise Violation('cc-%s:wrong-length' % variant, n=n, hex=data.hex(), got=got,
                      expected=expected, where=where)


# ---------------------------------------------------------------- profile -> classes

def _classify(n, changes, disc63):
  """NT flag and carry classes from the reference's complexity profile."""
  cls = []
  tail0 = n - (n % WORD)
  nt = False
  if any((p % WORD) == WORD - 1 for p in changes):
    nt = True
    cls.append('change-in-last-bit-of-word')
  if n % WORD and any(p >= tail0 for p in changes):
    nt = True
    cls.append('change-in-partial-tail-word')
  # words fully processed by the 64-step loop
  nwords = n // WORD
  if nwords:
    chg_words = {}
    for p in changes:
      chg_words.setdefault(p // WORD, []).append(p)
    last_change = changes[-1] if changes else -1
    seen = set()
    for w in range(nwords):
      ps = chg_words.get(w, [])
      end = w * WORD + WORD - 1
      if any(p != end for p in ps):
        continue
      if ps:                      # single change, at bit 63
        kind = 'carryB(change-at-bit63,none-before)'
      elif end in disc63:
        kind = 'carryC(disc-at-bit63,no-change-in-word)'
      else:
        kind = 'carryA(word-without-change)'
      if last_change > end:
        kind += '+later-change'
      seen.add(kind)
    cls.extend(sorted(seen))
  return nt, cls


def _nlabel(n):
  if n <= 1151:
    return 'n<=1151,n%%64=%02d' % (n % WORD)
  return 'n=1152..2^14' if n <= 1 << 14 else 'n>2^14'


# ---------------------------------------------------------------- arm: ref_validation

def enum_refval(tier):
  for n in range(0, 15):
    total = 1 << n
    step = 256
    for lo in range(0, total, step):
      yield {'n': n, 'lo': lo, 'hi': min(total, lo + step)}


def run_refval(desc):
  n = desc['n']
  for s in range(desc['lo'], desc['hi']):
    bits = ref.bits_of(s, n)
    a = ref.lc_definition(bits)
    b = ref.bm_list(bits)
    c = ref.bm_int(s, n)
    # the generators' constructor must invert: discrepancy positions -> the same sequence
    online = ref.OnlineBM()
    discs = [i for i, bit in enumerate(bits) if online.push(bit)]
    back = ref.from_discrepancies(n, discs)
    if not (a == b == c == online.L) or back != (s, a):
      raise RuntimeError('reference implementations disagree on n=%d s=%d: %r' %
                         (n, s, (a, b, c, online.L, back)))
  return {'nt': n > 0, 'cls': ['refs-agree,n=%d' % n], 'sequences': desc['hi'] - desc['lo']}


# ---------------------------------------------------------------- arm: exhaustive

BLOCK = 512


def enum_exhaustive(tier):
  top = 18 if tier == 'quick' else 22
  for n in range(0, top + 1):
    total = 1 << n
    for lo in range(0, total, BLOCK):
      yield {'n': n, 'lo': lo, 'hi': min(total, lo + BLOCK)}


def run_exhaustive(desc):
  n = desc['n']
  changed = 0
  for s in range(desc['lo'], desc['hi']):
    L = ref.bm_int(s, n)
    _check_all(s, n, L, 'exhaustive')
    changed += 1 if L else 0
  return {'nt': changed > 0 and n > 0, 'cls': ['exhaustive,n=%d' % n],
          'sequences': desc['hi'] - desc['lo']}


# ---------------------------------------------------------------- arm: single (n, hex)

def _single_cases():
  """Deterministic word-boundary constructions; also the libFuzzer seed corpus."""
  out = []
  def add(s, n, extra=b''):
    out.append({'n': n, 'hex': (s.to_bytes((n + 7) // 8, 'little') + extra).hex()})
  for k in (0, 1, 2, 3):
    p = WORD * k + 63
    mat = Material(1000 + k, 'c14seed')
    for tail in (1, 64, 65, 130, p + 70, 2 * p + 40):
      n = p + 1 + tail
      add((1 << p) | (mat.bits(tail) << (p + 1)), n)
      add((1 << p), n)
    # LFSR prefix of small degree then a forced jump at p
    for d in (1, 2, 5, 17, 31):
      taps = mat.bits(d) | (1 << (d - 1))
      state = mat.bits(d) | 1
      pre = ref.lfsr_bits(taps, state, d, p + 1) ^ (1 << p)
      tail = 100 + 37 * d
      add(pre | (mat.bits(tail) << (p + 1)), p + 1 + tail)
  # discrepancy schedules: carry cases A, B, C followed by an observable change
  for ev, n in (([63, 130, 191, 250], 300), ([0, 127, 200], 320), ([100, 191, 230, 233], 330),
                ([63, 127, 128, 129, 200, 255, 300], 400), ([5, 6, 7, 191, 447, 448, 460], 600),
                ([127, 255, 256], 257), ([63], 64), ([62], 64), ([63], 65), ([64], 65),
                ([319], 320), ([0], 1), ([], 1), ([], 64), ([], 200), ([7], 8)):
    s, _ = ref.from_discrepancies(n, ev)
    add(s, n)
  add(0, 8, b'\xff\xff\xff')              # surplus bytes
  add(0x5a, 7, b'\x00' * 8)
  add((1 << 200) - 1, 200)
  return out


def enum_single(tier):
  return iter(_single_cases())


def run_single(desc):
  """(n, hex) through the raw C++ entry point; the in-range part also through the wrappers."""
  data = bytes.fromhex(desc['hex'])
  n = desc['n']
  if n < 0 or n > 8 * len(data):
    if data:
      _check_raw(data, n, -1, 'single:out-of-range')
    return {'nt': False, 'cls': ['single:out-of-range']}
  s = int.from_bytes(data, 'little') & ((1 << n) - 1)
  L, changes, disc63 = ref.bm_int(s, n, profile=True)
  _check_raw(data, n, L, 'single:raw')
  _check_all(s, n, L, 'single')
  nt, cls = _classify(n, changes, disc63)
  return {'nt': nt, 'cls': ['single'] + cls, 'L': L}


# ---------------------------------------------------------------- arm: sequences (Hypothesis)

def _expand(desc):
  fam = desc['fam']
  n = desc['n']
  mat = Material(desc.get('m', 0), 'c14:' + fam)
  full = (1 << n) - 1
  if fam == 'random':
    return mat.bits(n)
  if fam == 'zero':
    return 0
  if fam == 'one':
    return full
  if fam == 'sparse':
    s = 0
    if n:
      for p in desc['pos']:
        s |= 1 << (p % n)
    return s
  if fam == 'periodic':
    p = desc['p']
    pat = mat.bits(p) | (1 if desc.get('nz') else 0)
    reps = n // p + 1
    unit = ((1 << (p * reps)) - 1) // ((1 << p) - 1)   # 1 + 2^p + 2^2p + ...
    return (pat * unit) & full
  if fam == 'lfsr':
    d = desc['d']
    if d == 0:
      return 0
    taps = mat.bits(d) | (1 << (d - 1))
    state = mat.bits(d) or 1
    return ref.lfsr_bits(taps, state, d, n)
  if fam == 'pad':
    a = min(desc['a'], n)
    b = min(desc['b'], n - a)
    mid = n - a - b
    if mid <= 0:
      return 0
    core = mat.bits(mid) | 1 | (1 << (mid - 1))
    return core << a
  if fam == 'jump':
    d = desc['d']
    p = WORD * desc['k'] + 63 + desc['delta']
    if n == 0:
      return 0
    p = max(0, min(p, n - 1))
    taps = (mat.bits(d) | (1 << (d - 1))) if d else 0
    state = (mat.bits(d) or 1) if d else 0
    tail = desc['tail']
    if tail == 'lfsr':
      # keep following the old recurrence after the flipped bit
      s = ref.lfsr_bits(taps, state, d, p + 1) ^ (1 << p)
      if d and p + 1 >= d:
        # continue from the actual last d bits (includes the flipped one)
        win = (s >> (p + 1 - d)) & ((1 << d) - 1)
        cont = ref.lfsr_bits(taps, win, d, d + (n - p - 1)) >> d
        s |= cont << (p + 1)
      return s & full
    s = ref.lfsr_bits(taps, state, d, p + 1) ^ (1 << p)
    rest = n - p - 1
    if tail == 'random':
      s |= mat.bits(rest) << (p + 1)
    elif tail == 'one':
      s |= ((1 << rest) - 1) << (p + 1)
    return s & full
  if fam == 'disc':
    ev = set()
    for k, r in desc['ev']:
      ev.add(WORD * k + r)
    for start, length in desc['burst']:
      bits = mat.bits(length)
      for i in range(length):
        if (bits >> i) & 1:
          ev.add(start + i)
    return ref.from_discrepancies(n, ev)   # (s, L implied by the schedule)
  raise RuntimeError('unknown family %r' % fam)


def run_sequences(desc):
  n = desc['n']
  sched_L = None
  s = _expand(desc)
  if isinstance(s, tuple):
    s, sched_L = s
  if s >> n:
    raise RuntimeError('generator produced bits beyond n')
  L, changes, disc63 = ref.bm_int(s, n, profile=True)
  if sched_L is not None and sched_L != L:
    raise RuntimeError('reference disagrees with the discrepancy schedule: %d vs %d' % (L, sched_L))
  _check_all(s, n, L, desc['fam'])
  g = desc.get('g')
  if g and n:
    # the raw C++ contract: bits at positions >= n (same byte or surplus bytes) are ignored
    gm = Material(desc.get('m', 0) ^ 0x5a5a, 'c14:garbage')
    size = (n + 7) // 8
    body = s | (gm.bits(8 * size - n) << n)
    data = body.to_bytes(size, 'little') + (gm.bytes(g - 1) if g > 1 else b'')
    _check_raw(data, n, L, desc['fam'] + ':garbage-beyond-n')
  nt, cls = _classify(n, changes, disc63)
  out = ['fam=' + desc['fam'], _nlabel(n)] + cls
  if g:
    out.append('raw-call-with-garbage-beyond-n')
  return {'nt': nt, 'cls': out, 'L': L, 'changes': len(changes)}


def _lengths(tier):
  """(common, anylen): lengths 0..1151 only / the same plus about 8% sampled large lengths.

  A selector integer picks the branch (nested one_of would be flattened by Hypothesis and
  over-weight the large lengths).
  """
  big_top = (1 << 14) if tier == 'quick' else (1 << 17)
  near = st.builds(lambda k, r: max(0, WORD * k + r), st.integers(0, 17),
                   st.sampled_from([-1, 0, 1, 2, 62, 63]))
  small = st.integers(0, 1100)
  # large lengths: log-uniform word count between 18 and big_top/64, any residue class
  top_words = big_top // WORD
  big = st.one_of(
      st.integers(1101, 4096),
      st.builds(lambda e, r: min(big_top, WORD * min(top_words - 1, int(18 * 2 ** (e / 16))) + r),
                st.integers(0, 16 * 7), st.sampled_from([0, 1, 63, 17, 40])),
      st.sampled_from([big_top, big_top - 1, big_top - 63]))

  @st.composite
  def pick(draw, with_big):
    sel = draw(st.integers(0, 23 if with_big else 21))
    if sel < 11:
      return draw(small)
    if sel < 22:
      return draw(near)
    return draw(big)
  return pick(False), pick(True)


def strat_sequences(tier):
  common, anylen = _lengths(tier)
  g = st.one_of(st.just(0), st.just(0), st.integers(1, 18))

  def fam(name, **kw):
    kw.update({'fam': st.just(name), 'm': material, 'g': g})
    kw.setdefault('n', anylen)
    return st.fixed_dictionaries(kw)

  @st.composite
  def jump(draw):
    n = draw(anylen)
    kmax = max(0, (n - 1) // WORD)
    k = draw(st.integers(0, min(kmax, 40)))
    return {'fam': 'jump', 'n': n, 'm': draw(material), 'g': draw(g),
            'd': draw(st.one_of(st.just(0), st.integers(0, 40))),
            'k': k,
            'delta': draw(st.sampled_from([0, 0, 0, 0, 0, 0, -1, 1])),
            'tail': draw(st.sampled_from(['random', 'random', 'random', 'zero', 'one', 'lfsr']))}

  @st.composite
  def disc(draw):
    n = draw(common if tier == 'quick' else st.one_of(common, common, st.integers(1101, 8192)))
    nw = n // WORD + 1
    r = st.sampled_from([63, 63, 63, 63, 62, 0, 1, 31])
    # scenario: an early jump at p0 makes the complexity large, so later discrepancies at
    # bit 63 of a word do not change the length (carry case C); a late burst then makes
    # the earlier carries observable.
    k = st.integers(0, nw)
    ev = draw(st.lists(st.tuples(k, st.one_of(r, st.integers(0, 63))), min_size=0, max_size=8))
    nburst = draw(st.integers(0, 2))
    burst = []
    for _ in range(nburst):
      start = draw(st.integers(0, max(0, n)))
      burst.append([start, draw(st.integers(1, 80))])
    return {'fam': 'disc', 'n': n, 'm': draw(material), 'g': draw(g),
            'ev': [list(e) for e in ev], 'burst': burst}

  return st.one_of(
      fam('random'), fam('random'),
      fam('sparse', pos=st.lists(st.one_of(st.integers(0, 1 << 17),
                                           st.builds(lambda k, r: max(0, WORD * k + r),
                                                     st.integers(0, 30),
                                                     st.sampled_from([-1, 0, 63, 1]))),
                                 min_size=1, max_size=6)),
      st.one_of(fam('zero'), fam('one')),
      fam('periodic', p=st.integers(1, 130), nz=st.booleans()),
      fam('lfsr', d=st.one_of(st.integers(0, 40), st.integers(41, 300))),
      fam('pad', a=st.one_of(st.integers(0, 200), st.builds(lambda k, r: max(0, WORD * k + r),
                                                          st.integers(0, 17),
                                                          st.sampled_from([-1, 0, 1, 63]))),
          b=st.one_of(st.integers(0, 200), st.integers(0, 2000))),
      jump(), jump(), jump(),
      disc(), disc(), disc(),
  )


# ---------------------------------------------------------------- arm: lengths (every length)

def enum_lengths(tier):
  top = 1100 if tier == 'quick' else 2304
  for n in range(0, top + 1):
    last_boundary_bit = WORD * ((n - 1) // WORD) - 1 if n > WORD else -1   # bit 63 of the word before the last
    yield {'fam': 'random', 'n': n, 'm': n, 'g': 0}
    if last_boundary_bit >= 0:
      k = last_boundary_bit // WORD
      yield {'fam': 'jump', 'n': n, 'm': n, 'g': 3, 'd': 0, 'k': k, 'delta': 0, 'tail': 'random'}
      yield {'fam': 'jump', 'n': n, 'm': n + 1, 'g': 0, 'd': 1 + n % 23, 'k': k, 'delta': 0,
             'tail': 'random'}
      # early jump, then a discrepancy at bit 63 of every later word, dense burst at the end
      p0 = n // 3
      ev = [[p0 // WORD, p0 % WORD]] + [[w, 63] for w in range(p0 // WORD + 1, n // WORD + 1)]
      yield {'fam': 'disc', 'n': n, 'm': n, 'g': 0, 'ev': ev, 'burst': [[max(0, n - 40), 40]]}
    else:
      yield {'fam': 'jump', 'n': n, 'm': n, 'g': 2, 'd': 0, 'k': 0, 'delta': 0, 'tail': 'random'}


# ---------------------------------------------------------------- arm: native_range

def strat_range(tier):
  @st.composite
  def s(draw):
    size = draw(st.integers(1, 40))
    n = draw(st.one_of(
        st.integers(8 * size + 1, 8 * size + 200),
        st.integers(-300, -1),
        st.sampled_from([8 * size, 8 * size + 1, 8 * size + 7, 8 * size + 8, 8 * size + 64,
                         2**31 - 1, -2**31, -1])))
    return {'size': size, 'n': n, 'm': draw(material)}
  return s()


def run_range(desc):
  size, n = desc['size'], desc['n']
  data = Material(desc['m'], 'c14:range').bytes(size)
  if 0 <= n <= 8 * size:
    s = int.from_bytes(data, 'little') & ((1 << n) - 1)
    expected = ref.bm_int(s, n)
    label = 'n=8*size'
  else:
    expected = -1
    label = 'n<0' if n < 0 else 'n>8*size'
  _check_raw(data, n, expected, 'native_range:' + label)
  return {'nt': expected == -1, 'cls': ['native_range:' + label]}


# ---------------------------------------------------------------- arm: empty_input (subprocess)

_EMPTY_RAW = r'''
import ctypes, sys
l = ctypes.CDLL(sys.argv[1])
l.verif_lfsr_length.argtypes = [ctypes.c_char_p, ctypes.c_ulong, ctypes.c_int]
l.verif_lfsr_length.restype = ctypes.c_int
print('READY'); sys.stdout.flush()
print('RESULT', l.verif_lfsr_length(b'', 0, int(sys.argv[2])))
'''

_EMPTY_WRAPPER = r'''
import sys
sys.path.insert(0, sys.argv[1])
from harness import boot
boot.attach()
from paranoid_crypto.lib.randomness_tests import berlekamp_massey as bm
print('READY'); sys.stdout.flush()
try:
  print('RESULT', bm.LinearComplexity(0, 0))
except Exception as e:
  print('RAISED', repr(e))
'''


def enum_empty(tier):
  for variant in ('clmul', 'plain'):
    for n in (0, 1, -1):
      yield {'via': 'raw', 'variant': variant, 'n': n}
    yield {'via': 'wrapper', 'variant': variant, 'n': 0}


def run_empty(desc):
  """The empty byte string goes to the C++ code in a short-lived child process.

  An out-of-bounds read there kills the child (signal), which is reported as a
  violation instead of taking the worker down.
  """
  variant = desc['variant']
  env = dict(os.environ, VERIF_BM_VARIANT=variant)
  if desc['via'] == 'raw':
    lib = os.path.join(os.path.dirname(pybm.__file__), 'libbm_%s.so' % variant)
    cmd = [sys.executable, '-c', _EMPTY_RAW, lib, str(desc['n'])]
  else:
    cmd = [sys.executable, '-c', _EMPTY_WRAPPER, boot.VERIF]
  r = subprocess.run(cmd, env=env, capture_output=True, text=True, timeout=600)
  expected = 0 if desc['n'] == 0 else -1
  if 'READY' not in r.stdout:
    raise RuntimeError('empty-input helper did not start: rc=%d %s' % (r.returncode, r.stderr[-800:]))
  if r.returncode != 0:
    raise Violation('native-crash:empty', variant=variant, via=desc['via'], n=desc['n'],
                    returncode=r.returncode, stderr=r.stderr[-300:])
  last = r.stdout.strip().splitlines()[-1]
  if last.startswith('RAISED'):
    raise Violation('raises:empty-input', variant=variant, via=desc['via'], n=desc['n'],
                    exception=last[7:300])
  if last != 'RESULT %d' % expected:
    raise Violation('cc-%s:wrong-length' % variant, via=desc['via'], n=desc['n'], got=last,
                    expected=expected, where='empty byte string')
  return {'nt': desc['n'] == 0,
          'cls': ['empty-bytes,%s,%s,n=%d' % (desc['via'], variant, desc['n'])]}


# ---------------------------------------------------------------- arm: counts

def _check_count_row(n, row):
  """LfsrCount(n, .) and LfsrLogProbability(n, .) against the true counts of length n."""
  total = 0
  for m in range(0, n + 1):
    c = libcall(bm.LfsrCount, n, m)
    if type(c) is not int or c != row[m]:
      raise Violation('lfsrcount:wrong-count', n=n, m=m, got=repr(c)[:80], expected=row[m])
    total += c
    x = libcall(bm.LfsrLogProbability, n, m)
    # 2^x must be row[m] / 2^n; every true count is a power of two
    if type(x) is not int or row[m].bit_count() != 1 or x + n != row[m].bit_length() - 1:
      raise Violation('lfsrlogprobability:wrong-value', n=n, m=m, got=repr(x)[:80],
                      expected_count=row[m])
  if total != 1 << n:
    raise Violation('lfsrcount:sum', n=n, got=total)
  for m in (-2, -1, n + 1, n + 2):
    c = libcall(bm.LfsrCount, n, m)
    if c != 0:
      raise Violation('lfsrcount:outside-range-nonzero', n=n, m=m, got=repr(c)[:80])
    try:
      x = libcall(bm.LfsrLogProbability, n, m, expect=(ValueError,))
    except ValueError:
      continue
    raise Violation('lfsrlogprobability:no-error-outside-domain', n=n, m=m, got=repr(x)[:80])


def _count_chunks(nmax, parts):
  # equal work per chunk: work(n) ~ n^2
  total = sum(n * n for n in range(1, nmax + 1))
  out, lo, acc = [], 1, 0
  for n in range(1, nmax + 1):
    acc += n * n
    if acc >= total / parts or n == nmax:
      out.append((lo, n))
      lo, acc = n + 1, 0
  return out


def enum_counts(tier):
  top = 16 if tier == 'quick' else 20
  for n in range(1, top + 1):
    yield {'kind': 'hist', 'n': n}
  for lo, hi in _count_chunks(4096, 16):
    yield {'kind': 'dp', 'lo': lo, 'hi': hi}
  yield {'kind': 'domain'}


def run_counts(desc):
  kind = desc['kind']
  if kind == 'hist':
    n = desc['n']
    hist = ref.brute_histogram(n)
    if hist != ref.true_counts(n)[n] or sum(hist) != 1 << n:
      raise RuntimeError('reference counts disagree for n=%d' % n)
    _check_count_row(n, hist)
    return {'nt': True, 'cls': ['counts:brute-force-histogram'], 'n': n}
  if kind == 'dp':
    lo, hi = desc['lo'], desc['hi']
    for n, row in ref.iter_true_counts(hi):
      if n >= lo:
        _check_count_row(n, row)
    return {'nt': True, 'cls': ['counts:dynamic-programming,all-m'], 'rows': hi - lo + 1}
  # documented domain of LfsrLogProbability: n >= 1 and 0 <= m <= n
  for n in (0, -1, -7, -64):
    for m in (-1, 0, 1, n, 5):
      try:
        x = libcall(bm.LfsrLogProbability, n, m, expect=(ValueError,))
      except ValueError:
        pass
      else:
        raise Violation('lfsrlogprobability:no-error-outside-domain', n=n, m=m, got=repr(x)[:80])
      c = libcall(bm.LfsrCount, n, m)
      if n < 0 and c != 0:
        raise Violation('lfsrcount:outside-range-nonzero', n=n, m=m, got=repr(c)[:80])
  return {'nt': True, 'cls': ['counts:domain-errors']}


# ---------------------------------------------------------------- arm: fuzz (libFuzzer)

_FUZZ_SRC = os.path.join(boot.VERIF, 'fuzz', 'bm_fuzz.cc')
_BM_CC = 'paranoid_crypto/lib/randomness_tests/cc_util/berlekamp_massey.cc'
_BM_H = 'paranoid_crypto/lib/randomness_tests/cc_util/berlekamp_massey.h'


def _fuzz_build():
  """Builds the fuzzer for the sources of boot.REPO; returns (binary, seeds dir) or (None, why)."""
  clang = shutil.which('clang++')
  if not clang:
    return None, 'clang++ not found'
  h = hashlib.sha256()
  for p in (_FUZZ_SRC, os.path.join(boot.REPO, _BM_CC), os.path.join(boot.REPO, _BM_H)):
    with open(p, 'rb') as f:
      h.update(f.read())
  h.update(repr(_single_cases()).encode())
  d = os.path.join(boot.BUILD, 'fuzz-' + h.hexdigest()[:16])
  if os.path.exists(os.path.join(d, 'OK')):
    return os.path.join(d, 'bm_fuzz'), os.path.join(d, 'seeds')
  tmp = d + '.tmp%d' % os.getpid()
  shutil.rmtree(tmp, ignore_errors=True)
  os.makedirs(os.path.join(tmp, 'seeds'))
  try:
    base = [clang, '-O1', '-g', '-std=c++17', '-I', boot.REPO]
    san = 'address,undefined'
    steps = [
        base + ['-fsanitize=fuzzer-no-link,' + san, '-Dcc_util=cc_util_clmul', '-mpclmul',
                '-D__CLMUL__', '-c', os.path.join(boot.REPO, _BM_CC), '-o',
                os.path.join(tmp, 'clmul.o')],
        base + ['-fsanitize=fuzzer-no-link,' + san, '-Dcc_util=cc_util_plain', '-c',
                os.path.join(boot.REPO, _BM_CC), '-o', os.path.join(tmp, 'plain.o')],
        base + ['-fsanitize=fuzzer,' + san, _FUZZ_SRC, os.path.join(tmp, 'clmul.o'),
                os.path.join(tmp, 'plain.o'), '-o', os.path.join(tmp, 'bm_fuzz')],
    ]
    for cmd in steps:
      r = subprocess.run(cmd, capture_output=True, text=True)
      if r.returncode != 0:
        return None, 'clang/libFuzzer build failed: ' + r.stderr[-400:]
    dis = subprocess.run(['objdump', '-d', os.path.join(tmp, 'clmul.o')],
                         capture_output=True, text=True).stdout
    if 'pclmul' not in dis:
      return None, 'CLMUL object has no pclmulqdq'
    for i, c in enumerate(_single_cases()):
      data = bytes.fromhex(c['hex'])
      if c['n'] >= 0x8000 or c['n'] > 8 * len(data):
        continue
      with open(os.path.join(tmp, 'seeds', 'seed%03d' % i), 'wb') as f:
        f.write(c['n'].to_bytes(2, 'little') + data)
    with open(os.path.join(tmp, 'seeds', 'empty'), 'wb') as f:
      f.write(b'\x00\x00')
    with open(os.path.join(tmp, 'OK'), 'w') as f:
      f.write('ok')
    try:
      os.rename(tmp, d)
    except OSError:
      pass
  finally:
    shutil.rmtree(tmp, ignore_errors=True)
  for other in glob.glob(os.path.join(boot.BUILD, 'fuzz-*')):
    try:
      if other != d and '.tmp' not in other and \
          os.path.getmtime(other) < time.time() - (6 * 3600 if 'fuzz-run-' in other else 3600):
        shutil.rmtree(other, ignore_errors=True)
    except OSError:
      pass
  return os.path.join(d, 'bm_fuzz'), os.path.join(d, 'seeds')


def _die_with_parent():
  # PR_SET_PDEATHSIG: do not leave an orphan fuzzer behind when the worker is killed
  try:
    import ctypes  # pylint: disable=g-import-not-at-top
    ctypes.CDLL('libc.so.6').prctl(1, 9)
  except Exception:  # pylint: disable=broad-except
    pass


def _fuzz_decode(data):
  raw = data[0] | (data[1] << 8)
  body = data[2:]
  n = (raw & 0x7fff) if raw & 0x8000 else raw % (8 * len(body) + 1)
  return n, body


def enum_fuzz(tier):
  try:
    seed = int(os.environ.get('VERIF_SEED', '1'))
  except ValueError:
    seed = 1
  # about 1.3k executions/s on a loaded machine (ASan+UBSan, three implementations per input)
  # (the cost per input grows quadratically with max_len)
  if tier == 'quick':
    yield {'seed': derive_seed(seed, 'C14', 'fuzz', 0) % (2**31 - 1) + 1, 'runs': 25000,
           'max_len': 210, 'max_time': 600}
    return
  for j in range(12):
    max_len, runs = ((210, 400000), (400, 200000), (700, 100000))[j % 3]
    yield {'seed': derive_seed(seed, 'C14', 'fuzz', j) % (2**31 - 1) + 1, 'runs': runs,
           'max_len': max_len, 'max_time': 2400}


def run_fuzz(desc):
  binary, seeds = _fuzz_build()
  if binary is None:
    return {'nt': False, 'cls': ['fuzz:unavailable'], 'why': seeds}
  work = os.path.join(boot.BUILD, 'fuzz-run-%d-%d' % (os.getpid(), desc['seed']))
  shutil.rmtree(work, ignore_errors=True)
  corpus = os.path.join(work, 'corpus')
  shutil.copytree(seeds, corpus)
  art = os.path.join(work, 'artifacts') + os.sep
  os.makedirs(art)
  try:
    env = dict(os.environ, ASAN_OPTIONS='detect_leaks=0:abort_on_error=0',
               UBSAN_OPTIONS='halt_on_error=1:print_stacktrace=1')
    r = subprocess.run(
        [binary, '-seed=%d' % desc['seed'], '-runs=%d' % desc['runs'],
         '-max_len=%d' % desc['max_len'], '-timeout=60', '-rss_limit_mb=3000',
         '-max_total_time=%d' % desc.get('max_time', 2400),
         '-artifact_prefix=' + art, '-print_final_stats=1', corpus],
        env=env, capture_output=True, text=True, errors='replace', preexec_fn=_die_with_parent)
    found = sorted(glob.glob(art + '*'))
    if found:
      with open(found[0], 'rb') as f:
        data = f.read()
      kind = os.path.basename(found[0]).split('-')[0]
      lines = [l for l in r.stderr.splitlines()
               if 'MISMATCH' in l or 'ERROR' in l or 'runtime error' in l or 'SUMMARY' in l]
      detail = {'input_hex': data.hex(), 'log': lines[:6]}
      if len(data) >= 2:
        # the crashing input as a ready-made replay for arm `single` (the violation record
        # abbreviates long strings, so the full input is stored next to it)
        n, body = _fuzz_decode(data)
        rp = {'property': ID, 'arm': 'single', 'desc': {'n': n, 'hex': body.hex()},
              'clause': 'fuzz:' + kind, 'detail': {'from': 'libFuzzer', 'fuzz_desc': desc}}
        vdir = os.path.join(boot.VERIF, 'out', 'violations', ID)
        os.makedirs(vdir, exist_ok=True)
        path = os.path.join(vdir, 'single-fuzz-%s.json' % hashlib.sha256(data).hexdigest()[:14])
        with open(path, 'w') as f:
          json.dump(rp, f, indent=1)
        detail['replay_single'] = path
        detail['n'] = n
      raise Violation('fuzz:' + kind, **detail)
    if r.returncode != 0:
      raise RuntimeError('fuzzer exited with %d without an artifact: %s' %
                         (r.returncode, r.stderr[-1500:]))
    execs = [l for l in r.stderr.splitlines() if 'number_of_executed_units' in l]
    cov = [l for l in r.stderr.splitlines() if ' cov: ' in l]
    return {'nt': True, 'cls': ['fuzz:libFuzzer-run'],
            'executed': execs[-1].split()[-1] if execs else '?',
            'last': cov[-1][:120] if cov else ''}
  finally:
    shutil.rmtree(work, ignore_errors=True)


ARMS = [
    Arm('fuzz', run_fuzz, enumerate=enum_fuzz, shards=12, weight=10.0, budget=(600, 14400),
        doc='libFuzzer over both C++ variants + in-driver reference, ASan/UBSan'),
    Arm('sequences', run_sequences, strategy=strat_sequences, quick=40000, thorough=400000,
        budget=(100, 1500), weight=5.0,
        doc='constructed and random sequences, all implementations vs reference BM'),
    Arm('lengths', run_sequences, enumerate=enum_lengths, exhaustive=True,
        doc='every length 0..1100 (thorough 0..2304): random, forced jump at the last word boundary, '
            'discrepancy at bit 63 of every word'),
    Arm('exhaustive', run_exhaustive, enumerate=enum_exhaustive, exhaustive=True,
        budget=(600, 7200), weight=3.0,
        doc='every sequence of length 0..18 / 0..22 through every implementation'),
    Arm('counts', run_counts, enumerate=enum_counts, exhaustive=True, budget=(600, 7200),
        weight=2.0,
        doc='LfsrCount / LfsrLogProbability vs brute force (n<=16/20) and exact DP (n<=4096)'),
    Arm('ref_validation', run_refval, enumerate=enum_refval, exhaustive=True, budget=(600, 7200),
        doc='reference BM == Gaussian-elimination definition on all sequences of length <= 14'),
    Arm('single', run_single, enumerate=enum_single, exhaustive=True,
        doc='(n, hex) cases: word-boundary corpus, replay target for fuzzer crashes'),
    Arm('native_range', run_range, strategy=strat_range, quick=3000, thorough=30000,
        doc='raw C++ entry point returns -1 exactly when n is outside 0..8*len(bytes)'),
    Arm('empty_input', run_empty, enumerate=enum_empty, exhaustive=True,
        doc='empty byte string through the C++ code in a subprocess (crash => violation)'),
]
