"""C10 - small and structured discrete logarithms are always found."""

import math
import re

import gmpy2 as gmpy
from hypothesis import strategies as st

from gens import artifacts as art
from gens import ecdsa_gen as eg
from gens.common import Material, material
from harness.core import Arm, Violation, libcall
from refs import ec_ref

from paranoid_crypto.lib import paranoid  # pylint: disable=unused-import  (import order)
from paranoid_crypto.lib import ec_aggregate_checks
from paranoid_crypto.lib import ec_single_checks
from paranoid_crypto.lib import ec_util

ID = 'C10'
TITLE = 'Small and structured discrete logarithms are always found'
TECHNIQUE = ('exhaustive enumeration of toy groups against a brute-force discrete-log table; '
             'boundary-aimed inputs and call histories on the named curves; constructed '
             'structured keys and close key pairs')
RULE = (
    'Points are built from known logarithms x (toy curves: the brute-force table of the whole '
    'group made with refs/ec_ref.py; named curves: OpenSSL scalar multiplication), so the oracle '
    'is arithmetic on the logarithms: for every point whose smallest non-negative logarithm is '
    'below the bound the returned value must be congruent to it modulo the group order (equal to '
    'it on named curves); every other non-None result must also be a logarithm of its point '
    '(separate clause). Toy arms enumerate every group element for each (curve, bound, list '
    'length, history mode) and every pair distance for each (curve, max_diff, call form, history '
    'mode). History arms draw sequences of BatchDL / BatchDLOfDifferences / ExtendedBatchDL calls '
    'executed on ONE curve object; on named curves the logarithms are aimed at 0, 1, bound-1, '
    'j*t +- (ts-1), j*t +- ts with ts = int(sqrt(bound*len)), t = 2*ts-1 recomputed by the harness '
    'only to aim; empty lists and a bound of 0 (nothing claimed, a list must come back) are '
    'included; one BatchDL call is made for every giant-step count 2..39 and 2^k-1..2^k+2 (k up to 11, thorough 12; '
    'list lengths 1, 2, 5; smallest and largest bound with that count; logarithms in the last steps). Structured keys: every shift j (multiple of 8 with w << j below the order for '
    'some 32-bit w, so also the windows that stick out of a 521-bit order) and every repeat count '
    '2..ceil(bits/32) (with w*(1+2^32+...) below the order) per curve with w in {1, largest '
    'admissible, 2^31, giant-step edges, random}; close pairs at distance 1, 2, max_diff-1, '
    'random < max_diff, plus '
    'identical keys, far keys and unrelated keys on several curves. A case is non-trivial when '
    'some claimed logarithm sits on a table or giant-step edge (x mod t in {ts-1, ts}, x in '
    '{0, bound-1}), or a call is preceded by a call that left a cached table of a different size, '
    'or (structured keys) the batch contains the top shift / top repeat count or an edge word, or '
    '(pairs) a pair at distance max_diff-1 or an identical pair; distinctness by SHA-256 of the '
    'descriptor.')
ASSUMPTIONS = [
    'refs/ec_ref.py textbook affine arithmetic is correct; the toy group table is validated '
    '(n distinct points, n*G = infinity) before use',
    'OpenSSL (through cryptography) computes k*G on the named curves (fallback: refs/ec_ref.py)',
    'named curves: the shared ec_util.CURVE_FACTORY object is used (that is the object the checks '
    'use) and its cached table is reset (curve._table = {}; curve._table_size = 0) at the start '
    'and at the end of every case, so that run() is a pure function of the descriptor; toy curves '
    'use a fresh EcCurve object per case',
    'curve._table_size is read only to label the history class (larger/equal/smaller cached '
    'table), never for a verdict',
    'structured private keys are integers in [1, n-1]: w << j or w*(1+2^32+...+2^(32(r-1))) itself '
    'is below n (w is capped accordingly); every byte shift j, every repeat count r >= 2',
    'the point at infinity is passed to BatchDL (documented result 0) but never to '
    'BatchDLOfDifferences or the checks (it is not a public key)',
    'configuration: CheckECKeySmallDifference is constructed with max_diff <= 2^12 (quick) / '
    '<= 2^20 (thorough, 1 case in 20 above 2^12), never with the default 2^24 (85 s and 3.3 GB per '
    'curve); BatchDL bounds <= 2^16 quick / 2^20 thorough (tight/aimed bounds up to ~2^24)',
    'no negative completeness claim: a pair at distance >= max_diff or a logarithm >= bound may '
    'be reported (a larger cached table legitimately finds more) as long as the report is true',
]

INF = (None, None)   # documented affine representation of the point at infinity
C = eg.C


def _isqrt_f(v):
  """The table size formula of the documentation: int(sqrt(v)) (used only to aim and label)."""
  return int(math.sqrt(v))


def _lib_point(P, mpz):
  if P is None:
    return INF
  if mpz:
    return (gmpy.mpz(P[0]), gmpy.mpz(P[1]))
  return (int(P[0]), int(P[1]))


def _as_int(r):
  if isinstance(r, bool):
    return None
  if isinstance(r, int):
    return r
  if type(r).__name__ == 'mpz':
    return int(r)
  return None


# ---------------------------------------------------------------- oracles

def _edge_x(x, bound, ts):
  t = 2 * ts - 1
  if x == 0 or x == bound - 1:
    return True
  return t > 0 and ts > 1 and x % t in (ts - 1, ts)


def _judge_batchdl(xs, res, bound, order, exact, **ctx):
  """xs: logarithms (any integers) of the points passed; res: what BatchDL returned."""
  if not isinstance(res, list) or len(res) != len(xs):
    raise Violation('batchdl:shape', got=repr(res)[:200], expected_len=len(xs), **ctx)
  for i, (x, r) in enumerate(zip(xs, res)):
    xr = x % order
    claimed = xr < bound
    if r is None:
      if claimed:
        raise Violation('batchdl:missed', x=xr, bound=bound, npoints=len(xs), index=i, **ctx)
      continue
    ri = _as_int(r)
    if ri is None:
      raise Violation('batchdl:type', got=repr(r)[:80], **ctx)
    if ri % order != xr:
      raise Violation('batchdl:wrong-log' if claimed else 'batchdl:unsound',
                      x=xr, got=ri, bound=bound, npoints=len(xs), index=i, **ctx)
    if exact and claimed and ri != xr:
      raise Violation('batchdl:not-the-small-log', x=xr, got=ri, bound=bound, **ctx)


_REL = re.compile(r'^key - \(([0-9a-f]+), ([0-9a-f]+)\) = (-?[0-9]+) \* G$')


def _near(d, e, order, max_diff):
  delta = (d - e) % order
  return delta != 0 and min(delta, order - delta) < max_diff


def _judge_relation(r, d, logs_by_point, order, clause, **ctx):
  """A reported relation 'key - Q = dl * G' must be true, about a key of the call, dl != 0."""
  m = _REL.match(r) if isinstance(r, str) else None
  if m is None:
    raise Violation(clause + ':record-format', got=repr(r)[:200], **ctx)
  q = (int(m.group(1), 16), int(m.group(2), 16))
  dl = int(m.group(3))
  if q not in logs_by_point:
    raise Violation(clause + ':unsound', why='names a point that was not passed', got=r[:200],
                    **ctx)
  if (d - logs_by_point[q] - dl) % order != 0:
    raise Violation(clause + ':unsound', why='relation is false', got=r[:200], **ctx)
  if dl % order == 0:
    raise Violation(clause + ':identical-flagged', got=r[:200], **ctx)


def _judge_diffs(ds, others, res, max_diff, order, point_of, **ctx):
  if not isinstance(res, list) or len(res) != len(ds):
    raise Violation('diffs:shape', got=repr(res)[:200], expected_len=len(ds), **ctx)
  logs_by_point = {}
  for d in list(ds) + list(others):
    P = point_of(d)
    logs_by_point[(int(P[0]), int(P[1]))] = d % order
  for i, d in enumerate(ds):
    rest = [e for j, e in enumerate(ds) if j != i] + list(others)
    near = [e for e in rest if _near(d, e, order, max_diff)]
    r = res[i]
    if r is None:
      if near:
        delta = (d - near[0]) % order
        raise Violation('diffs:missed', index=i, d=d % order, partner=near[0] % order,
                        distance=min(delta, order - delta), max_diff=max_diff,
                        npoints=len(ds), nothers=len(others), **ctx)
      continue
    _judge_relation(r, d, logs_by_point, order, 'diffs', index=i, max_diff=max_diff, **ctx)


# ---------------------------------------------------------------- op executor

def _table_relation(curve, need):
  have = int(getattr(curve, '_table_size', 0))
  if need is None:
    return 'cached-table:not-needed'
  if have == 0:
    return 'cached-table:none'
  if have > need:
    return 'cached-table:larger'
  if have == need:
    return 'cached-table:equal'
  return 'cached-table:smaller'


def _exec_ops(curve, ops, order, point_of, exact, mpz, cls, flags):
  """Executes resolved operations in order on one curve object and judges each result.

  ops: ('batchdl', xs, bound) | ('diffs', ds, others, max_diff) | ('extended', ds); logarithms
  are integers, point_of(x mod order) gives the affine point (None for infinity).
  """
  for k, op in enumerate(ops):
    if op[0] == 'batchdl':
      _, xs, bound = op
      ts = _isqrt_f(bound * len(xs)) if xs else None
      rel = _table_relation(curve, ts)
      pts = [_lib_point(point_of(x % order), mpz) for x in xs]
      res = libcall(curve.BatchDL, pts, bound)
      _judge_batchdl(xs, res, bound, order, exact, op=k, history=rel)
      cls.add('op:batchdl')
      cls.add(rel)
      if not xs:
        cls.add('empty-list')
      else:
        m = max(1, _isqrt_f(ts)) if ts else 1
        cls.add('table-exactly-filled' if ts and ts % m == 0 else 'table-with-spare-entries')
        t = 2 * ts - 1
        if any(x % order == 0 for x in xs):
          cls.add('x=0(infinity)')
        claimed = [x % order for x in xs if x % order < bound]
        if any(x == bound - 1 for x in claimed):
          cls.add('x=bound-1')
          if ts > 1 and bound - 1 >= (bound // t + 1) * t - (ts - 1):
            cls.add('x=bound-1-needs-last-giant-step')
        if any(ts > 1 and x % t == ts - 1 for x in claimed):
          cls.add('x=j*t+(ts-1)|j*t-ts')
        if any(ts > 1 and x % t == ts for x in claimed):
          cls.add('x=j*t+ts|j*t-(ts-1)')
        if any(ts > 1 and x == ts for x in claimed):
          cls.add('x=ts(first-window-edge)')
        if any(_edge_x(x, bound, ts) for x in claimed):
          flags['edge'] = True
        if any(x % order >= bound for x in xs):
          cls.add('some-log>=bound(no-claim)')
      if rel in ('cached-table:larger', 'cached-table:smaller'):
        flags['hist'] = True
    elif op[0] == 'diffs':
      _, ds, others, max_diff = op
      active = bool(ds) and len(ds) + len(others) >= 2
      rel = _table_relation(curve, max_diff if active else None)
      pts = [_lib_point(point_of(d % order), mpz) for d in ds]
      ots = [_lib_point(point_of(d % order), mpz) for d in others]
      if others or k % 2:
        res = libcall(curve.BatchDLOfDifferences, pts, ots, max_diff)
      else:
        res = libcall(curve.BatchDLOfDifferences, pts, max_diff=max_diff)
      _judge_diffs(ds, others, res, max_diff, order, lambda d: point_of(d % order), op=k,
                   history=rel)
      cls.add('op:diffs')
      cls.add(rel)
      if others:
        cls.add('diffs:with-history-list')
      allk = [d % order for d in ds] + [d % order for d in others]
      for i, d in enumerate(ds):
        for j, e in enumerate(allk):
          if j == i:
            continue
          delta = (d - e) % order
          dist = min(delta, order - delta)
          if dist == 0:
            cls.add('diffs:identical-pair')
            flags['edge'] = True
          elif dist == max_diff - 1:
            cls.add('diffs:distance=max_diff-1')
            flags['edge'] = True
          elif dist == max_diff:
            cls.add('diffs:distance=max_diff(no-claim)')
          elif dist < max_diff:
            cls.add('diffs:distance<max_diff')
      if rel in ('cached-table:larger', 'cached-table:smaller'):
        flags['hist'] = True
    elif op[0] == 'extended':
      _, ds = op
      pts = [_lib_point(point_of(d % order), mpz) for d in ds]
      res = libcall(curve.ExtendedBatchDL, pts)
      # toy curves are shorter than 32 bits: no structured form exists, only soundness is judged
      _judge_batchdl(ds, res, 0, order, False, op=k, fn='ExtendedBatchDL')
      cls.add('op:extended')
      if not ds:
        cls.add('empty-list')
    else:
      raise AssertionError(op)


# ---------------------------------------------------------------- toy curves

_TOY = {}
_TOY_LISTS = {}


def _cdict(c):
  return {'p': c[0], 'a': c[1], 'b': c[2], 'gx': c[3], 'gy': c[4], 'n': c[5]}


def _toy(c):
  key = tuple(c)
  if key not in _TOY:
    R, elems, dl = ec_ref.toy_group(_cdict(c))
    assert all(R.on_curve(e) for e in elems)
    assert R.mul(R.g, c[5]) is None and len(set(elems)) == c[5]
    _TOY[key] = (R, elems, dl)
  return _TOY[key]


def _toy_lib(c, lit):
  """A fresh library curve object (empty caches)."""
  p, a, b, gx, gy, n = c
  if lit and a == p - 3:
    a = -3
  return libcall(ec_util.EcCurve, 'toy%d' % p, a, b, p, gx, gy, n)


def _small_primes(lo, hi):
  return [q for q in range(lo, hi) if ec_ref._is_prime(q)]  # pylint: disable=protected-access


def toy_curves(tier):
  """[(c, lit)] with c = [p, a, b, gx, gy, n]; deterministic."""
  if tier in _TOY_LISTS:
    return _TOY_LISTS[tier]
  if tier == 'quick':
    gen = ec_ref.find_toy_curves([31, 211], 1)
    m3 = ec_ref.find_toy_curves([29, 1009], 1, True)
  else:
    pr = _small_primes(11, 2000)
    gen = ec_ref.find_toy_curves(pr[0:60:5] + pr[60::24], 1) + \
        ec_ref.find_toy_curves(pr[3:40:9], 1, start=777)
    m3 = ec_ref.find_toy_curves(pr[1:60:6] + pr[65::30], 1, True)
  out = [([c['p'], c['a'], c['b'], c['gx'], c['gy'], c['n']], False) for c in gen]
  out += [([c['p'], c['a'], c['b'], c['gx'], c['gy'], c['n']], i % 2 == 0)
          for i, c in enumerate(m3)]
  _TOY_LISTS[tier] = out
  return out


def _toy_cls(c, lit):
  return ['toy:order-bits=%d' % c[5].bit_length(),
          'toy:a=%s' % ('-3' if lit else 'p-3' if c[1] == c[0] - 3 else 'general')]


# ---- exhaustive: every group element, per (bound, list length, history mode)

TOY_MODES = ('fresh', 'reuse', 'after-larger', 'after-smaller', 'after-diffs-equal',
             'after-diffs-smaller')


def _toy_pre_ops(mode, bound, L, order):
  ts = _isqrt_f(bound * L)
  if mode == 'after-larger':
    return [('batchdl', [1, 0, order - 1], 4 * bound * L + 25)]
  if mode == 'after-smaller':
    return [('batchdl', [1], max(1, (bound * L) // 9))]
  if mode == 'after-diffs-equal':
    return [('diffs', [1, 2], [], max(1, ts))]
  if mode == 'after-diffs-smaller':
    return [('diffs', [1, 3], [2], max(1, ts - 1))]
  return []


def run_toy_batchdl(d):
  c, lit = d['c'], d['lit']
  _, E, _ = _toy(c)
  N = c[5]
  bound, L, mode = d['bound'], d['L'], d['mode']
  xs = list(range(N))
  if d['order'] == 'desc':
    xs.reverse()
  elif d['order'] == 'shuf':
    xs = Material(d.get('m', 0), 'c10order').shuffle(xs)
  chunks = []
  for i in range(0, N, L):
    ch = xs[i:i + L]
    ch += xs[:L - len(ch)]      # the last list is padded so that every list has length L
    chunks.append(ch)
  cls = set(_toy_cls(c, lit))
  cls.add('history-mode=' + mode)
  flags = {}
  point_of = lambda x: E[x]
  if mode == 'fresh':
    for ch in chunks:
      _exec_ops(_toy_lib(c, lit), [('batchdl', ch, bound)], N, point_of, False, d['mpz'], cls,
                flags)
  else:
    ops = _toy_pre_ops(mode, bound, L, N) + [('batchdl', ch, bound) for ch in chunks]
    _exec_ops(_toy_lib(c, lit), ops, N, point_of, False, d['mpz'], cls, flags)
  cls.add('bound>=group-order' if bound >= N else 'bound<group-order')
  return {'nt': True, 'cls': sorted(cls), 'points': N, 'calls': len(chunks)}


def _toy_bounds(N, tier):
  if N <= 64:
    return list(range(1, 2 * N + 3))
  bs = set(range(1, 27))
  for m in (6, 7, 9, 12, 17, 23, 31):
    bs.update((m * m - 1, m * m, m * m + 1, m * m + m))
  bs.update((N // 3, N // 2, N - 2, N - 1, N, N + 1, 2 * N + 1, 3 * N))
  if tier == 'thorough':
    bs.update(range(27, 130, 3))
    bs.update(range(130, N, 37))
  return sorted(b for b in bs if b >= 1)


def enum_toy_batchdl(tier):
  lens = (1, 2, 3, 4, 5, 8, 13, 40) if tier == 'quick' else (1, 2, 3, 4, 5, 7, 8, 13, 21,
                                                               40)
  k = 0
  for c, lit in toy_curves(tier):
    N = c[5]
    small = N <= 64
    for bound in _toy_bounds(N, tier):
      for L in lens:
        k += 1
        if small or tier == 'thorough':
          modes = TOY_MODES if small else [TOY_MODES[k % 6], TOY_MODES[(k // 6 + 3) % 6]]
          if not small and modes[0] == modes[1]:
            modes = modes[:1]
        else:
          modes = [TOY_MODES[k % 6]]
        for mode in modes:
          yield {'c': c, 'lit': lit, 'bound': bound, 'L': L, 'mode': mode,
                 'order': ('asc', 'desc', 'shuf')[k % 3], 'm': k, 'mpz': k % 4 != 0}


# ---- exhaustive: every pair distance, per (max_diff, call form, history mode)

DIFF_MODES = ('fresh', 'after-smaller-diffs', 'after-smaller-batchdl', 'after-larger')
DIFF_FORMS = ('pair', 'history', 'dup')


def run_toy_diffs(d):
  c, lit = d['c'], d['lit']
  _, E, _ = _toy(c)
  N = c[5]
  M, form, mode, x0 = d['max_diff'], d['form'], d['mode'], 1 + d['x0'] % (N - 1)
  pre = []
  if mode == 'after-smaller-diffs':
    pre = [('diffs', [1, 2], [], max(1, M // 2))]
  elif mode == 'after-smaller-batchdl':
    # leaves a table of about max_diff/2 entries after a search whose bound exceeds max_diff
    pre = [('batchdl', [1, 2], max(1, M * M // 8))]
  elif mode == 'after-larger':
    pre = [('diffs', [1, 2], [], 2 * M + 3)]
  ops = list(pre)
  for delta in range(1, N):
    y = (x0 + delta) % N
    if y == 0:
      continue   # infinity is not a key
    if form == 'pair':
      ops.append(('diffs', [x0, y] if delta % 2 else [y, x0], [], M))
    elif form == 'history':
      ops.append(('diffs', [x0], [y], M))
    else:
      ops.append(('diffs', [x0, x0, y], [x0], M))
  ops.append(('diffs', [x0, x0], [x0] if form != 'pair' else [], M))   # identical keys only
  cls = set(_toy_cls(c, lit))
  cls.add('diffs-history-mode=' + mode)
  cls.add('diffs-form=' + form)
  flags = {}
  _exec_ops(_toy_lib(c, lit), ops, N, lambda x: E[x], False, d['mpz'], cls, flags)
  return {'nt': True, 'cls': sorted(cls), 'calls': len(ops)}


def enum_toy_diffs(tier):
  k = 0
  for c, lit in toy_curves(tier):
    N = c[5]
    if N <= 64:
      ms = list(range(1, N + 3))
    else:
      ms = sorted({1, 2, 3, 4, 5, 6, 7, 8, 9, 10, 12, 15, 16, 17, 20, 24, 25, 26, 30, 35, 36, 37,
                   48, 63, 64, 65, 99, 100, 101, N // 4, N // 2 - 1, N // 2, N // 2 + 1, N // 2 + 2,
                   N - 1, N, N + 7})
      if tier == 'thorough':
        ms = sorted(set(ms) | set(range(11, 200, 2)))
    for M in ms:
      for form in DIFF_FORMS:
        k += 1
        modes = DIFF_MODES if N <= 64 else [DIFF_MODES[k % 4]]
        for mode in modes:
          yield {'c': c, 'lit': lit, 'max_diff': M, 'form': form, 'mode': mode, 'x0': k * 7 + 1,
                 'mpz': k % 4 != 0}


# ---- Hypothesis: arbitrary call histories on a fresh toy curve

def run_toy_history(d):
  c, lit = d['c'], d['lit']
  _, E, _ = _toy(c)
  N = c[5]
  ops = []
  for op in d['ops']:
    if op[0] == 'batchdl':
      ops.append(('batchdl', [x % N for x in op[1]], max(0, op[2])))
    elif op[0] == 'diffs':
      ops.append(('diffs', [1 + x % (N - 1) for x in op[1]], [1 + x % (N - 1) for x in op[2]],
                  max(1, op[3])))
    else:
      ops.append(('extended', [1 + x % (N - 1) for x in op[1]]))
  cls = set(_toy_cls(c, lit))
  flags = {}
  _exec_ops(_toy_lib(c, lit), ops, N, lambda x: E[x], False, d['mpz'], cls, flags)
  cls.add('ops=%d' % len(ops) if len(ops) < 4 else 'ops>=4')
  return {'nt': bool(flags.get('hist') or flags.get('edge')), 'cls': sorted(cls)}


def strat_toy_history(tier):
  curves = toy_curves(tier)

  @st.composite
  def s(draw):
    c, lit = draw(st.sampled_from(curves))
    N = c[5]
    x = st.integers(0, N - 1)
    k = st.integers(0, N - 2)
    bound = st.one_of(st.integers(0, 30), st.integers(1, 2 * N + 2), st.integers(1, 2 * N + 2),
                      st.sampled_from([N - 1, N, N + 1]), st.integers(1, 60000))
    maxlen = draw(st.sampled_from([1, 2, 4, 9, 40]))
    op = st.one_of(
        st.tuples(st.just('batchdl'), st.lists(x, max_size=maxlen), bound),
        st.tuples(st.just('batchdl'), st.lists(x, max_size=maxlen), bound),
        st.tuples(st.just('diffs'), st.lists(k, max_size=min(maxlen, 9)),
                  st.lists(k, max_size=4), bound),
        st.tuples(st.just('extended'), st.lists(k, max_size=3)))
    ops = draw(st.lists(op, min_size=1, max_size=6))
    return {'c': c, 'lit': lit, 'ops': [list(o) for o in ops], 'mpz': draw(st.booleans())}
  return s()


# ---------------------------------------------------------------- named curves

CURVE_IDS = list(eg.PRIME_CURVES)
_POINTS = {}


def _named_point(cid, x):
  """x*G by OpenSSL; None for infinity (x = 0 mod n)."""
  n = eg.ref(cid).n
  x %= n
  if x == 0:
    return None
  key = (cid, x)
  if key not in _POINTS:
    if len(_POINTS) > 20000:
      _POINTS.clear()
    P = eg.mul_g(cid, x)
    _POINTS[key] = (int(P[0]), int(P[1]))
  return _POINTS[key]


def _reset_named():
  for cv in ec_util.CURVE_FACTORY.values():
    if cv is not None:
      cv._table = {}          # pylint: disable=protected-access
      cv._table_size = 0      # pylint: disable=protected-access


def _resolve_bound(bs, L):
  if bs[0] == 'p':
    return 1 << bs[1]
  if bs[0] == 'i':
    return max(0, bs[1])     # a bound of 0 claims nothing; the call must still return a list
  L = max(1, L)
  if bs[0] == 't':
    # 'tight': a table size ts = m*m + c*m that PointTable fills exactly (no spare entries)
    m, cc = max(1, bs[1]), bs[2] % 3
    ts = m * m + cc * m
    return max(1, -(-ts * ts // L))
  # 'g': a bound with table size ts whose largest logarithm bound-1 is only reached by the last
  # giant step (bound mod t >= ts plus the spare entries of the table), found by a short search
  ts = max(2, bs[1])
  t = 2 * ts - 1
  lo = -(-ts * ts // L)
  hi = max(lo, -(-(ts + 1) * (ts + 1) // L) - 1)
  want = ts + _isqrt_f(ts) + 1
  b = lo + (want - lo % t) % t
  return b if b <= hi else lo


def _resolve_x(sel, bound, L, order, mat):
  kind, a, s, e = sel
  ts = _isqrt_f(bound * max(1, L))
  t = 2 * ts - 1
  if kind == 'z':
    return 0
  if kind == '1':
    return 1
  if kind == 'l':
    return bound - 1 - (0, 0, 0, 1, 2)[a % 5]
  if kind == 'e':
    if t <= 0:
      return 0
    steps = 2 + bound // t
    j = a % steps
    return j * t + (1 if s else -1) * (ts - 1 + e % 2)
  if kind == 'r':
    return mat.below(bound)
  if kind == 'o':
    return bound + a
  if kind == 'n':
    return -1 - a
  return 1 + mat.below(order - 1)


def _resolve_key(sel, M, order, bases, m):
  cluster, kind, a, neg = sel
  base = bases[cluster % len(bases)]
  if kind == 'z':
    off = 0
  elif kind == '1':
    off = 1
  elif kind == '2':
    off = 2
  elif kind == 'l':
    off = M - 1 - a % 2
  elif kind == 'M':
    off = M + a % 3
  elif kind == 'r':
    off = Material(m, 'c10off%d' % a).below(M)
  else:   # 'n': the negated base key
    return (-base) % order
  d = (base - off if neg else base + off) % order
  return d if d else 1


def _named_bases(m, order):
  mat = Material(m, 'c10bases')
  return [1 + mat.below(order - 1), 1 + mat.below(order - 1), 1 + mat.below(order - 1),
          1 + mat.below(5)]


def _resolve_named_ops(d, order):
  mat = Material(d['m'], 'c10named')
  bases = _named_bases(d['m'], order)
  ops = []
  for op in d['ops']:
    if op[0] == 'b':
      sels = op[2]
      bound = _resolve_bound(op[1], len(sels))
      ops.append(('batchdl', [_resolve_x(s, bound, len(sels), order, mat) for s in sels], bound))
    else:
      M = max(1, _resolve_bound(op[1], 1))
      ops.append(('diffs', [_resolve_key(s, M, order, bases, d['m']) for s in op[2]],
                  [_resolve_key(s, M, order, bases, d['m']) for s in op[3]], M))
  return ops


def run_named_history(d):
  cid = d['curve']
  name = eg.CURVE_NAMES[cid]
  order = eg.ref(cid).n
  curve = ec_util.CURVE_FACTORY[cid]
  _reset_named()
  cls = {'curve=' + name}
  flags = {}
  try:
    _exec_ops(curve, _resolve_named_ops(d, order), order, lambda x: _named_point(cid, x), True,
              d['mpz'], cls, flags)
  finally:
    _reset_named()
  cls.add('ops=%d' % len(d['ops']) if len(d['ops']) < 4 else 'ops>=4')
  return {'nt': bool(flags.get('hist') or flags.get('edge')), 'cls': sorted(cls)}


def _bounds_with_steps(gs, L):
  """Smallest and largest bound n for which BatchDL on L points takes exactly gs giant steps
  (2 + n // (2 * int(sqrt(n * L)) - 1)), found by a scan around 4 * (gs - 2)^2 * L."""
  g = gs - 2
  n0 = 4 * g * g * L
  span = 8 * (g + 2) * L + 16
  hits = []
  for n in range(max(1, n0 - span), n0 + span):
    ts = _isqrt_f(n * L)
    t = 2 * ts - 1
    if t > 0 and 2 + n // t == gs:
      hits.append(n)
  return (hits[0], hits[-1]) if hits else None


def run_named_steps(d):
  """One BatchDL call whose number of giant steps is d['gs']; logarithms in the last steps."""
  cid = d['curve']
  order = eg.ref(cid).n
  curve = ec_util.CURVE_FACTORY[cid]
  L = d['len']
  lo_hi = _bounds_with_steps(d['gs'], L)
  if lo_hi is None:
    return {'nt': False, 'cls': ['steps: no bound with this step count']}
  bound = lo_hi[d['which'] % 2]
  ts = _isqrt_f(bound * L)
  t = 2 * ts - 1
  cand = [bound - 1, bound - 2, (d['gs'] - 1) * t - (ts - 1), (d['gs'] - 2) * t + (ts - 1), (d['gs'] - 2) * t,
          bound // 2, 0, bound, ts - 1, ts, t]
  xs = [max(0, cand[(i + d['which']) % len(cand)]) for i in range(L)]
  _reset_named()
  cls = {'curve=' + eg.CURVE_NAMES[cid], 'steps=%s' % (d['gs'] if d['gs'] < 8 else '8-127' if d['gs'] < 128
                                                       else '128-1023' if d['gs'] < 1024 else '1024+')}
  flags = {}
  try:
    _exec_ops(curve, [('batchdl', xs, bound)], order, lambda x: _named_point(cid, x), True, False, cls, flags)
  finally:
    _reset_named()
  return {'nt': True, 'cls': sorted(cls), 'bound': bound}


def enum_named_steps(tier):
  steps = set(range(2, 40))
  for k in range(6, 12 if tier == 'quick' else 13):
    steps.update((2**k - 1, 2**k, 2**k + 1, 2**k + 2))
  if tier == 'thorough':
    steps.update(range(40, 1100, 7))
    steps.update((1023 + 1024, 1024 * 3, 1024 * 3 + 1))
  curves = [C.CURVE_SECP256R1] if tier == 'quick' else [C.CURVE_SECP256R1, C.CURVE_SECP521R1, C.CURVE_SECP224R1]
  for cid in curves:
    for gs in sorted(steps):
      for L in (1, 2, 5):
        for which in (0, 1):
          yield {'curve': int(cid), 'gs': gs, 'len': L, 'which': which}


def _bound_spec(tier):
  kmax = 16 if tier == 'quick' else 20
  mmax = 16 if tier == 'quick' else 64
  return st.one_of(
      st.tuples(st.just('p'), st.integers(0, kmax)),
      st.tuples(st.just('i'), st.integers(1, 1 << kmax)),
      st.tuples(st.just('i'), st.integers(0, 300)),
      st.tuples(st.just('t'), st.integers(1, mmax), st.integers(0, 2)),
      st.tuples(st.just('g'), st.integers(2, mmax * mmax)))


def strat_named_history(tier):
  xsel = st.tuples(st.sampled_from(['z', '1', 'l', 'l', 'e', 'e', 'e', 'e', 'e', 'r', 'r', 'o',
                                    'n', 'g']),
                   st.integers(0, 600), st.booleans(), st.integers(0, 1))
  ksel = st.tuples(st.integers(0, 3), st.sampled_from(['z', 'z', '1', '2', 'l', 'l', 'M', 'r',
                                                       'n']),
                   st.integers(0, 5), st.booleans())
  mspec = st.one_of(st.tuples(st.just('p'), st.integers(0, 12 if tier == 'quick' else 16)),
                    st.tuples(st.just('i'), st.integers(1, 1 << (12 if tier == 'quick' else 16))),
                    st.tuples(st.just('i'), st.integers(1, 200)))

  @st.composite
  def s(draw):
    maxlen = draw(st.sampled_from([1, 2, 3, 6, 12, 40]))
    minlen = draw(st.sampled_from([0, 1, 1, 1]))
    bop = st.tuples(st.just('b'), _bound_spec(tier),
                    st.lists(xsel, min_size=minlen, max_size=maxlen))
    dop = st.tuples(st.just('d'), mspec,
                    st.lists(ksel, min_size=minlen, max_size=max(minlen, min(maxlen, 8))),
                    st.lists(ksel, max_size=4))
    ops = draw(st.lists(st.one_of(bop, bop, bop, dop), min_size=1, max_size=5))
    curves = CURVE_IDS if tier == 'thorough' else [
        C.CURVE_SECP256R1, C.CURVE_SECP256K1, C.CURVE_BRAINPOOLP256R1, C.CURVE_SECP256R1,
        C.CURVE_SECP224R1, C.CURVE_SECP192R1, C.CURVE_SECP384R1, C.CURVE_BRAINPOOLP384R1,
        C.CURVE_SECP521R1, C.CURVE_BRAINPOOLP512R1]
    return {'curve': int(draw(st.sampled_from(curves))), 'm': draw(material),
            'ops': _jsonable(ops), 'mpz': draw(st.booleans())}
  return s()


def _jsonable(x):
  if isinstance(x, (list, tuple)):
    return [_jsonable(v) for v in x]
  return x


# ---------------------------------------------------------------- CheckWeakECPrivateKey

def _forms(order):
  """The structured forms of the statement for a group order.

  shifts: every multiple of 8 for which some 32-bit w gives a private key w << j below the
  order (w = 1 does); reps: every repeat count r >= 2 for which some w gives a private key
  w * (1 + 2^32 + ... + 2^(32(r-1))) below the order (r <= ceil(bits / 32)).
  """
  bits = order.bit_length()
  shifts = [j for j in range(0, bits, 8) if (1 << j) < order]
  reps = [r for r in range(2, bits // 32 + 3) if _rep_mult(r) < order]
  return shifts, reps


def _last_window(bits):
  """Offset of the 4-byte window that ends at the most significant byte of the key."""
  return (bits + 7) // 8 * 8 - 32


def _lib_nforms(bits):
  """How many transformed points per key the search uses (only to aim words at its edges)."""
  return _last_window(bits) // 8 + 1 + max(0, (bits + 31) // 32 - 1)


def _rep_mult(r):
  return sum(1 << (32 * i) for i in range(r))


def _weak_key(ksel, order, nforms, nkeys, mat):
  """-> (private key or None for an unrelated random key, labels)."""
  form, idx, wsel = ksel
  if form == 'x':
    return 1 + mat.below(order - 1), None
  mult = (1 << idx) if form == 's' else _rep_mult(idx)
  wmax = min((1 << 32) - 1, (order - 1) // mult)
  assert wmax >= 1
  kind = wsel[0]
  if kind == 'one':
    w = 1
  elif kind == 'max':
    w = wmax
  elif kind == 'msb':
    w = min(1 << 31, wmax)
  elif kind == 'edge':
    ts = _isqrt_f((1 << 32) * nforms * nkeys)
    t = 2 * ts - 1
    steps = 2 + (1 << 32) // t
    w = (wsel[1] % steps) * t + (1 if wsel[2] else -1) * (ts - 1 + wsel[3] % 2)
    w = min(max(1, w), wmax)
  else:
    w = 1 + mat.below(wmax)
  return w * mult, w


def run_weak(d):
  cid = d['curve']
  name = eg.CURVE_NAMES[cid]
  order = eg.ref(cid).n
  bits = order.bit_length()
  shifts, reps = _forms(order)
  nforms = _lib_nforms(bits)
  mat = Material(d['m'], 'c10weak')
  curve = ec_util.CURVE_FACTORY[cid]
  _reset_named()
  cls = {'curve=' + name, 'weak:keys=%d' % len(d['keys'])}
  flags = {}
  privs = []
  for ksel in d['keys']:
    assert ksel[0] == 'x' or (ksel[1] in shifts if ksel[0] == 's' else ksel[1] in reps)
    dk, w = _weak_key(ksel, order, nforms, len(d['keys']), mat)
    privs.append((dk, w, ksel))
  point_of = lambda x: _named_point(cid, x)
  try:
    if d.get('pre'):
      # a small search first: the check then meets a smaller cached table
      _exec_ops(curve, [('batchdl', [0, 1, 99, 100], 100)], order, point_of, True, True, cls, flags)
    keys = []
    for dk, _, _ in privs:
      P = point_of(dk)
      keys.append(art.ec_key(cid, P[0], P[1], pad=len(keys) % 2))
    if d.get('pre'):
      # the keys carry annotations of earlier checks (another check already marked every second key weak,
      # as CheckWeakCurve does for secp192r1 inside CheckAllEC): the structured key must still be found
      libcall(ec_single_checks.CheckValidECKey().Check, keys)
      for k in keys[::2]:
        r = k.test_info.test_results.add()
        r.test_name, r.result, r.severity = 'CheckSomethingElse', True, 2
        k.test_info.weak = True
      cls.add('weak:keys-annotated-by-earlier-checks')
    ret = libcall(ec_single_checks.CheckWeakECPrivateKey().Check, keys)
    any_struct = False
    for i, ((dk, w, ksel), key) in enumerate(zip(privs, keys)):
      e = art.entry(key.test_info, 'CheckWeakECPrivateKey')
      rec = art.attached(key.test_info, 'DISCRETE_LOG')
      if e is None:
        raise Violation('weakkey:no-entry', index=i, curve=name)
      if isinstance(rec, list):
        raise Violation('weakkey:duplicate-record', index=i, curve=name)
      val = None
      if rec is not None:
        try:
          val = int(rec, 16)
        except ValueError:
          raise Violation('weakkey:record-format', got=rec[:100], curve=name)
      if ksel[0] != 'x':
        any_struct = True
        if not e[0] or not key.test_info.weak or val is None:
          raise Violation('weakkey:missed', curve=name, form=ksel[0], param=ksel[1], w=w,
                          private_key=dk, nkeys=len(keys), index=i, record=rec)
        if val % order != dk:
          raise Violation('weakkey:wrong-log', curve=name, form=ksel[0], param=ksel[1], w=w,
                          private_key=dk, got=val)
        if ksel[0] == 's':
          cls.add('weak:shift')
          if ksel[1] == _last_window(bits):
            cls.add('weak:shift=last-4-byte-window')
            flags['edge'] = True
            if bits % 8 and w >= 1 << (bits - ksel[1] - 1):
              cls.add('weak:last-window-of-an-order-with-partial-top-byte')
          elif ksel[1] > _last_window(bits):
            cls.add('weak:shift-beyond-last-window(short w)')
        else:
          cls.add('weak:repeat')
          if ksel[1] >= bits // 32:
            cls.add('weak:top-repeat-count' if ksel[1] == bits // 32 else
                    'weak:repeat-count-with-partial-top-word')
            flags['edge'] = True
        cls.add('weak:w=%s' % ksel[2][0])
        if ksel[2][0] in ('edge', 'max'):
          flags['edge'] = True
      else:
        cls.add('weak:unrelated-random-key-in-batch')
        if val is not None and val % order != dk:
          raise Violation('weakkey:unsound', curve=name, private_key=dk, got=val)
        if bool(e[0]) != (val is not None):
          raise Violation('weakkey:flag-without-record', curve=name, index=i)
    if bool(ret) != any(art.entry(k.test_info, 'CheckWeakECPrivateKey')[0] for k in keys):
      raise Violation('weakkey:return', got=repr(ret), curve=name)
    if any_struct and ret is not True:
      raise Violation('weakkey:return', got=repr(ret), curve=name)
    if d.get('post'):
      # searches after the check: the cached table is much larger than they need
      M = 50
      base = 1 + mat.below(order - 1)
      _exec_ops(curve, [('batchdl', [0, 1, 4095, 4096, 70000, 4097], 4097),
                        ('diffs', [base, base + M - 1, base + 2 * M - 1, base], [], M)],
                order, point_of, True, True, cls, flags)
  finally:
    _reset_named()
  return {'nt': bool(flags.get('edge')), 'cls': sorted(cls)}


W_ROT = (['max'], ['one'], ['edge', 0, True, 0], ['rand'], ['msb'], ['edge', 1, False, 0],
         ['edge', 1, True, 1], ['rand'], ['edge', -1, True, 0], ['edge', -2, False, 1],
         ['edge', 700, True, 0], ['edge', -1, False, 0], ['edge', 0, True, 1])


def _weak_batches(cid, k, rounds, seed, forms=None):
  order = eg.ref(cid).n
  bits = order.bit_length()
  shifts, reps = _forms(order)
  allforms = [['s', j] for j in reversed(shifts)] + [['r', r] for r in reversed(reps)]
  if forms is not None:
    allforms = forms
  for rnd in range(rounds):
    keys = []
    for i, f in enumerate(allforms):
      top = (f[0] == 's' and f[1] >= _last_window(bits)) or (f[0] == 'r' and f[1] >= bits // 32)
      keys.append([f[0], f[1], ['max'] if (top and rnd == 0) else
                   list(W_ROT[(i * 5 + rnd * 3) % len(W_ROT)])])
    # interleave so that every batch mixes shifts and repeats
    nb = -(-len(keys) // k)
    for b in range(nb):
      part = keys[b::nb]
      part.insert(len(part) // 2, ['x', 0, ['rand']])
      yield {'curve': int(cid), 'keys': part, 'm': seed * 1000 + rnd * 37 + b,
             'pre': (b + rnd) % 2 == 0, 'post': (b + rnd) % 3 != 1}


def enum_weak(tier):
  if tier == 'quick':
    for cid in (C.CURVE_SECP256R1, C.CURVE_SECP256K1, C.CURVE_BRAINPOOLP256R1):
      yield from _weak_batches(cid, 13, 1, int(cid))
    yield from _weak_batches(C.CURVE_SECP224R1, 12, 1, 5)
    # larger curves: the top shift / top repeat count and a few others only
    for cid in (C.CURVE_SECP384R1, C.CURVE_SECP521R1):
      order = eg.ref(cid).n
      shifts, reps = _forms(order)
      top = _last_window(order.bit_length())
      sel = [['s', top], ['r', reps[-1]], ['s', top - 8], ['s', shifts[-1]], ['s', 0], ['r', 2],
             ['s', shifts[len(shifts) // 2]]]
      if reps[-1] != order.bit_length() // 32:
        sel.insert(2, ['r', order.bit_length() // 32])
      yield from _weak_batches(cid, 7, 1, int(cid), forms=sel)
  else:
    for cid in CURVE_IDS:
      bits = eg.ref(cid).n.bit_length()
      rounds = 4 if bits <= 256 else 2
      yield from _weak_batches(cid, 12 if bits <= 256 else 10, rounds, 100 + int(cid))


# ---------------------------------------------------------------- CheckECKeySmallDifference

def run_smalldiff(d):
  M = max(1, _resolve_bound(d['max_diff'], 1))
  _reset_named()
  cls = set()
  flags = {}
  per_curve = {}
  keys = []
  meta = []
  for sel in d['keys']:
    cid = CURVE_IDS[sel[0] % len(CURVE_IDS)]
    order = eg.ref(cid).n
    dk = _resolve_key(sel[1:], M, order, _named_bases(d['m'] + int(cid), order), d['m'])
    P = _named_point(cid, dk)
    keys.append(art.ec_key(cid, P[0], P[1], pad=len(keys) % 2))
    meta.append((cid, dk))
    per_curve.setdefault(cid, []).append(dk)
  try:
    ret = libcall(ec_aggregate_checks.CheckECKeySmallDifference(max_diff=M).Check, keys)
    flagged_any = False
    for i, ((cid, dk), key) in enumerate(zip(meta, keys)):
      name = eg.CURVE_NAMES[cid]
      order = eg.ref(cid).n
      e = art.entry(key.test_info, 'CheckECKeySmallDifference')
      rec = art.attached(key.test_info, 'DISCRETE_LOG_DIFF')
      if e is None:
        raise Violation('smalldiff:no-entry', index=i, curve=name)
      if isinstance(rec, list):
        raise Violation('smalldiff:duplicate-record', index=i, curve=name)
      others = [(j, m[1]) for j, m in enumerate(meta) if j != i and m[0] == cid]
      near = [o for _, o in others if _near(dk, o, order, M)]
      ident = [o for _, o in others if (o - dk) % order == 0]
      if near:
        delta = (dk - near[0]) % order
        dist = min(delta, order - delta)
        if not e[0] or not key.test_info.weak or rec is None:
          raise Violation('smalldiff:missed', curve=name, index=i, distance=dist, max_diff=M,
                          nkeys_on_curve=len(others) + 1, nkeys=len(keys))
        cls.add('smalldiff:distance=max_diff-1' if dist == M - 1 else
                'smalldiff:distance=%d' % dist if dist <= 2 else 'smalldiff:distance<max_diff')
        if dist == M - 1:
          flags['edge'] = True
      if ident:
        cls.add('smalldiff:identical-keys' + ('+neighbour' if near else '(no neighbour)'))
        flags['edge'] = True
      if bool(e[0]) != (rec is not None):
        raise Violation('smalldiff:flag-without-record', curve=name, index=i)
      if rec is not None:
        flagged_any = True
        logs = {}
        for _, o in others:
          Q = _named_point(cid, o)
          logs[(Q[0], Q[1])] = o
        _judge_relation(rec, dk, logs, order, 'smalldiff', curve=name, index=i, max_diff=M)
        if not near:
          cls.add('smalldiff:reported-beyond-max_diff(no-claim)')
      elif not near and others:
        cls.add('smalldiff:unrelated-key-not-flagged')
    if bool(ret) != flagged_any or not isinstance(ret, bool):
      raise Violation('smalldiff:return', got=repr(ret), flagged_any=flagged_any)
  finally:
    _reset_named()
  ncurves = len(per_curve)
  cls.add('smalldiff:curves=%s' % (ncurves if ncurves < 3 else '3+'))
  cls.add('smalldiff:keys=%s' % ('0' if not keys else '1' if len(keys) == 1 else '2-5'
                                 if len(keys) <= 5 else '6+'))
  return {'nt': bool(flags.get('edge')), 'cls': sorted(cls), 'max_diff': M}


def strat_smalldiff(tier):
  small = st.one_of(st.tuples(st.just('p'), st.integers(0, 12)),
                    st.tuples(st.just('i'), st.integers(1, 1 << 12)),
                    st.tuples(st.just('i'), st.integers(1, 400)),
                    st.tuples(st.just('i'), st.integers(1, 400)))
  if tier == 'quick':
    mspec = small
  else:
    # a table of 2^20 entries costs several seconds and ~250 MB per curve: 1 case in 20
    big = st.one_of(st.tuples(st.just('p'), st.integers(13, 20)),
                    st.tuples(st.just('i'), st.integers(1 << 12, 1 << 20)))
    mspec = st.integers(0, 19).flatmap(lambda z: big if z == 0 else small)
  # curve selector: mostly the 256-bit curves (index into CURVE_IDS)
  pref = [CURVE_IDS.index(c) for c in (C.CURVE_SECP256R1, C.CURVE_SECP256K1,
                                       C.CURVE_BRAINPOOLP256R1, C.CURVE_SECP224R1)]
  csel = st.one_of(st.sampled_from(pref), st.sampled_from(pref), st.integers(0, len(CURVE_IDS) - 1))

  @st.composite
  def s(draw):
    maxlen = draw(st.sampled_from([2, 3, 5, 10, 16]))
    ncurves = draw(st.sampled_from([1, 2, 2, 3, 5]))
    palette = draw(st.lists(csel, min_size=ncurves, max_size=ncurves))
    ksel = st.tuples(st.sampled_from(palette), st.sampled_from([0, 0, 0, 1, 3]),
                     st.sampled_from(['z', 'z', '1', '2', 'l', 'l', 'M', 'r', 'n']),
                     st.integers(0, 5), st.booleans())
    minlen = draw(st.sampled_from([0, 2, 2, 3, 2, 4, 2, 3]))
    keys = draw(st.lists(ksel, min_size=minlen, max_size=max(minlen, maxlen)))
    return {'m': draw(material), 'max_diff': _jsonable(draw(mspec)), 'keys': _jsonable(keys)}
  return s()


ARMS = [
    Arm('weak_private_key', run_weak, enumerate=enum_weak, budget=(400, 6000), weight=10.0,
        doc='CheckWeakECPrivateKey: every shift and every repeat count per curve, edge words; '
            'small searches before/after on the same curve object'),
    Arm('toy_batchdl_exhaustive', run_toy_batchdl, enumerate=enum_toy_batchdl, exhaustive=True,
        budget=(400, 6000), weight=5.0,
        doc='every group element x (bound, list length, history mode) on toy prime-order curves'),
    Arm('toy_diffs_exhaustive', run_toy_diffs, enumerate=enum_toy_diffs, exhaustive=True,
        budget=(400, 6000), weight=4.0,
        doc='every pair distance x (max_diff, call form, history mode) on toy curves'),
    Arm('toy_history', run_toy_history, strategy=strat_toy_history, quick=6000, thorough=80000,
        doc='random call histories on one fresh toy curve object'),
    Arm('named_history', run_named_history, strategy=strat_named_history, quick=4000,
        thorough=40000, budget=(150, 2400),
        doc='call histories on the shared named-curve objects, logarithms aimed at the edges'),
    Arm('named_giant_steps', run_named_steps, enumerate=enum_named_steps, exhaustive=True, budget=(300, 3000),
        doc='one BatchDL call per giant-step count 2..39 and 2^k-1..2^k+2 (k up to 11/12), list lengths 1, 2, 5, '
            'smallest and largest bound with that count, logarithms in the last steps'),
    Arm('small_difference', run_smalldiff, strategy=strat_smalldiff, quick=3200, thorough=10000,
        budget=(150, 2400),
        doc='CheckECKeySmallDifference(max_diff): close pairs, identical keys, several curves'),
]
