"""C15 - bit-sequence primitives match their definitions for every string and length."""

import collections
import glob
import os
import shutil
import subprocess
import tempfile

from hypothesis import strategies as st

from gens.common import Material, material
from harness.core import Arm, Violation, libcall
from refs import bits_ref as R

from paranoid_crypto.lib.randomness_tests import util

ID = 'C15'
TITLE = 'Bit-sequence primitives match their definitions for every string and length'
TECHNIQUE = 'exhaustive enumeration + Hypothesis against one-line bit-list definitions'
RULE = (
    'Arms: (1) every bit string of length 0..12 (quick) / 0..16 (thorough) with every pattern '
    'size, block size, wrap flag and the out-of-domain parameters around it; (2) every binary '
    'matrix with rows*cols <= 12 / 16; (3) Hypothesis-drawn strings of up to 2^16 / 2^18 bits '
    '(bulk from a 64-bit material integer by SHAKE-256: random, sparse, dense, periodic, '
    'run-structured, constant; the 24 lowest and highest bits are drawn explicitly so that the '
    'tail byte and the wrap-around windows vary), lengths at every residue mod 8 and within +-9 '
    'of 50*2^m, 8k and 2^e; (4) deterministic grids over the FrequencyCount threshold '
    '50*2^m < length (m = 1..10 / 12, offsets -2..+9, both wrap flags), every block size and '
    'interleaving factor 1..70 / 130, run lengths 1..260 / 1100 and matrix row counts around '
    '32/50/256/8192 (up to 9000 / 16385 rows); '
    '(5) Hypothesis-drawn matrices with zero, duplicate, dependent, sparse, gapped and low-rank '
    'rows; (6) thorough tier only, and only when atheris is importable from /opt/veriftools/pyvenv: '
    'four coverage-guided campaigns over the same oracles (a crash input counts only after it is '
    're-evaluated in-process). Oracles are refs/bits_ref.py (definitions on Python bit lists; rank by basis '
    'insertion, cross-checked with list-of-lists Gauss-Jordan). The code path a case takes is '
    'computed from the size conditions written in util.py and recorded as a class label. A case '
    'is non-trivial when it takes a size-selected fast path (4-bit-stride counting, byte-aligned '
    'splitting, table-driven elimination) or its length is not a multiple of 8.')
ASSUMPTIONS = [
    'Python int/str conversions (format(x, "b"), int(s, 2)), list slicing and collections.Counter are correct',
    'bit 0 (least significant) is the first element of a sequence, as the docstrings of util.py say',
    'ValueError is required exactly where util.py raises it explicitly (SubSequences: m <= 0, length < 0, '
    'seq longer than length, m > length; FrequencyCount: m > length; BinaryMatrixRank: a negative row); '
    'other out-of-domain parameters (m <= 0 elsewhere, seq longer than length elsewhere) are not exercised',
    'the branch m >= 24 with 50*2^m < length needs strings of more than 8.3e8 bits and is not reached',
]

_SMALL = getattr(util, '_BinaryMatrixRankSmall', None)
_LARGE = getattr(util, '_BinaryMatrixRankLarge', None)


# ------------------------------------------------------------------ helpers

class RefError(Exception):
  """The two spellings of a reference disagree: harness problem, never a violation."""


def _must_raise(clause, fn, *args, **detail):
  try:
    res = libcall(fn, *args, expect=(ValueError,))
  except ValueError:
    return
  raise Violation(clause, args=[a if not isinstance(a, list) else a[:8] for a in args],
                  got=repr(res)[:200], **detail)


def _subseq(seq, length, m, wrap):
  return list(util.SubSequences(seq, length, m, wrap))


def freq_path(length, m):
  """The branch FrequencyCount takes (conditions copied from util.py)."""
  return 'fast' if (50 * 2**m < length and m < 24) else 'slow'


def rank_path(rows):
  if rows < 50:
    return 'rank:small(<50 rows)'
  if rows < 256:
    return 'rank:large(50..255 rows)'
  if rows < 8192:
    return 'rank:large(256..8191 rows)'
  return 'rank:large(>=8192 rows)'


def _first_diff(a, b):
  for i, (x, y) in enumerate(zip(a, b)):
    if x != y:
      return i
  return min(len(a), len(b))


def check_freq(seq, n, m, wrap, windows=None):
  """FrequencyCount and SubSequences against the definition (in-domain: 1 <= m <= n)."""
  if windows is None:
    cnt = R.window_counter(seq, n, m, wrap)
    exp = R.counts_from_counter(cnt, m)
    exp_multi = {int(k, 2): v for k, v in cnt.items()}
  else:
    exp = R.counts_from_list(windows, m)
    exp_multi = collections.Counter(windows)
  res = libcall(util.FrequencyCount, seq, n, m, wrap)
  if not isinstance(res, list) or res != exp:
    i = _first_diff(res, exp) if isinstance(res, list) else -1
    raise Violation('frequencycount:value:' + freq_path(n, m), length=n, m=m, wrap=wrap, seq=seq,
                    pattern=i, got=(res[i] if isinstance(res, list) and i < len(res) else repr(res)[:80]),
                    expected=(exp[i] if i < len(exp) else None),
                    got_len=(len(res) if isinstance(res, list) else None), residue=n % 8)
  sub = libcall(_subseq, seq, n, m, wrap)
  if collections.Counter(sub) != exp_multi:
    raise Violation('subsequences:multiset', length=n, m=m, wrap=wrap, seq=seq,
                    got_n=len(sub), expected_n=sum(exp_multi.values()), residue=n % 8)


def check_split(seq, n, m, b):
  res = libcall(util.SplitSequence, seq, n, m)
  exp = R.split(b, m)
  if not isinstance(res, list) or res != exp:
    i = _first_diff(res, exp) if isinstance(res, list) else -1
    raise Violation('splitsequence:' + ('byte-aligned' if m % 8 == 0 else 'shift-mask'),
                    length=n, m=m, seq=seq, block=i,
                    got=(res[i] if isinstance(res, list) and 0 <= i < len(res) else repr(res)[:80]),
                    expected=(exp[i] if 0 <= i < len(exp) else None),
                    got_blocks=(len(res) if isinstance(res, list) else None), expected_blocks=len(exp))


def check_scatter(seq, m, b):
  res = libcall(util.Scatter, seq, m)
  exp = R.scatter(b, m)
  if not isinstance(res, list) or res != exp:
    i = _first_diff(res, exp) if isinstance(res, list) else -1
    raise Violation('scatter:' + ('special' if seq.bit_length() < m else 'general'),
                    m=m, seq=seq, bitlen=seq.bit_length(), index=i,
                    got=(res[i] if isinstance(res, list) and 0 <= i < len(res) else repr(res)[:80]),
                    expected=(exp[i] if 0 <= i < len(exp) else None))


def check_simple(seq, n, b, run_lengths=None):
  """Runs, LongestRunOfOnes, ReverseBits, Bits, BitCount."""
  r = libcall(util.Runs, seq, n)
  if r != R.runs(b):
    raise Violation('runs', length=n, seq=seq, got=r, expected=R.runs(b))
  lr = libcall(util.LongestRunOfOnes, seq)
  e = R.longest_run_of_ones(b)
  if lr != e:
    raise Violation('longestrunofones', length=n, seq=seq, got=lr, expected=e)
  rv = libcall(util.ReverseBits, seq, n)
  if rv != R.reverse(b):
    raise Violation('reversebits', length=n, seq=seq, got=rv, expected=R.reverse(b), residue=n % 8)
  bt = libcall(util.Bits, seq, n)
  try:
    got = list(bt)
  except TypeError:
    raise Violation('bits:type', got=repr(bt)[:80])
  e = R.plus_minus_one(b)
  if got != e:
    raise Violation('bits', length=n, seq=seq, got_len=len(got), expected_len=len(e),
                    index=_first_diff(got, e))
  pc = libcall(util.BitCount, seq)
  if pc != R.popcount(b):
    raise Violation('bitcount', seq=seq, got=int(pc), expected=R.popcount(b))


def check_overlapping(seq, m, expected):
  got = libcall(util.OverlappingRunsOfOnes, seq, m)
  if got != expected:
    raise Violation('overlappingrunsofones', seq=seq, m=m, got=int(got), expected=expected)


# ------------------------------------------------------------------ arm 1: exhaustive strings

def run_exhaustive(desc):
  n, v = desc['n'], desc['v']
  b = R.bits_of(v, n)
  fast = False
  for m in range(1, n + 1):
    for wrap in (True, False):
      w = R.window_list(b, m, wrap)
      if n <= 10 or v % 16 == 3:
        c = R.window_counter(v, n, m, wrap)
        if {int(k, 2): x for k, x in c.items()} != collections.Counter(w):
          raise RefError('window_list and window_counter disagree: %r' % ((n, v, m, wrap),))
      check_freq(v, n, m, wrap, windows=w)
      fast = fast or freq_path(n, m) == 'fast'
  # ---- documented errors around the domain
  for wrap in (True, False):
    for m in (n + 1, n + 2, n + 3, n + 8, n + 9):
      _must_raise('frequencycount:no-valueerror:m>length', util.FrequencyCount, v, n, m, wrap)
      _must_raise('subsequences:no-valueerror:m>length', _subseq, v, n, m, wrap)
    for m in (0, -1):
      _must_raise('subsequences:no-valueerror:m<=0', _subseq, v, n, m, wrap)
    mm = max(1, n // 2)
    _must_raise('subsequences:no-valueerror:length<0', _subseq, 0, -1, mm, wrap)
    _must_raise('subsequences:no-valueerror:length<0', _subseq, v, -1 - n, mm, wrap)
    for extra in (0, 1, 2, 7, 8):
      for keep in (v, 0):
        big = keep | (1 << (n + extra))
        for m in sorted({1, mm, n} - {0}):
          _must_raise('subsequences:no-valueerror:seq-too-long', _subseq, big, n, m, wrap,
                      bitlen=big.bit_length())
  # ---- blocks, interleaving, runs, maps
  for m in range(1, n + 4):
    check_split(v, n, m, b)
    check_scatter(v, m, b)
    if n <= 10 or v % 16 == 3:
      if R.overlapping_from_runs(R.run_lengths_of_ones(b), m) != R.overlapping_runs_of_ones(b, m):
        raise RefError('overlapping references disagree: %r' % ((n, v, m),))
    check_overlapping(v, m, R.overlapping_runs_of_ones(b, m))
  check_simple(v, n, b)
  cls = ['exhaustive:len=%d' % n, 'len%%8=%d' % (n % 8)]
  return {'nt': fast or n % 8 != 0, 'cls': cls}


def enum_exhaustive(tier):
  top = 12 if tier == 'quick' else 16
  for n in range(top, -1, -1):        # longest first: better load balance
    for v in range(1 << n):
      yield {'n': n, 'v': v}


# ------------------------------------------------------------------ arm 2: exhaustive matrices

def check_rank(rows, cls=None, direct=True):
  exp = R.rank_basis(rows)
  cols = max((r.bit_length() for r in rows), default=0)
  if len(rows) * cols <= 4096:
    if R.rank_columns(rows, cols) != exp:
      raise RefError('rank references disagree: %r' % (rows[:20],))
  got = libcall(util.BinaryMatrixRank, list(rows))
  if got != exp:
    raise Violation('binarymatrixrank:' + ('small' if len(rows) < 50 else 'large'),
                    rows=len(rows), cols=cols, got=got, expected=exp, matrix=rows[:12])
  if direct and _SMALL is not None and _LARGE is not None:
    g = libcall(_SMALL, list(rows)) if rows else 0   # upstream never calls it with []
    if g != exp:
      raise Violation('rank-small-direct', rows=len(rows), cols=cols, got=g, expected=exp,
                      matrix=rows[:12])
    g = libcall(_LARGE, list(rows))
    if g != exp:
      raise Violation('rank-large-direct', rows=len(rows), cols=cols, got=g, expected=exp,
                      matrix=rows[:12])
  return exp, cols


def run_rank_tiny(desc):
  r, c, bits = desc['r'], desc['c'], desc['bits']
  mask = (1 << c) - 1
  rows = [(bits >> (i * c)) & mask for i in range(r)]
  exp, _ = check_rank(rows)
  cls = ['tiny-matrix %dx%d' % (r, c)]
  if exp < min(r, c):
    cls.append('tiny:rank-deficient')
  return {'nt': False, 'cls': cls, 'rank': exp}


def enum_rank_tiny(tier):
  top = 12 if tier == 'quick' else 16
  yield {'r': 0, 'c': 1, 'bits': 0}
  for r in range(1, top + 1):
    for c in range(1, top // r + 1):
      for bits in range(1 << (r * c)):
        yield {'r': r, 'c': c, 'bits': bits}


# ------------------------------------------------------------------ string material

_KINDS = ['random', 'random', 'sparse', 'dense', 'periodic', 'runs', 'zero', 'ones']
_ENDS = 24


def build_string(n, kind, seed, p, lo, hi):
  """n-bit string from a small descriptor; the outer 24 bits on each side are explicit."""
  mat = Material(seed, 'c15')
  if kind == 'zero':
    v = 0
  elif kind == 'ones':
    v = (1 << n) - 1
  elif kind == 'random':
    v = mat.bits(n)
  elif kind == 'sparse':
    v = mat.bits(n)
    for _ in range(1 + p % 6):
      v &= mat.bits(n)
  elif kind == 'dense':
    v = mat.bits(n)
    for _ in range(1 + p % 6):
      v |= mat.bits(n)
  elif kind == 'periodic':
    q = 1 + p % 61
    pat = mat.bits(q) | (p & 1)
    reps = n // q + 1
    v = (pat * (((1 << (q * reps)) - 1) // ((1 << q) - 1))) & ((1 << n) - 1)
  elif kind == 'runs':
    out, bit, total = [], p & 1, 0
    scale = 1 + (p >> 1) % 9
    while total < n:
      ln = 1 + mat.below(1 << (1 + mat.below(scale)))
      out.append(('1' if bit else '0') * ln)
      total += ln
      bit ^= 1
    v = int(''.join(out)[:n] or '0', 2)
  else:
    raise KeyError(kind)
  e = min(_ENDS, n // 2)
  if e:
    em = (1 << e) - 1
    v &= ~em & ~(em << (n - e)) & ((1 << n) - 1)
    v |= (lo & em) | ((hi & em) << (n - e))
  elif n == 1:
    v = lo & 1
  return v


def _length_strategy(maxn):
  top_m = 0
  while 50 * 2**(top_m + 1) + 9 <= maxn:
    top_m += 1
  top_e = maxn.bit_length() - 1
  around_thr = st.builds(lambda m, d: 50 * 2**m + d, st.integers(0, top_m), st.integers(-9, 9))
  s = st.one_of(
      st.integers(1, 70),
      st.integers(1, 700),
      around_thr,
      around_thr,
      st.builds(lambda k, d: 8 * k + d, st.integers(1, 1024), st.integers(0, 7)),
      st.builds(lambda k, d: 8 * k + d, st.integers(1, maxn // 8 - 1), st.integers(0, 7)),
      st.builds(lambda e, d: 2**e + d, st.integers(3, top_e), st.integers(-9, 9)),
      # lengths that are multiples of 9, 7, 3 (and usually not of 8)
      st.builds(lambda k, q: k * q, st.integers(1, 900), st.sampled_from([3, 7, 9, 27, 63])),
  )
  return s.map(lambda n: max(1, min(maxn, n)))


_end_bits = st.one_of(st.integers(0, (1 << _ENDS) - 1), st.sampled_from([0, (1 << _ENDS) - 1, 1, 1 << (_ENDS - 1)]))


def _string_fields(tier, maxq, maxt):
  maxn = maxq if tier == 'quick' else maxt
  return {
      'n': _length_strategy(maxn),
      'kind': st.sampled_from(_KINDS),
      'm': material,
      'p': st.integers(0, 255),
      'lo': _end_bits,
      'hi': _end_bits,
  }


def _string_of(desc):
  return build_string(desc['n'], desc['kind'], desc['m'], desc['p'], desc['lo'], desc['hi'])


def _string_cls(prefix, n, v):
  cls = ['len%%8=%d' % (n % 8),
         '%s:len=%s' % (prefix, '1-64' if n <= 64 else '65-1024' if n <= 1024 else
                        '1025-16384' if n <= 16384 else '16385-65536' if n <= 65536 else '65537+')]
  if v.bit_length() < n:
    cls.append('leading-zero-bits')
  return cls


# ------------------------------------------------------------------ arm 3: pattern counts on long strings

def _pattern_size(n, sel, mmax):
  """Maps a selector to a pattern size in 1..min(n, mmax), aimed at the threshold 50*2^m < n."""
  thr = 0                       # largest m with 50*2^m < n (0 if none)
  while 50 * 2**(thr + 1) < n:
    thr += 1
  kind, x = sel
  if kind == 'thr':
    m = thr + x                 # x in -1..2
  else:
    m = x
  return max(1, min(n, mmax, m))


def run_freq_long(desc):
  n = desc['n']
  v = _string_of(desc)
  mmax = desc.get('mmax', 16)
  m = _pattern_size(n, desc['sel'], mmax)
  wrap = desc['wrap']
  check_freq(v, n, m, wrap)
  path = freq_path(n, m)
  cls = ['freq:%s-path' % path] + _string_cls('freq', n, v)
  if path == 'fast' and n % 8:
    cls.append('freq:fast-path+tail-bits')
  if path == 'fast' and m >= 3:
    cls.append('freq:fast-path,m>=3')
  thr = 50 * 2**m
  if abs(n - thr) <= 9:
    cls.append('freq:within-9-of-threshold')
  if m == n:
    cls.append('freq:m==length')
  cls.append('wrap' if wrap else 'no-wrap')
  return {'nt': path == 'fast' or n % 8 != 0, 'cls': cls, 'm': m}


def strat_freq_long(tier):
  f = _string_fields(tier, 1 << 16, 1 << 18)
  mmax = 16 if tier == 'quick' else 20
  f['sel'] = st.one_of(
      st.tuples(st.just('thr'), st.integers(-1, 2)),
      st.tuples(st.just('abs'), st.integers(1, 8)),
      st.tuples(st.just('abs'), st.integers(1, mmax))).map(list)
  f['wrap'] = st.booleans()
  f['mmax'] = st.just(mmax)
  return st.fixed_dictionaries(f)


def enum_freq_threshold(tier):
  """Both sides of 50*2^m < length for every m, every residue mod 8, both wrap flags."""
  top = 10 if tier == 'quick' else 12
  for m in range(1, top + 1):
    for d in range(-2, 10):
      for wrap in (True, False):
        for k, kind in enumerate(('random', 'runs', 'sparse')):
          if tier == 'quick' and m >= 9 and kind != 'random':
            continue
          yield {'n': 50 * 2**m + d, 'kind': kind, 'm': 1000 * m + 10 * (d + 2) + k, 'p': 7 * m + d + 2,
                 'lo': (0x5a5a5a * (d + 3)) & 0xffffff, 'hi': (0xc3c3c3 * (m + d + 2)) & 0xffffff,
                 'sel': ['abs', m], 'wrap': wrap, 'mmax': 24}


# ------------------------------------------------------------------ arm 4: splitting and interleaving

def run_split(desc):
  n = desc['n']
  v = _string_of(desc)
  b = R.bits_of(v, n)
  cls = _string_cls('split', n, v)
  aligned = False
  for m in desc['bs']:
    check_split(v, n, m, b)
    aligned = aligned or m % 8 == 0
    cls.append('split:byte-aligned' if m % 8 == 0 else 'split:shift-mask')
    if n % m == 0:
      cls.append('split:length-divisible')
    if m > n:
      cls.append('split:block>length')
  for m in desc['sc']:
    check_scatter(v, m, b)
    cls.append('scatter:special(bitlen<m)' if v.bit_length() < m else 'scatter:general')
    if v.bit_length() in (m - 1, m, m + 1):
      cls.append('scatter:bitlen-within-1-of-m')
  return {'nt': aligned or n % 8 != 0, 'cls': sorted(set(cls), key=cls.index)}


def strat_split(tier):
  f = _string_fields(tier, 1 << 16, 1 << 18)
  size = st.one_of(st.integers(1, 70), st.sampled_from([8, 16, 24, 32, 40, 48, 56, 64]))
  f['bs'] = st.lists(size, min_size=1, max_size=3)
  f['sc'] = st.lists(st.one_of(st.integers(1, 70), st.integers(1, 4)), min_size=1, max_size=2)
  base = st.fixed_dictionaries(f)

  @st.composite
  def s(draw):
    d = draw(base)
    # sometimes aim the sizes at the length itself (block == length, +-1; scatter m near bit length)
    if draw(st.integers(0, 3)) == 0:
      d['bs'] = d['bs'] + [max(1, d['n'] + draw(st.integers(-1, 2)))] if d['n'] <= 4096 else d['bs']
    if draw(st.integers(0, 3)) == 0 and d['n'] <= 300:
      d['sc'] = d['sc'] + [max(1, d['n'] + draw(st.integers(-26, 2)))]
    return d
  return s()


def enum_split_grid(tier):
  """Every block size / interleaving factor 1..70 (thorough: 1..130) on a grid of lengths."""
  top = 70 if tier == 'quick' else 130
  i = 0
  for bs in range(1, top + 1):
    lengths = [3 * bs, 3 * bs + 1, 8 * bs - 1, 8 * bs, 1000 + bs, 4099]
    if tier == 'thorough':
      lengths += [bs, bs + 7, 64 * bs + 5, 65536 + bs]
    for n in lengths:
      i += 1
      yield {'n': n, 'kind': ('random', 'dense', 'sparse', 'runs')[i % 4], 'm': i, 'p': i % 256,
             'lo': (0x9e3779 * i) & 0xffffff, 'hi': (0x7f4a7c * i) & 0xffffff if i % 3 else 0,
             'bs': [bs], 'sc': [bs]}


# ------------------------------------------------------------------ arm 5: runs

def _runs_string(first, runs):
  """String whose run i (from the least significant end) has length runs[i]."""
  b = []
  bit = first
  for r in runs:
    b.extend([bit] * r)
    bit ^= 1
  return b


def run_runs(desc):
  b = _runs_string(desc['first'], desc['runs'])
  n = len(b)
  v = R.value(b)
  nruns = libcall(util.Runs, v, n)
  if nruns != len(desc['runs']):
    raise Violation('runs', length=n, seq=v, got=nruns, expected=len(desc['runs']))
  check_simple(v, n, b)
  ones = [r for i, r in enumerate(desc['runs']) if (i % 2 == 0) == (desc['first'] == 1)]
  longest = max(ones, default=0)
  ms = set()
  for off in desc['ms']:
    ms.add(max(1, longest + off))
  for r in ones[:4]:
    ms.update((max(1, r - 1), r, r + 1))
  for k in desc['pw']:
    ms.update((max(1, 2**k - 1), 2**k, 2**k + 1))
  for m in sorted(ms):
    e = R.overlapping_from_runs(ones, m)
    if n <= 1500:
      if R.overlapping_runs_of_ones(b, m) != e:
        raise RefError('overlapping references disagree: %r' % (desc,))
    check_overlapping(v, m, e)
  cls = ['len%%8=%d' % (n % 8), 'runs:len=%s' % ('0' if n == 0 else '1-64' if n <= 64 else '65-4096' if n <= 4096 else '4097+')]
  if longest and longest & (longest - 1) == 0:
    cls.append('runs:longest-is-power-of-two')
  elif longest and (longest & (longest + 1) == 0 or (longest - 1) & (longest - 2) == 0):
    cls.append('runs:longest-is-2^k+-1')
  if longest >= 64:
    cls.append('runs:longest>=64')
  if n and b[-1] == 0:
    cls.append('leading-zero-bits')
  return {'nt': n % 8 != 0, 'cls': cls, 'longest': longest}


def strat_runs(tier):
  big = 11 if tier == 'quick' else 14
  rl = st.one_of(
      st.integers(1, 9), st.integers(1, 70),
      st.builds(lambda k, d: max(1, 2**k + d), st.integers(1, big), st.integers(-1, 1)))
  return st.fixed_dictionaries({
      'first': st.integers(0, 1),
      'runs': st.lists(rl, min_size=0, max_size=40),
      'ms': st.lists(st.integers(-3, 2), min_size=1, max_size=3),
      'pw': st.lists(st.integers(0, big), min_size=0, max_size=2),
  })


def enum_runs(tier):
  """Every longest-run length L, with shorter decoy runs on either side."""
  top = 260 if tier == 'quick' else 1100
  for L in range(1, top + 1):
    decoys = [max(1, L - 1), max(1, L // 2), 1, max(1, L - 2)]
    for arrangement in range(3):
      if arrangement == 0:
        runs = [L]
      elif arrangement == 1:
        runs = [decoys[0], 1, L, 2, decoys[1], 1, decoys[2]]
      else:
        runs = [3, decoys[3], 1, decoys[0], 1 + L % 3, L, 1]
      first = 1 if arrangement < 2 else 0
      # in arrangement 1 the even positions are ones; in 2 the odd positions are ones
      yield {'first': first, 'runs': runs, 'ms': [-2, -1, 0, 1], 'pw': []}


# ------------------------------------------------------------------ arm 6: matrices

_MKINDS = ['random', 'random', 'lowrank', 'sparse', 'gaps', 'identity', 'triangular', 'const',
           'zero', 'late-wide']


def build_matrix(desc):
  r, c, kind, k = desc['r'], desc['c'], desc['kind'], desc['k']
  mat = Material(desc['m'], 'c15mx')
  cm = (1 << c) - 1
  if kind == 'random':
    blob = mat.bits(r * c)
    rows = [(blob >> (i * c)) & cm for i in range(r)]
  elif kind == 'lowrank':
    kk = max(1, min(k, c, 64))
    basis = [mat.bits(c) for _ in range(kk)]
    rows = []
    for _ in range(r):
      sel = mat.bits(kk)
      x = 0
      for j in range(kk):
        if (sel >> j) & 1:
          x ^= basis[j]
      rows.append(x)
  elif kind == 'sparse':
    rows = []
    for _ in range(r):
      x = 0
      for _ in range(1 + mat.below(1 + k % 3)):
        x |= 1 << mat.below(c)
      rows.append(x)
  elif kind == 'gaps':
    # only the lowest and the highest columns are populated: whole column blocks are empty
    lo_w = max(1, min(c, 1 + k % 7))
    hi_w = max(1, min(c, 1 + (k // 7) % 7))
    rows = [mat.bits(lo_w) | (mat.bits(hi_w) << (c - hi_w)) for _ in range(r)]
  elif kind == 'identity':
    rows = [1 << ((i * (1 + k % 5)) % c) for i in range(r)]
  elif kind == 'triangular':
    rows = [(1 << ((i % c) + 1)) - 1 for i in range(r)]
  elif kind == 'const':
    x = mat.bits(c) | 1
    rows = [x] * r
  elif kind == 'zero':
    rows = [0] * r
  elif kind == 'late-wide':
    # narrow rows; the only rows reaching the top columns come late in the list
    w = max(1, min(c, 1 + k % 9))
    rows = [mat.bits(w) for _ in range(r)]
    if r:
      rows[r - 1 - (k % min(r, 3))] = mat.bits(c) | (1 << (c - 1))
  else:
    raise KeyError(kind)
  rows = list(rows)
  for kind2, a, bb in desc.get('edits', ()):
    if not rows:
      break
    i, j = a % len(rows), bb % len(rows)
    if kind2 == 'zero':
      rows[i] = 0
    elif kind2 == 'dup':
      rows[i] = rows[j]
    elif kind2 == 'dep':
      rows[i] = rows[j] ^ rows[(i + j + 1) % len(rows)]
    elif kind2 == 'zero-range':
      lo, hi = min(i, j), max(i, j)
      for t in range(lo, hi + 1):
        rows[t] = 0
    elif kind2 == 'swap':
      rows[i], rows[j] = rows[j], rows[i]
  if desc.get('shuffle'):
    rows = mat.shuffle(rows)
  return rows


def run_rank(desc):
  rows = build_matrix(desc)
  cls = [rank_path(len(rows)), 'matrix:' + desc['kind']]
  if desc.get('neg') is not None and rows:
    i = desc['neg'] % len(rows)
    bad = list(rows)
    bad[i] = -(rows[i] or 1)
    _must_raise('binarymatrixrank:no-valueerror:negative-row', util.BinaryMatrixRank, bad,
                rows=len(rows), index=i)
    cls.append('negative-row@' + ('first' if i == 0 else 'last' if i == len(rows) - 1 else 'middle'))
  exp, cols = check_rank(rows, direct=desc.get('direct', True))
  if exp < min(len(rows), cols):
    cls.append('rank-deficient')
  elif rows:
    cls.append('full-rank')
  if any(x == 0 for x in rows):
    cls.append('has-zero-row')
  if len(set(rows)) != len(rows):
    cls.append('has-duplicate-rows')
  if len(rows) in (31, 32, 33, 49, 50, 51, 255, 256, 257, 8191, 8192, 8193):
    cls.append('rows-at-threshold')
  if rows and cols:
    cls.append('shape:' + ('rows>cols' if len(rows) > cols else 'rows<cols' if len(rows) < cols else 'square'))
  return {'nt': len(rows) >= 50, 'cls': cls, 'rank': exp, 'rows': len(rows), 'cols': cols}


_edit = st.tuples(st.sampled_from(['zero', 'dup', 'dep', 'zero-range', 'swap']),
                  st.integers(0, 1 << 16), st.integers(0, 1 << 16)).map(list)


def strat_rank(tier):
  maxr = 300 if tier == 'quick' else 1200
  rows = st.one_of(
      st.integers(0, 70), st.integers(0, maxr),
      st.builds(lambda t, d: t + d, st.sampled_from([32, 50, 64, 128, 256]), st.integers(-2, 2)))
  cols = st.one_of(st.integers(1, 12), st.integers(1, 70), st.integers(1, 300))
  return st.fixed_dictionaries({
      'r': rows, 'c': cols, 'kind': st.sampled_from(_MKINDS), 'k': st.integers(0, 300),
      'm': material, 'edits': st.lists(_edit, min_size=0, max_size=6),
      'shuffle': st.booleans(),
      'neg': st.one_of(st.none(), st.none(), st.none(), st.integers(-2, 1 << 16)),
  })


def enum_rank_shapes(tier):
  """Row counts on both sides of every size condition in BinaryMatrixRank(_Large)."""
  sizes = [0, 1, 2, 3, 4, 7, 8, 15, 16, 31, 32, 33, 48, 49, 50, 51, 52, 63, 64, 65, 127, 128, 129,
           255, 256, 257, 511, 512, 513, 1000]
  big = [4095, 4096, 8191, 8192, 8193, 9000]
  if tier == 'thorough':
    sizes += [2047, 2048, 3000]
    big += [8190, 8194, 10000, 16383, 16384, 16385]
  i = 0
  for r in sizes:
    for kind in ('random', 'lowrank', 'sparse', 'gaps', 'identity', 'late-wide', 'zero'):
      for c in (1, 5, 33, 64, 100, 300):
        i += 1
        if tier == 'quick' and r > 300 and c not in (5, 100, 300):
          continue
        yield {'r': r, 'c': c, 'kind': kind, 'k': (i * 37) % 301, 'm': i, 'shuffle': i % 3 == 0,
               'edits': [['zero', i, 0], ['dup', 3 * i + 1, i + 5], ['dep', 7 * i, 11 * i + 2]][:i % 4],
               'neg': (i * 13) if i % 5 == 0 else None}
  for r in big:
    for kind in ('random', 'lowrank', 'sparse', 'gaps', 'late-wide'):
      for c in ((7, 300) if tier == 'quick' else (1, 7, 64, 300)):
        i += 1
        if tier == 'quick' and kind in ('sparse', 'late-wide') and c == 7:
          continue
        yield {'r': r, 'c': c, 'kind': kind, 'k': (i * 37) % 301, 'm': i, 'shuffle': False,
               'edits': [['zero', i, 0], ['dup', 3 * i + 1, i + 5], ['zero-range', 10, 40]][:i % 4],
               'neg': (i * 13) if i % 4 == 0 else None}


# ------------------------------------------------------------------ arm 7: coverage-guided (optional, thorough only)

_ATHERIS_PY = '/opt/veriftools/pyvenv/bin/python'

# Runs under the tool venv's interpreter (no gmpy2 there: BitCount gets the definition of
# popcount as a stand-in, so this engine says nothing about gmpy2.popcount itself).
_DRIVER = r"""
import os, sys, types
g = types.ModuleType('gmpy2'); g.popcount = lambda s: bin(s).count('1'); sys.modules['gmpy2'] = g
sys.path.insert(0, os.environ.get('VERIF_REPO', '/repo')); sys.path.insert(0, os.environ['C15_VERIF'])
import atheris
with atheris.instrument_imports(include=['paranoid_crypto']):
  from paranoid_crypto.lib.randomness_tests import util
import props.c15 as P
atheris.Setup(sys.argv, P.fuzz_one)
atheris.Fuzz()
"""


def fuzz_one(data):
  """bytes -> one oracle evaluation (pure function of the bytes; used by atheris and by replay)."""
  if len(data) < 4:
    return None
  op, nraw, par, body = data[0] % 4, data[1] | (data[2] << 8), data[3], bytes(data[4:])
  if op == 3:
    c = 1 + par % 40
    blob = int.from_bytes(body, 'little')
    rows = [(blob >> (i * c)) & ((1 << c) - 1) for i in range(len(body) * 8 // c)]
    if nraw & 1:
      rows = rows + [x ^ y for x, y in zip(rows, rows[1:])]     # dependent rows, more of them
    check_rank(rows)
    return 'rank'
  n = min(nraw % 8209, len(body) * 8 + 8)
  v = int.from_bytes(body, 'little') & ((1 << n) - 1)
  if op == 0:
    m, wrap = 1 + par % 18, bool(par & 0x80)
    if m <= n:
      check_freq(v, n, m, wrap)
    else:
      _must_raise('frequencycount:no-valueerror:m>length', util.FrequencyCount, v, n, m, wrap)
      _must_raise('subsequences:no-valueerror:m>length', _subseq, v, n, m, wrap)
    return 'freq'
  b = R.bits_of(v, n)
  if op == 1:
    check_split(v, n, 1 + par % 70, b)
    check_scatter(v, 1 + (par * 7 + nraw) % 70, b)
    return 'split'
  check_simple(v, n, b)
  m = 1 + par % 40
  check_overlapping(v, m, R.overlapping_from_runs(R.run_lengths_of_ones(b), m))
  return 'simple'


def run_atheris(desc):
  if 'bytes' in desc:                       # replay of a stored fuzz input, in this process
    kind = fuzz_one(bytes.fromhex(desc['bytes']))
    return {'nt': False, 'cls': ['atheris:replayed-input:%s' % kind]}
  tmp = None
  try:
    if not os.path.exists(_ATHERIS_PY):
      return {'nt': False, 'cls': ['atheris:unavailable']}
    probe = subprocess.run([_ATHERIS_PY, '-c', 'import atheris'], capture_output=True, timeout=120)
    if probe.returncode != 0:
      return {'nt': False, 'cls': ['atheris:unavailable']}
    tmp = tempfile.mkdtemp(prefix='c15-atheris-')
    env = dict(os.environ, C15_VERIF=os.path.dirname(os.path.dirname(os.path.abspath(__file__))))
    env.pop('PYTHONPATH', None)
    r = subprocess.run(
        [_ATHERIS_PY, '-c', _DRIVER, '-runs=%d' % desc['runs'], '-seed=%d' % desc['seed'],
         '-max_len=1024', '-max_total_time=%d' % desc['seconds'], '-artifact_prefix=' + tmp + '/',
         '-print_final_stats=1'],
        env=env, cwd=tmp, capture_output=True, timeout=desc['seconds'] + 300)
    err = r.stderr.decode('utf-8', 'replace')
    crashes = sorted(glob.glob(os.path.join(tmp, 'crash-*')))
    inputs = [open(c, 'rb').read() for c in crashes]
  except Exception as e:  # pylint: disable=broad-except
    return {'nt': False, 'cls': ['atheris:skipped(%s)' % type(e).__name__]}
  finally:
    if tmp:
      shutil.rmtree(tmp, ignore_errors=True)
  for data in inputs:
    try:
      fuzz_one(data)
    except Violation as v:
      v.detail['replay_desc'] = {'bytes': data.hex()}
      raise
    except Exception:  # pylint: disable=broad-except
      return {'nt': False, 'cls': ['atheris:driver-problem']}
  execs = cov = None
  for line in err.splitlines():
    if 'stat::number_of_executed_units' in line:
      execs = int(line.split()[-1])
    if ' cov: ' in line:
      try:
        cov = int(line.split(' cov: ')[1].split()[0])
      except ValueError:
        pass
  if inputs:
    return {'nt': False, 'cls': ['atheris:crash-not-reproduced-in-process'], 'execs': execs}
  if r.returncode != 0 or not execs:
    return {'nt': False, 'cls': ['atheris:skipped(rc=%d)' % r.returncode]}
  return {'nt': True, 'cls': ['atheris:campaign-completed'], 'execs': execs, 'edges': cov}


def enum_atheris(tier):
  if tier != 'thorough':
    return
  try:
    seed = int(os.environ.get('VERIF_SEED', '1'))
  except ValueError:
    seed = 1
  for k in range(4):
    yield {'seed': 1000 * seed + k + 1, 'runs': 400000, 'seconds': 240}


# ------------------------------------------------------------------ arm: call sequences (state must not leak)

def run_call_sequence(desc):
  """A drawn sequence of primitive calls over a small pool of strings: every result must equal the
  definition whatever was called before (memoisation / shared-buffer defects need a repeat or a
  particular predecessor to show)."""
  mat = Material(desc['m'], 'c15seq')
  pool = []
  for n in desc['lengths']:
    seq = mat.bits(n)
    pool.append((seq, n, R.bits_of(seq, n)))
  repeats = 0
  seen = set()
  for op in desc['ops']:
    kind, pi, a = op
    seq, n, b = pool[pi % len(pool)]
    key = (kind, pi % len(pool), a % 7)
    repeats += key in seen or (kind in ('freq_wrap', 'freq_nowrap') and
                               ((['freq_wrap', 'freq_nowrap'][kind == 'freq_wrap']), key[1], key[2]) in seen)
    seen.add(key)
    if kind in ('freq_wrap', 'freq_nowrap'):
      m = 1 + a % min(7, n)
      check_freq(seq, n, m, kind == 'freq_wrap')
    elif kind == 'split':
      check_split(seq, n, 1 + a % min(70, n), b)
    elif kind == 'scatter':
      check_scatter(seq, 1 + a % 70, R.bits_of(seq, seq.bit_length()))
    elif kind == 'simple':
      check_simple(seq, n, b)
    elif kind == 'overlap':
      m = 1 + a % 9
      check_overlapping(seq, m, R.overlapping_runs_of_ones(R.bits_of(seq, seq.bit_length()), m))
    elif kind == 'rank':
      rows = [mat2 for mat2 in (seq >> (8 * i) & 0xFFFFFF for i in range(1 + a % 40))]
      check_rank(rows, direct=False)
  return {'nt': repeats > 0, 'cls': ['callseq ops=%s' % (len(desc['ops']) if len(desc['ops']) < 4 else '4+')] +
          (['callseq repeated-or-paired-call'] if repeats else [])}


def strat_call_sequence(tier):
  op = st.tuples(st.sampled_from(['freq_wrap', 'freq_nowrap', 'freq_wrap', 'freq_nowrap', 'split', 'scatter',
                                  'simple', 'overlap', 'rank']),
                 st.integers(0, 2), st.integers(0, 6)).map(list)
  return st.fixed_dictionaries({
      'm': material,
      'lengths': st.lists(st.sampled_from([8, 16, 17, 63, 64, 65, 200, 500, 1003, 4000]), min_size=1, max_size=3),
      'ops': st.lists(op, min_size=2, max_size=10)})



ARMS = [
    Arm('call_sequences', run_call_sequence, strategy=strat_call_sequence, quick=6000, thorough=80000,
        budget=(150, 1500)),
    Arm('strings_exhaustive', run_exhaustive, enumerate=enum_exhaustive, exhaustive=True,
        budget=(600, 3000), weight=3.0,
        doc='every (length, value, m, wrap) up to 12/16 bits: all primitives + documented ValueErrors'),
    Arm('matrices_exhaustive', run_rank_tiny, enumerate=enum_rank_tiny, exhaustive=True,
        budget=(600, 3000), weight=2.0,
        doc='every binary matrix with rows*cols <= 12/16: BinaryMatrixRank, small and large path'),
    Arm('freq_long', run_freq_long, strategy=strat_freq_long, quick=6000, thorough=120000,
        budget=(150, 1500), weight=2.5,
        doc='FrequencyCount/SubSequences vs window definition on strings up to 2^16/2^18 bits'),
    Arm('freq_threshold', run_freq_long, enumerate=enum_freq_threshold, exhaustive=False,
        budget=(300, 1500), weight=2.0,
        doc='lengths 50*2^m-2 .. 50*2^m+9 for every m: both sides of the fast-path condition'),
    Arm('split_scatter', run_split, strategy=strat_split, quick=4000, thorough=60000,
        budget=(150, 1500), doc='SplitSequence block sizes 1..70, Scatter 1..70'),
    Arm('split_grid', run_split, enumerate=enum_split_grid, exhaustive=False, budget=(300, 1500),
        doc='every block size and interleaving factor 1..70/130 on fixed lengths'),
    Arm('runs', run_runs, strategy=strat_runs, quick=4000, thorough=60000, budget=(150, 1500),
        doc='Runs/LongestRunOfOnes/OverlappingRunsOfOnes/ReverseBits/Bits/BitCount on run-structured strings'),
    Arm('runs_enum', run_runs, enumerate=enum_runs, exhaustive=False, budget=(300, 1500),
        doc='every longest-run length 1..260/1100'),
    Arm('rank', run_rank, strategy=strat_rank, quick=4000, thorough=40000, budget=(150, 1500),
        doc='BinaryMatrixRank vs basis-insertion rank; zero/duplicate/dependent rows'),
    Arm('rank_shapes', run_rank, enumerate=enum_rank_shapes, exhaustive=False, budget=(400, 2400),
        weight=2.8, doc='row counts around 32/50/256/8192 and up to 9000/16385 rows'),
    Arm('atheris', run_atheris, enumerate=enum_atheris, exhaustive=False, budget=(10, 3000), weight=4.0,
        shards=4, doc='thorough only, optional: 4 coverage-guided campaigns (atheris from /opt/veriftools/'
        'pyvenv) over the same oracles; skipped silently when atheris is not importable'),
]
