"""Deterministic expansion of case descriptors into bulk material.

No RNG outside Hypothesis is consulted: everything bulky (primes, coordinates,
bit strings) is derived from a small integer `material` drawn by Hypothesis,
with SHAKE-256 in counter mode.
"""

import hashlib

import gmpy2 as gmpy
from hypothesis import strategies as st


class Material:
  """A deterministic byte stream derived from (seed, label)."""

  def __init__(self, seed, label=''):
    self._key = ('%d|%s' % (seed, label)).encode()
    self._ctr = 0

  def bytes(self, n):
    self._ctr += 1
    return hashlib.shake_256(self._key + b'|%d' % self._ctr).digest(n)

  def bits(self, k):
    if k <= 0:
      return 0
    v = int.from_bytes(self.bytes((k + 7) // 8), 'big')
    return v >> (-k % 8)

  def below(self, n):
    """Uniform integer in [0, n)."""
    if n <= 1:
      return 0
    k = n.bit_length() + 64
    return self.bits(k) % n

  def between(self, lo, hi):
    """Uniform integer in [lo, hi]."""
    return lo + self.below(hi - lo + 1)

  def choice(self, seq):
    return seq[self.below(len(seq))]

  def shuffle(self, seq):
    seq = list(seq)
    for i in range(len(seq) - 1, 0, -1):
      j = self.below(i + 1)
      seq[i], seq[j] = seq[j], seq[i]
    return seq

  def prime(self, bits, top2=False):
    """A random prime with exactly `bits` bits (bits >= 2)."""
    if bits == 2:
      return 2 + self.below(2)
    while True:
      p = self.bits(bits) | (1 << (bits - 1)) | 1
      if top2:
        p |= 1 << (bits - 2)
      p = int(gmpy.next_prime(p - 1)) if gmpy.is_prime(p) else int(gmpy.next_prime(p))
      if p.bit_length() == bits:
        return p

  def odd(self, bits):
    return self.bits(bits) | (1 << (bits - 1)) | 1

  def bitstring(self, n):
    """n-bit integer (not forced to full length)."""
    return self.bits(n)


material = st.integers(min_value=0, max_value=(1 << 64) - 1)


def semiprime_exact(mat, nbits):
  """n = p*q with independent random primes and n.bit_length() == nbits exactly."""
  half = nbits // 2
  while True:
    p = mat.prime(half, top2=True)
    q = mat.prime(nbits - half, top2=True)
    n = p * q
    if n.bit_length() == nbits and p != q:
      return p, q, n
