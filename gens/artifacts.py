"""Builders and independent readers for the protobuf artifacts."""

import ast

from harness import boot

boot.attach()

from paranoid_crypto import paranoid_pb2  # pylint: disable=g-import-not-at-top


def i2b(v):
  """Minimal big-endian encoding (independent of util.Int2Bytes)."""
  v = int(v)
  if v < 0:
    raise ValueError('negative')
  return v.to_bytes((v.bit_length() + 7) // 8, 'big')


def b2i(b):
  return int.from_bytes(bytes(b), 'big')


def rsa_key(n, e=65537, pad_n=0, pad_e=0):
  k = paranoid_pb2.RSAKey()
  k.rsa_info.n = b'\0' * pad_n + i2b(n)
  k.rsa_info.e = b'\0' * pad_e + i2b(e)
  return k


def ec_key(curve_type, x, y, pad=0):
  k = paranoid_pb2.ECKey()
  k.ec_info.curve_type = curve_type
  k.ec_info.x = b'\0' * pad + i2b(x)
  k.ec_info.y = b'\0' * pad + i2b(y)
  return k


def ecdsa_sig(curve_type, x, y, r, s, h, pad=0):
  g = paranoid_pb2.ECDSASignature()
  g.ecdsa_sig_info.r = b'\0' * pad + i2b(r)
  g.ecdsa_sig_info.s = b'\0' * pad + i2b(s)
  g.ecdsa_sig_info.message_hash = bytes(h)
  g.issuer_key_info.curve_type = curve_type
  g.issuer_key_info.x = i2b(x)
  g.issuer_key_info.y = i2b(y)
  return g


def attached(test_info, name):
  """Raw attached value for `name` or None (independent reader)."""
  vals = [a.value for a in test_info.attached_info if a.info_name == name]
  if not vals:
    return None
  if len(vals) > 1:
    return vals  # duplicates are reported by the caller
  return vals[0]


def factor_set(test_info, name):
  """Parses a factor record independently of util.GetAttachedFactors."""
  v = attached(test_info, name)
  if v is None:
    return None
  if isinstance(v, list):
    raise ValueError('duplicate attached info %s' % name)
  lit = ast.literal_eval(v)
  return {int(x, 16) for x in lit}


def results(test_info):
  """{test_name: [(result, severity), ...]}"""
  out = {}
  for r in test_info.test_results:
    out.setdefault(r.test_name, []).append((bool(r.result), int(r.severity)))
  return out


def entry(test_info, name):
  rs = results(test_info).get(name)
  if not rs:
    return None
  return rs[0]


def snapshot(art):
  """A plain-data snapshot of the annotations of an artifact."""
  ti = art.test_info
  return {
      'weak': bool(ti.weak),
      'version': ti.paranoid_lib_version,
      'results': {k: list(v) for k, v in results(ti).items()},
      'info': {a.info_name: a.value for a in ti.attached_info},
  }
