"""Generators of RSA moduli: healthy, degenerate and every documented weak family.

All functions take a gens.common.Material (deterministic byte stream) and return
plain ints. Nothing here calls the library under test, except where a family is
*defined* by library data (the unseeded-PRNG table, the keypair generator).
"""

import math

import gmpy2 as gmpy

from gens.common import Material


def next_prime(v):
  return int(gmpy.next_prime(int(v)))


def is_prime(v):
  return bool(gmpy.is_prime(int(v), 30))


def rand_prime(mat, bits, top2=True):
  return mat.prime(bits, top2=top2)


def healthy(mat, nbits):
  """n = p*q, independent random primes, n.bit_length() == nbits exactly."""
  half = nbits // 2
  while True:
    p = mat.prime(half, top2=True)
    q = mat.prime(nbits - half, top2=True)
    if p != q and (p * q).bit_length() == nbits:
      return p, q


# ---------------------------------------------------------------- degenerate

DEGENERATE_KINDS = ('prime', 'prime_square', 'even_semiprime', 'even_many', 'pow2', 'pow2m1',
                    'pow2p1', 'three_primes', 'smooth', 'square_composite', 'prime_times_small')


def degenerate(mat, kind, nbits):
  """A modulus >= 2^63 of a degenerate class, about nbits long."""
  nbits = max(64, nbits)
  while True:
    n = _degenerate(mat, kind, nbits)
    if n >= 2**63:
      return n
    nbits += 1


def _degenerate(mat, kind, nbits):
  if kind == 'prime':
    return mat.prime(nbits)
  if kind == 'prime_square':
    p = mat.prime((nbits + 1) // 2, top2=True)
    return p * p
  if kind == 'even_semiprime':
    return 2 * mat.prime(nbits - 1)
  if kind == 'even_many':
    k = 1 + mat.below(min(40, nbits - 8))
    return (mat.odd(nbits - k)) << k
  if kind == 'pow2':
    return 1 << (nbits - 1)
  if kind == 'pow2m1':
    return (1 << nbits) - 1
  if kind == 'pow2p1':
    return (1 << (nbits - 1)) + 1
  if kind == 'three_primes':
    a = nbits // 3
    return mat.prime(a) * mat.prime(a) * mat.prime(nbits - 2 * a)
  if kind == 'smooth':
    n = 1
    while n.bit_length() < nbits:
      n *= mat.prime(2 + mat.below(14))
    return n
  if kind == 'square_composite':
    a = mat.odd((nbits + 1) // 2)
    return a * a
  if kind == 'prime_times_small':
    s = mat.prime(2 + mat.below(20))
    return s * mat.prime(max(2, nbits - s.bit_length()))
  raise ValueError(kind)


# ---------------------------------------------------------------- close primes

def fermat_steps(p, q):
  """Exact number k = (p+q)/2 - ceil(sqrt(n)) for odd p, q."""
  n = p * q
  a = (p + q) // 2
  r = int(gmpy.isqrt(n))
  if r * r < n:
    r += 1
  return a - r


def fermat_close(mat, pbits, target_steps):
  """Primes p < q with about target_steps Fermat steps; returns (p, q, exact_steps)."""
  p = mat.prime(pbits, top2=True)
  d = int(gmpy.isqrt(2 * target_steps * p)) if target_steps > 0 else 1
  q = next_prime(p + 2 * d)
  return p, q, fermat_steps(p, q)


def shared_bits(mat, pbits, r, s):
  """Primes of pbits bits agreeing on (at least) the r lowest and s highest bits.

  The s highest bits include the leading 1 bit. r >= 1, s >= 1, r + s <= pbits - 2.
  """
  assert r >= 1 and s >= 1 and r + s <= pbits - 2
  midbits = pbits - r - s
  while True:
    hi = mat.bits(s) | (1 << (s - 1))
    lo = mat.bits(r) | 1
    p = None
    for _ in range(40000):
      c = (hi << (pbits - s)) | (mat.bits(midbits) << r) | lo
      if is_prime(c):
        if p is None:
          p = c
        elif c != p:
          return p, c


def agree_low(p, q):
  x = p ^ q
  return (x & -x).bit_length() - 1 if x else max(p.bit_length(), q.bit_length())


def agree_high(p, q):
  if p.bit_length() != q.bit_length():
    return 0
  return p.bit_length() - (p ^ q).bit_length()


UPPER_DIFFS = (100, 128, 160, 256, 2, 3)


def small_upper_difference(mat, pbits, which):
  """q = next_prime(p + 2^(L - which)) with L = n.bit_length() // 2, self-consistent.

  Returns (p, q, L) - retried until the L derived from n equals the L used.
  """
  while True:
    p = mat.prime(pbits, top2=True)
    for L in (pbits, pbits - 1, pbits + 1):
      if L - which < 1:
        continue
      q = next_prime(p + (1 << (L - which)))
      n = p * q
      if n.bit_length() // 2 == L:
        return p, q, L


# ---------------------------------------------------------------- patterned primes

def repeat_word(word, w, bits, phase=0):
  reps = (bits + phase) // w + 2
  v = 0
  for _ in range(reps):
    v = (v << w) | word
  v >>= phase
  return v & ((1 << bits) - 1)


def pattern_prime(mat, bits, w, low_dev_bits=32, min_dev=8):
  """Prime repeating a w-bit word except for <= low_dev_bits low-order bits."""
  while True:
    word = mat.bits(w)
    if w == 1:
      word = 1
    if word == 0:
      continue
    phase = mat.below(w)
    base = repeat_word(word, w, bits, phase)
    if base >> (bits - 1) != 1:
      continue  # msb of the pattern must be 1 so that the prime has full length
    dev = mat.between(min_dev, low_dev_bits)
    for _ in range(3000):
      cand = (base >> dev << dev) | mat.bits(dev) | 1
      if is_prime(cand):
        return cand, word, phase, dev


def swap_limbs(v, bits, wsize):
  nl = (bits + wsize - 1) // wsize
  limbs = [(v >> (wsize * i)) & ((1 << wsize) - 1) for i in range(nl)]
  for i in range(0, nl - 1, 2):
    limbs[i], limbs[i + 1] = limbs[i + 1], limbs[i]
  r = 0
  for i, l in enumerate(limbs):
    r |= l << (wsize * i)
  return r & ((1 << bits) - 1)


def permuted_pattern_prime(mat, bits, psize, wsize, low_dev_bits=16):
  while True:
    word = mat.bits(psize)
    if word in (0, (1 << psize) - 1):
      continue
    phase = mat.below(psize)
    base = repeat_word(word, psize, bits, phase)
    sw = swap_limbs(base, bits, wsize)
    if sw >> (bits - 1) != 1:
      continue
    dev = mat.between(8, low_dev_bits)
    for _ in range(3000):
      cand = (sw >> dev << dev) | mat.bits(dev) | 1
      if is_prime(cand):
        return cand, word, phase, dev


def permuted_denominator(psize, wsize):
  return (2**psize - 1) * (2 ** (psize * wsize) + 1) // (2**wsize + 1)


def low_hw_prime(mat, bits, hw):
  while True:
    p = (1 << (bits - 1)) | 1
    while bin(p).count('1') < hw:
      p |= 1 << mat.between(1, bits - 2)
    if is_prime(p):
      return p


# ---------------------------------------------------------------- Pollard p-1

_SIEVE = None


def small_primes(limit=1 << 20):
  global _SIEVE
  if _SIEVE is None or _SIEVE[0] < limit:
    tab = bytearray([1]) * limit
    tab[0:2] = b'\0\0'
    for i in range(2, int(math.isqrt(limit)) + 1):
      if tab[i]:
        tab[i * i::i] = bytearray(len(range(i * i, limit, i)))
    _SIEVE = (limit, [i for i in range(limit) if tab[i]])
  return _SIEVE[1]


_PM = None


def pollard_default_m():
  """The documented default Pollard product, recomputed independently."""
  global _PM
  if _PM is None:
    ps = small_primes(1 << 20)
    m = 1
    vals = []
    for i, p in enumerate(ps):
      if i < 150:
        e = 1
        while p ** (e + 1) <= 2**64:
          e += 1
        vals.append(p**e)
      else:
        vals.append(p)
    # product tree
    while len(vals) > 1:
      vals = [vals[i] * (vals[i + 1] if i + 1 < len(vals) else 1) for i in range(0, len(vals), 2)]
    _PM = vals[0]
  return _PM


def smooth_prime(mat, bits, required=1):
  """Prime p of exactly `bits` bits with p - 1 | pollard_default_m() and required | p - 1.

  `required` must divide pollard_default_m().
  """
  ps = small_primes(1 << 20)
  m = pollard_default_m()
  assert m % required == 0
  base = required if required % 2 == 0 else 2 * required
  while True:
    v = base
    used = set()
    # distinct primes beyond the 150 with higher exponents (exponent 1 in m), not dividing base
    while v.bit_length() < bits - 21:
      p = ps[mat.between(200, len(ps) - 1)]
      if p in used or base % p == 0:
        continue
      used.add(p)
      v *= p
    lo = ((1 << (bits - 1)) // v) + 1
    hi = ((1 << bits) - 1) // v
    cands = [p for p in ps[200:] if lo <= p <= hi and p not in used and base % p]
    for f in mat.shuffle(cands)[:6000]:
      c = v * f + 1
      if c.bit_length() == bits and m % (c - 1) == 0 and is_prime(c):
        return c


def smooth_shared_factor(mat, kind=0):
  """A 2^20-smooth g >= 2^60 with g | pollard_default_m()."""
  ps = small_primes(1 << 20)
  kind = kind % 5
  if kind == 4:
    # a maximal power of one of the 150 first primes (exponent > 1 in m)
    r = ps[mat.between(3, 149)]
    e = 1
    while r ** (e + 1) <= 2**64:
      e += 1
    return r**e if r**e >= 2**60 else r**e * 2**20
  if kind == 1:
    return 2 ** mat.between(60, 63)
  if kind == 2:
    return 3**40
  g = 1 if kind == 0 else 2 ** mat.between(1, 30)
  used = set()
  while g < 2**60:
    p = ps[mat.between(150, len(ps) - 1)]
    if p in used:
      continue
    used.add(p)
    g *= p
  return g


def prime_with_factor(mat, bits, g):
  """Random prime p of exactly `bits` bits with g | p - 1 (p - 1 otherwise random)."""
  step = g if g % 2 == 0 else 2 * g
  lo = ((1 << (bits - 1)) + step - 1) // step
  hi = ((1 << bits) - 2) // step
  assert hi > lo
  while True:
    k = mat.between(lo, hi)
    for _ in range(4000):
      c = step * k + 1
      if c.bit_length() != bits:
        break
      if is_prime(c):
        return c
      k += 1


# ---------------------------------------------------------------- ROCA structure

def crt(residues, moduli):
  x, m = 0, 1
  for r, q in zip(residues, moduli):
    inv = pow(m, -1, q)
    x = x + m * (((r - x) * inv) % q)
    m *= q
  return x % m, m
