"""ECDSA signing with the independent reference arithmetic, and nonce families.

Signing uses refs/ec_ref.py (OpenSSL parameters, textbook arithmetic, OpenSSL scalar
multiplication when available) and an independent RFC 6979 bits2int; nothing here
calls paranoid_crypto's EC code.
"""

from harness import boot

boot.attach()

from paranoid_crypto import paranoid_pb2  # pylint: disable=g-import-not-at-top

from gens import artifacts as art
from refs import ec_ref

C = paranoid_pb2.CurveType

CURVE_NAMES = {
    C.CURVE_SECP192R1: 'secp192r1',
    C.CURVE_SECP224R1: 'secp224r1',
    C.CURVE_SECP256R1: 'secp256r1',
    C.CURVE_SECP384R1: 'secp384r1',
    C.CURVE_SECP521R1: 'secp521r1',
    C.CURVE_SECP256K1: 'secp256k1',
    C.CURVE_BRAINPOOLP256R1: 'brainpoolP256r1',
    C.CURVE_BRAINPOOLP384R1: 'brainpoolP384r1',
    C.CURVE_BRAINPOOLP512R1: 'brainpoolP512r1',
}
PRIME_CURVES = sorted(CURVE_NAMES)
STRONG_CURVES = [c for c in PRIME_CURVES if c != C.CURVE_SECP192R1]   # order >= 224 bits
BINARY_CURVES = list(range(7, 17))


def ref(curve_type):
  return ec_ref.named(CURVE_NAMES[curve_type])


def mul_g(curve_type, k):
  """k*G as (x, y) ints, k in [1, n-1]; OpenSSL when it supports the curve, else reference."""
  name = CURVE_NAMES[curve_type]
  r = ec_ref.openssl_mul_g(name, k)
  if r is None:
    rc = ec_ref.named(name)
    r = rc.mul(rc.g, k)
  return r


def bits2int_z(h, n):
  """RFC 6979 2.3.2 bits2int(h) reduced mod n (independent transcription)."""
  v = int.from_bytes(h, 'big')
  blen = 8 * len(h)
  qlen = n.bit_length()
  if blen > qlen:
    v >>= blen - qlen
  return v % n


def sign(curve_type, d, k, h):
  """Returns (r, s) or None if r == 0 or s == 0 (caller draws another nonce)."""
  rc = ref(curve_type)
  n = rc.n
  R = mul_g(curve_type, k % n) if k % n else None
  if R is None:
    return None
  r = R[0] % n
  if r == 0:
    return None
  z = bits2int_z(h, n)
  s = pow(k, -1, n) * (z + r * d) % n
  if s == 0:
    return None
  return r, s


def verify(curve_type, pub, r, s, h):
  """Textbook ECDSA verification with the reference arithmetic."""
  rc = ref(curve_type)
  n = rc.n
  if not (0 < r < n and 0 < s < n):
    return False
  z = bits2int_z(h, n)
  w = pow(s, -1, n)
  P = rc.add(rc.mul(rc.g, z * w % n), rc.mul(pub, r * w % n))
  return P is not None and P[0] % n == r


class Issuer:
  """A signer on a curve with private key d."""

  def __init__(self, curve_type, d):
    self.curve_type = curve_type
    self.d = d
    self.n = ref(curve_type).n
    self.pub = mul_g(curve_type, d)

  def sig(self, k, h, pad=0):
    rs = sign(self.curve_type, self.d, k, h)
    if rs is None:
      return None
    return art.ecdsa_sig(self.curve_type, self.pub[0], self.pub[1], rs[0], rs[1], h, pad=pad)

  def key(self):
    return art.ec_key(self.curve_type, self.pub[0], self.pub[1])


# ---------------------------------------------------------------- nonce families

def nonces_uniform(mat, n, m):
  return [1 + mat.below(n - 1) for _ in range(m)]


def nonces_msb(mat, n, t, m):
  """Top t bits (of the order length) zero."""
  bits = n.bit_length()
  return [1 + mat.below((1 << (bits - t)) - 1) for _ in range(m)]


def nonces_prefix(mat, n, t, m):
  """Common t-bit prefix."""
  bits = n.bit_length()
  while True:
    pre = mat.bits(t)
    if (pre << (bits - t)) + (1 << (bits - t)) <= n:  # whole block below n
      break
  out = []
  while len(out) < m:
    k = (pre << (bits - t)) | mat.bits(bits - t)
    if 0 < k < n:
      out.append(k)
  return out


def nonces_postfix(mat, n, t, m):
  """Common t-bit suffix."""
  bits = n.bit_length()
  suf = mat.bits(t)
  out = []
  while len(out) < m:
    k = (mat.bits(bits - t) << t) | suf
    if 0 < k < n:
      out.append(k)
  return out


def nonces_generalized(mat, n, t, m, sub):
  """c * k' mod n with k' from one of the three biased families, fixed secret c."""
  c = 2 + mat.below(n - 3)
  base = {'msb': nonces_msb, 'prefix': nonces_prefix, 'postfix': nonces_postfix}[sub](mat, n, t, m)
  out = [c * k % n for k in base]
  return out


def nonces_u2f(mat, n, m):
  """Each of the n/32 bytes repeated four times (order length multiple of 32)."""
  nb = n.bit_length() // 32
  out = []
  while len(out) < m:
    k = 0
    for j in range(nb):
      k |= (mat.bits(8) * 0x01010101) << (32 * j)
    if 0 < k < n:
      out.append(k)
  return out


# GMP's gmp_randinit_lc_2exp_size multiplier table (a; c = 1), transcribed; validated at design
# time against the bias every shipped lcg_constants model declares.
GMP_TABLE = {
    32: 0x29CF535, 33: 0x51F666D, 34: 0xA3D73AD, 35: 0x147E5B85, 36: 0x28F725C5,
    37: 0x51EE3105, 38: 0xA3DD5CDD, 39: 0x147AF833D, 40: 0x28F5DA175,
    56: 0xAA7D735234C0DD, 64: 0xBAECD515DAF0B49D,
    100: 0x292787EBD3329AD7E7575E2FD,
    128: 0x48A74F367FA7B5C8ACBB36901308FA85,
    156: 0x78A7FDDDC43611B527C3F1D760F36E5D7FC7C45,
    196: 0x41BA2E104EE34C66B3520CE706A56498DE6D44721E5E24F5,
    200: 0x4E5A24C38B981EAFE84CD9D0BEC48E83911362C114F30072C5,
    256: 0xAF66BA932AAF58A071FD8F0742A99A0C76982D648509973DB802303128A14CB5,
}


class GmpLc:
  """gmp_randinit_lc_2exp(a, c=1, m2exp) + mpz_urandomb chunking."""

  def __init__(self, m2exp, seed):
    self.m2exp = m2exp
    self.a = GMP_TABLE[m2exp]
    self.state = seed % (1 << m2exp)
    self.h = m2exp // 2

  def chunk(self):
    self.state = (self.state * self.a + 1) % (1 << self.m2exp)
    return self.state >> (self.m2exp - self.h)

  def urandomb(self, nbits):
    r = 0
    pos = 0
    while pos + self.h <= nbits:
      r |= self.chunk() << pos
      pos += self.h
    if pos != nbits:
      r |= (self.chunk() & ((1 << (nbits - pos)) - 1)) << pos
    return r


def nonces_gmp(mat, n, lcg_size, m):
  g = GmpLc(lcg_size, mat.bits(lcg_size))
  out = []
  while len(out) < m:
    k = g.urandomb(n.bit_length()) % n
    if k == 0:
      return None
    out.append(k)
  return out


def random_hash(mat, hlen):
  return mat.bytes(hlen) if hlen else b''
