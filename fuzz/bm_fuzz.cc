// libFuzzer target for property C14.
//
// berlekamp_massey.cc of the working tree is compiled twice into this binary:
//   -Dcc_util=cc_util_clmul -mpclmul -D__CLMUL__   (carry-less multiplication)
//   -Dcc_util=cc_util_plain                         (portable fallback)
// The input decodes to (n, bytes). Both variants must return the length of the
// shortest LFSR computed by the textbook Berlekamp-Massey below (bit-packed,
// written independently of the library), or -1 when n is outside 0..8*size.
//
// Input format (kept in sync with props/c14.py:_fuzz_decode):
//   raw = data[0] | data[1] << 8, bytes = data[2:]
//   raw & 0x8000 : n = raw & 0x7fff            (may exceed 8*len: expect -1)
//   otherwise    : n = raw % (8*len + 1)       (always in range)
#include <cstdint>
#include <cstdio>
#include <cstdlib>
#include <string>
#include <vector>

namespace paranoid_crypto::lib::randomness_tests::cc_util_clmul {
int LfsrLengthStr(const std::string&, int);
}
namespace paranoid_crypto::lib::randomness_tests::cc_util_plain {
int LfsrLengthStr(const std::string&, int);
}

namespace {

typedef std::vector<uint64_t> Bits;

inline uint64_t Get64(const Bits& v, size_t bitoff) {
  size_t w = bitoff >> 6, r = bitoff & 63;
  uint64_t lo = w < v.size() ? v[w] >> r : 0;
  uint64_t hi = (r && w + 1 < v.size()) ? v[w + 1] << (64 - r) : 0;
  return lo | hi;
}

// c ^= b << shift
inline void XorShifted(Bits* c, const Bits& b, size_t shift) {
  size_t ws = shift >> 6, r = shift & 63;
  for (size_t i = 0; i + ws < c->size(); i++) {
    (*c)[i + ws] ^= b[i] << r;
    if (r && i + ws + 1 < c->size()) (*c)[i + ws + 1] ^= b[i] >> (64 - r);
  }
}

// Massey's algorithm. rev holds the sequence reversed: bit j of rev = s_{n-1-j},
// so bit i of (rev >> (n-1-N)) is s_{N-i} and the discrepancy at step N is the
// parity of popcount(C & (rev >> (n-1-N))).
int RefBM(const std::vector<uint8_t>& s) {
  int n = s.size();
  size_t words = (n + 64) / 64 + 1;
  Bits rev(words, 0), c(words, 0), b(words, 0);
  for (int j = 0; j < n; j++) {
    if (s[n - 1 - j]) rev[j >> 6] |= uint64_t{1} << (j & 63);
  }
  c[0] = b[0] = 1;
  int L = 0, m = -1;
  for (int N = 0; N < n; N++) {
    size_t off = n - 1 - N;
    uint64_t acc = 0;
    for (size_t i = 0; i <= (size_t)L / 64; i++) acc ^= c[i] & Get64(rev, off + 64 * i);
    if (__builtin_parityll(acc)) {
      if (2 * L <= N) {
        Bits t(c);
        XorShifted(&c, b, N - m);
        L = N + 1 - L;
        m = N;
        b.swap(t);
      } else {
        XorShifted(&c, b, N - m);
      }
    }
  }
  return L;
}

}  // namespace

extern "C" int LLVMFuzzerTestOneInput(const uint8_t* data, size_t size) {
  if (size < 2) return 0;
  unsigned raw = data[0] | (data[1] << 8);
  size_t len = size - 2;
  std::string seq(reinterpret_cast<const char*>(data + 2), len);
  int n = (raw & 0x8000) ? (int)(raw & 0x7fff) : (int)(raw % (8 * len + 1));
  int a = paranoid_crypto::lib::randomness_tests::cc_util_clmul::LfsrLengthStr(seq, n);
  int b = paranoid_crypto::lib::randomness_tests::cc_util_plain::LfsrLengthStr(seq, n);
  if ((size_t)n > 8 * len) {
    if (a != -1 || b != -1) {
      fprintf(stderr, "MISMATCH out-of-range n=%d len=%zu clmul=%d plain=%d\n", n, len, a, b);
      abort();
    }
    return 0;
  }
  std::vector<uint8_t> bits(n);
  for (int i = 0; i < n; i++) bits[i] = ((uint8_t)seq[i / 8] >> (i % 8)) & 1;
  int r = RefBM(bits);
  if (a != r || b != r) {
    fprintf(stderr, "MISMATCH n=%d clmul=%d plain=%d ref=%d\n", n, a, b, r);
    abort();
  }
  return 0;
}
