#!/venv/bin/python
"""Sensitivity experiments: run a check against deliberately broken copies of /repo.

usage: tools/mutants.py <ID> [--only NAME] [--tests] [--tier quick]

mutants/<ID>.json is a list of {"name", "file", "old", "new"[, "count"]} textual
replacements. For each one a scratch copy of /repo's working tree is made under
/tmp (removed afterwards), the replacement is applied, and `./check <ID>
--no-evidence` is run with VERIF_REPO pointing at the copy. With --tests the
pinned baseline suite is also run in the copy, to confirm that the mutant still
passes the existing tests. Nothing is ever written to /repo.
"""
import argparse
import json
import os
import shutil
import subprocess
import sys
import tempfile
import time

VERIF = os.path.dirname(os.path.dirname(os.path.abspath(__file__)))


def main():
  ap = argparse.ArgumentParser()
  ap.add_argument('prop')
  ap.add_argument('--only', action='append')
  ap.add_argument('--tests', action='store_true')
  ap.add_argument('--tier', default='quick')
  ap.add_argument('--scale', default='1')
  args = ap.parse_args()
  pid = args.prop.upper()
  muts = json.load(open(os.path.join(VERIF, 'mutants', pid + '.json')))
  rows = []
  for m in muts:
    if args.only and m['name'] not in args.only:
      continue
    tmp = tempfile.mkdtemp(prefix='verif-mut-')
    repo = os.path.join(tmp, 'repo')
    try:
      subprocess.run(['rsync', '-a', '--exclude', '.git', '--exclude', '__pycache__',
                      '/repo/', repo + '/'], check=True)
      edits = m.get('edits') or [m]
      ok = True
      for e in edits:
        p = os.path.join(repo, e['file'])
        s = open(p).read()
        if s.count(e['old']) < 1:
          print('MUTANT %s: pattern not found in %s' % (m['name'], e['file']))
          ok = False
          break
        s = s.replace(e['old'], e['new'], e.get('count', 1))
        open(p, 'w').write(s)
      if not ok:
        rows.append((m['name'], 'PATTERN-NOT-FOUND', 0, ''))
        continue
      tests = ''
      if args.tests:
        r = subprocess.run(
            ['/venv/bin/python', '-m', 'pytest', '-q', '-p', 'no:cacheprovider',
             '--timeout=900', '--continue-on-collection-errors', '-n', '8'],
            cwd=repo, capture_output=True, text=True)
        tail = r.stdout.strip().splitlines()[-1] if r.stdout.strip() else ''
        tests = tail
      env = dict(os.environ, VERIF_REPO=repo)
      t0 = time.time()
      r = subprocess.run([os.path.join(VERIF, 'check'), pid, '--no-evidence', '--tier', args.tier,
                          '--scale', args.scale],
                         env=env, capture_output=True, text=True)
      dt = time.time() - t0
      viol = [l for l in r.stdout.splitlines() if l.startswith('VIOLATION')]
      clauses = [l.strip() for l in r.stdout.splitlines() if l.strip().startswith('arm=')]
      status = {0: 'MISSED', 1: 'CAUGHT', 2: 'HARNESS-ERROR'}.get(r.returncode, 'rc=%d' % r.returncode)
      rows.append((m['name'], status, dt, tests))
      print('%-40s %-14s %6.1fs %s' % (m['name'], status, dt, tests))
      for c in clauses[:3]:
        print('      ' + c[:260])
      if r.returncode == 2:
        print(r.stderr[-1500:])
      sys.stdout.flush()
    finally:
      shutil.rmtree(tmp, ignore_errors=True)
  print('\nsummary %s: %d/%d caught' % (pid, sum(1 for r in rows if r[1] == 'CAUGHT'), len(rows)))


if __name__ == '__main__':
  main()
