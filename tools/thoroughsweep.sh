#!/bin/bash
# usage: tools/thoroughsweep.sh [ids...] - thorough tier of each check, one summary block per check
cd "$(dirname "$(readlink -f "$0")")/.." || exit 2
IDS=${@:-C03 C04 C01 C02 C05 C18 C16 C17 C08 C07 C06 C09 C10 C11 C12 C13 C14 C15 C19 C20}
for id in $IDS; do
  out=$(./check $id --tier thorough --no-evidence 2>&1); rc=$?
  echo "== $id rc=$rc"; echo "$out" | grep -E "^$id tier|^  arm|VIOLATION|clause=|HARNESS|KNOWN" | cut -c1-300
done
