#!/venv/bin/python
"""Regenerates MANIFEST.json from the property modules' metadata."""
import importlib, json, os, sys
VERIF = os.path.dirname(os.path.dirname(os.path.abspath(__file__)))
sys.path.insert(0, VERIF)
os.chdir(VERIF)
from harness import boot
boot.attach()
props = [json.loads(l) for l in open('properties.jsonl')]
checks, na = [], []
for p in props:
  pid = p['id']
  path = os.path.join('props', pid.lower() + '.py')
  ready = set(open('tools/ready.txt').read().split())
  if os.path.exists(path) and pid not in ready:
    na.append({'property_id': pid, 'reason': 'check under construction (module exists but is not yet validated on the unchanged tree); nothing is claimed for it yet'})
    continue
  if not os.path.exists(path):
    na.append({'property_id': pid, 'reason': 'check not built yet (planned in DESIGN.md section 4); nothing is claimed for it'})
    continue
  m = importlib.import_module('props.' + pid.lower())
  if getattr(m, 'NOT_CLAIMED', None):
    na.append({'property_id': pid, 'reason': m.NOT_CLAIMED})
    continue
  checks.append({
      'property_id': pid,
      'quick_cmd': './check %s --tier quick' % pid,
      'thorough_cmd': './check %s --tier thorough' % pid,
      'evidence_file': 'evidence/%s.json' % pid,
      'replay_cmd_template': './check %s --replay {path}' % pid,
      'engine': 'hypothesis-pbt',
      'level_claimed': {
          'category': 'exploration',
          'text': getattr(m, 'LEVEL_TEXT', None) or (
              'Exploration by generated-input search: Hypothesis strategies (seeded from VERIF_SEED, 16 shards) and finite '
              'enumerations produce case descriptors, the real library is run on each and an independent oracle judges the '
              'result; the property held on everything explored and nothing is claimed beyond it. '
              + ('Finite sub-domains enumerated completely by the arms: %s. ' % ', '.join(a.name for a in m.ARMS if a.exhaustive)
                 if any(a.exhaustive for a in m.ARMS) else '')
              + 'This is the right level because the property quantifies over inputs/histories for which an executable oracle '
              'exists, while a proof would have to cover gmpy2/fpylll/scipy and heuristic lattice steps. What is explored: '
              + m.RULE[:700]),
          'design_ref': 'DESIGN.md section 4, %s' % pid,
      },
      'level_note': getattr(m, 'LEVEL_NOTE', '; '.join(getattr(m, 'ASSUMPTIONS', []))),
      'technique': getattr(m, 'TECHNIQUE', 'property-based testing (Hypothesis) against a reference model'),
  })
man = {
    'version': 1,
    'setup_cmd': './setup.sh',
    'hooks': {
        'guard': 'PARANOID_CRYPTO_VERIF',
        'enable': 'no source hooks are needed: the checks import /repo\'s working tree directly and regenerate the protobuf / native modules under /verif/build (harness/boot.py)',
        'baseline_off_cmd': 'cd /repo && /venv/bin/python -m pytest -ra -q -p no:cacheprovider --timeout=900 --continue-on-collection-errors',
        'source_commits': [],
        'add_only': True,
    },
    'engines': [
        {'name': 'hypothesis-pbt', 'path': 'harness/', 'serves_properties': [c['property_id'] for c in checks],
         'kind_free_text': 'Hypothesis 6.168 strategies draw JSON case descriptors; a pure run_case(descriptor) expands them (SHAKE-256 for bulk material), calls the real library and evaluates an independent oracle; finite domains are enumerated; 16 forked shards; shrunk descriptor = replay file'},
    ],
    'checks': checks,
    'not_applicable': na,
    'notes': 'fix: commits in /repo and recorded findings are listed in known_findings.json; DESIGN.md explains every oracle. Exit 2 from a check means a harness error, never a violation.',
}
json.dump(man, open('MANIFEST.json', 'w'), indent=1)
print('checks:', [c['property_id'] for c in checks]); print('not claimed:', [n['property_id'] for n in na])
