#!/bin/bash
# Runs upstream's own test modules (which the pinned baseline cannot import)
# through the bootstrap. usage: tools/run_upstream.sh [module ...]
cd "$(dirname "$(readlink -f "$0")")/.." || exit 2
MODS=${@:-paranoid_crypto.lib.ec_util_test paranoid_crypto.lib.cr50_u2f_weakness_test paranoid_crypto.lib.hidden_number_problem_test paranoid_crypto.lib.paranoid_ec_test paranoid_crypto.lib.paranoid_ecdsa_test paranoid_crypto.lib.paranoid_rsa_test paranoid_crypto.lib.paranoid_base_test paranoid_crypto.lib.randomness_tests.berlekamp_massey_test paranoid_crypto.lib.randomness_tests.nist_suite_test paranoid_crypto.lib.randomness_tests.extended_nist_suite_test}
for m in $MODS; do
  echo "== $m"
  PYTHONHASHSEED=0 timeout 3000 /venv/bin/python -c "
import sys; sys.path.insert(0, '.')
from harness import boot
boot.attach()
import unittest, importlib
m = importlib.import_module('$m')
suite = unittest.defaultTestLoader.loadTestsFromModule(m)
r = unittest.TextTestRunner(verbosity=0).run(suite)
" 2>&1 | tail -4
done
