#!/bin/bash
# usage: tools/seedsweep.sh "2 3 4" [ids...]  - runs quick checks at other seeds, prints one line per run
cd "$(dirname "$(readlink -f "$0")")/.." || exit 2
SEEDS=$1; shift
IDS=${@:-C01 C02 C03 C04 C05 C06 C07 C08 C09 C10 C11 C12 C13 C14 C15 C16 C17 C18 C19 C20}
for s in $SEEDS; do for id in $IDS; do
  out=$(VERIF_SEED=$s ./check $id --no-evidence 2>&1); rc=$?
  echo "seed=$s $id rc=$rc $(echo "$out" | grep -E "^$id tier" | head -1)"
  if [ $rc -ne 0 ]; then echo "$out" | grep -E "VIOLATION|clause=|HARNESS" | head -6; fi
done; done
