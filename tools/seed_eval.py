#!/venv/bin/python
"""Evaluates a seeded change produced by an independent sub-agent.

usage: tools/seed_eval.py <ID> <worktree> [--checks C01,C16] [--keep]

1. takes `git diff` of the worktree (the change), DEMO.py and NOTES.md;
2. confirms: pinned suite in the worktree -> 74 passed; DEMO.py on /repo -> exit 0; DEMO.py on the
   worktree -> non-zero;
3. runs ./check <ID> (quick) - and any extra checks given - with VERIF_REPO pointing at the worktree;
4. writes /verif/seeded/<ID>/{patch.diff, DEMO.py, NOTES.md, meta.json}.
"""
import argparse
import json
import os
import re
import shutil
import subprocess
import sys
import time

VERIF = os.path.dirname(os.path.dirname(os.path.abspath(__file__)))


def sh(cmd, **kw):
  return subprocess.run(cmd, capture_output=True, text=True, **kw)


def main():
  ap = argparse.ArgumentParser()
  ap.add_argument('prop')
  ap.add_argument('worktree')
  ap.add_argument('--checks', default='')
  ap.add_argument('--name', default='')
  ap.add_argument('--skip-confirm', action='store_true')
  args = ap.parse_args()
  pid = args.prop.upper()
  wt = os.path.abspath(args.worktree)
  out = os.path.join(VERIF, 'seeded', pid + (('-' + args.name) if args.name else ''))
  os.makedirs(out, exist_ok=True)
  diff = sh(['git', '-C', wt, 'diff', '--', 'paranoid_crypto', 'setup.py']).stdout
  if not diff.strip():
    print('no source change in', wt)
    sys.exit(2)
  open(os.path.join(out, 'patch.diff'), 'w').write(diff)
  for f in ('DEMO.py', 'NOTES.md'):
    if os.path.exists(os.path.join(wt, f)):
      shutil.copy(os.path.join(wt, f), os.path.join(out, f))
  meta = {'property': pid, 'files_changed': re.findall(r'^\+\+\+ b/(.*)$', diff, re.M),
          'lines_changed': sum(1 for l in diff.splitlines() if l[:1] in '+-' and l[:3] not in ('+++', '---'))}
  if not args.skip_confirm:
    r = sh(['/venv/bin/python', '-m', 'pytest', '-q', '-p', 'no:cacheprovider', '--timeout=900',
            '--continue-on-collection-errors', '-n', '8'], cwd=wt)
    tail = (r.stdout.strip().splitlines() or [''])[-1]
    meta['pinned_suite_with_change'] = tail
    r0 = sh(['/venv/bin/python', os.path.join(out, 'DEMO.py'), '/repo'], cwd='/tmp', timeout=3600)
    r1 = sh(['/venv/bin/python', os.path.join(out, 'DEMO.py'), wt], cwd='/tmp', timeout=3600)
    meta['demo_on_repo_exit'] = r0.returncode
    meta['demo_on_change_exit'] = r1.returncode
    meta['demo_on_change_tail'] = (r1.stderr.strip().splitlines() or r1.stdout.strip().splitlines() or [''])[-1][:300]
    meta['confirmed'] = bool(re.search(r'\b74 passed', tail)) and r0.returncode == 0 and r1.returncode != 0
    print('pinned:', tail, '| demo /repo:', r0.returncode, '| demo change:', r1.returncode,
          '| confirmed:', meta['confirmed'])
  checks = [pid] + [c for c in args.checks.split(',') if c and c != pid]
  meta['checks'] = {}
  for c in checks:
    t0 = time.time()
    r = sh([os.path.join(VERIF, 'check'), c, '--no-evidence'], env=dict(os.environ, VERIF_REPO=wt))
    clauses = [l.strip()[:300] for l in r.stdout.splitlines() if l.strip().startswith('arm=')]
    status = {0: 'MISSED', 1: 'CAUGHT', 2: 'HARNESS-ERROR'}.get(r.returncode, 'rc=%d' % r.returncode)
    meta['checks'][c] = {'result': status, 'wall_s': round(time.time() - t0, 1), 'clauses': clauses[:4],
                         'cmd': 'VERIF_REPO=<worktree with patch.diff applied> ./check %s' % c}
    print('check', c, status, '%.0fs' % (time.time() - t0))
    for cl in clauses[:3]:
      print('    ', cl[:240])
    if r.returncode == 2:
      print(r.stderr[-1200:])
  notes = os.path.join(out, 'NOTES.md')
  meta['needs_to_manifest'] = ''
  if os.path.exists(notes):
    txt = open(notes).read()
    meta['needs_to_manifest'] = txt[:1500]
  meta['how_to_apply'] = 'git -C /repo apply /verif/seeded/%s/patch.diff; run ./check; git -C /repo checkout -- .' % os.path.basename(out)
  json.dump(meta, open(os.path.join(out, 'meta.json'), 'w'), indent=1)


if __name__ == '__main__':
  main()
