"""ECDSA verification by OpenSSL, used as a self-check of the harness' own signatures.

Nothing here imports paranoid_crypto. Two independent routes:

* `verify_prehashed` - `cryptography` (its bundled OpenSSL) with `Prehashed`; only the
  standard digest lengths 20/28/32/48/64 bytes are accepted by that API.
* `verify_raw` - the system libcrypto through ctypes, `ECDSA_verify(dgst, dgst_len, ...)`,
  which takes a digest of ANY byte length (0, 1, ..., 66, 200) and truncates it to the
  order length itself (ecdsa_ossl.c: keep the first ceil(qlen/8) bytes, then shift right by
  8 - qlen % 8 bits). That is an implementation of the "leftmost qlen bits" rule that is
  independent of the transcription in gens/ecdsa_gen.bits2int_z.

Both return True/False, or None when the route is unavailable (library missing, curve or
length unsupported); None is never an error.
"""

import ctypes
import ctypes.util

OPENSSL_NAMES = {
    'secp192r1': 'prime192v1', 'secp224r1': 'secp224r1', 'secp256r1': 'prime256v1',
    'secp384r1': 'secp384r1', 'secp521r1': 'secp521r1', 'secp256k1': 'secp256k1',
    'brainpoolP256r1': 'brainpoolP256r1', 'brainpoolP384r1': 'brainpoolP384r1',
    'brainpoolP512r1': 'brainpoolP512r1',
}
CRYPTOGRAPHY_CLASSES = {
    'secp192r1': 'SECP192R1', 'secp224r1': 'SECP224R1', 'secp256r1': 'SECP256R1',
    'secp384r1': 'SECP384R1', 'secp521r1': 'SECP521R1', 'secp256k1': 'SECP256K1',
    'brainpoolP256r1': 'BrainpoolP256R1', 'brainpoolP384r1': 'BrainpoolP384R1',
    'brainpoolP512r1': 'BrainpoolP512R1',
}
_PREHASH = {20: 'SHA1', 28: 'SHA224', 32: 'SHA256', 48: 'SHA384', 64: 'SHA512'}


def der(r, s):
  """DER SEQUENCE { INTEGER r, INTEGER s } (hand written, minimal two's complement)."""
  def integer(v):
    b = v.to_bytes(v.bit_length() // 8 + 1, 'big')   # always a leading sign bit 0
    return b'\x02' + length(len(b)) + b
  def length(n):
    if n < 128:
      return bytes([n])
    lb = n.to_bytes((n.bit_length() + 7) // 8, 'big')
    return bytes([0x80 | len(lb)]) + lb
  body = integer(r) + integer(s)
  return b'\x30' + length(len(body)) + body


def verify_prehashed(name, pub, r, s, digest):
  if len(digest) not in _PREHASH:
    return None
  try:
    from cryptography.exceptions import InvalidSignature  # pylint: disable=g-import-not-at-top
    from cryptography.hazmat.primitives import hashes  # pylint: disable=g-import-not-at-top
    from cryptography.hazmat.primitives.asymmetric import ec, utils  # pylint: disable=g-import-not-at-top,g-multiple-import
  except ImportError:
    return None
  try:
    curve = getattr(ec, CRYPTOGRAPHY_CLASSES[name])()
    key = ec.EllipticCurvePublicNumbers(int(pub[0]), int(pub[1]), curve).public_key()
    alg = ec.ECDSA(utils.Prehashed(getattr(hashes, _PREHASH[len(digest)])()))
  except Exception:  # unsupported curve / hash in this build  pylint: disable=broad-except
    return None
  try:
    key.verify(der(r, s), bytes(digest), alg)
    return True
  except InvalidSignature:
    return False
  except Exception:  # e.g. UnsupportedAlgorithm  pylint: disable=broad-except
    return None


_lib = None
_lib_tried = False


def _libcrypto():
  global _lib, _lib_tried
  if _lib_tried:
    return _lib
  _lib_tried = True
  for cand in ('libcrypto.so.3', ctypes.util.find_library('crypto'), 'libcrypto.so.1.1'):
    if not cand:
      continue
    try:
      lib = ctypes.CDLL(cand)
      lib.OBJ_txt2nid.argtypes = [ctypes.c_char_p]
      lib.OBJ_txt2nid.restype = ctypes.c_int
      lib.EC_KEY_new_by_curve_name.restype = ctypes.c_void_p
      lib.EC_KEY_new_by_curve_name.argtypes = [ctypes.c_int]
      lib.EC_KEY_free.argtypes = [ctypes.c_void_p]
      lib.EC_KEY_free.restype = None
      lib.BN_bin2bn.restype = ctypes.c_void_p
      lib.BN_bin2bn.argtypes = [ctypes.c_char_p, ctypes.c_int, ctypes.c_void_p]
      lib.BN_free.argtypes = [ctypes.c_void_p]
      lib.BN_free.restype = None
      lib.EC_KEY_set_public_key_affine_coordinates.argtypes = [ctypes.c_void_p] * 3
      lib.EC_KEY_set_public_key_affine_coordinates.restype = ctypes.c_int
      lib.ECDSA_verify.argtypes = [ctypes.c_int, ctypes.c_char_p, ctypes.c_int,
                                   ctypes.c_char_p, ctypes.c_int, ctypes.c_void_p]
      lib.ECDSA_verify.restype = ctypes.c_int
      lib.ERR_clear_error.restype = None
      _lib = lib
      break
    except (OSError, AttributeError):
      continue
  return _lib


def _bn(lib, v):
  b = int(v).to_bytes((int(v).bit_length() + 7) // 8 or 1, 'big')
  return lib.BN_bin2bn(b, len(b), None)


def verify_raw(name, pub, r, s, digest):
  lib = _libcrypto()
  if lib is None:
    return None
  nid = lib.OBJ_txt2nid(OPENSSL_NAMES[name].encode())
  if nid <= 0:
    return None
  key = lib.EC_KEY_new_by_curve_name(nid)
  if not key:
    lib.ERR_clear_error()
    return None
  x = y = None
  try:
    x, y = _bn(lib, pub[0]), _bn(lib, pub[1])
    if lib.EC_KEY_set_public_key_affine_coordinates(key, x, y) != 1:
      lib.ERR_clear_error()
      return None
    sig = der(r, s)
    digest = bytes(digest)
    rc = lib.ECDSA_verify(0, digest, len(digest), sig, len(sig), key)
    if rc < 0:
      lib.ERR_clear_error()
      return None
    return rc == 1
  finally:
    if x:
      lib.BN_free(x)
    if y:
      lib.BN_free(y)
    lib.EC_KEY_free(key)
