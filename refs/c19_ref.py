"""Independent reference implementations for C19 (must not import paranoid_crypto).

Everything here is the textbook definition evaluated the slow way: brute force
over residues, trial division, exact rational arithmetic (fractions), mpmath at
60 digits for the special functions.
"""

import functools
import itertools
import math
from fractions import Fraction

import mpmath


# ---------------------------------------------------------------- 2-adic helpers

@functools.lru_cache(maxsize=None)
def sqrt_table(k):
  """residue r mod 2^k -> sorted list of all x in [0, 2^k) with x*x = r (mod 2^k)."""
  mod = 1 << k
  tab = {}
  for x in range(mod):
    tab.setdefault(x * x % mod, []).append(x)
  return tab


def brute_inverse(n, k):
  """All a in [0, 2^k) with a*n = 1 (mod 2^k), by trying every a."""
  mod = 1 << k
  return [a for a in range(mod) if (a * n - 1) % mod == 0]


def brute_invsqrt_exists(n, k):
  mod = 1 << k
  return any((a * a * n - 1) % mod == 0 for a in range(mod))


def invsqrt_solvable(n, k):
  """Criterion for odd/even n: a^2 * n = 1 (mod 2^k) solvable."""
  if k == 0:
    return True
  if n % 2 == 0:
    return False
  if k == 1:
    return True
  if k == 2:
    return n % 4 == 1
  return n % 8 == 1


# ---------------------------------------------------------------- continued fractions

def cf_coefficients(a, b):
  """Continued-fraction coefficients of a/b (b > 0) via Fraction floor arithmetic."""
  x = Fraction(a, b)
  out = []
  while True:
    q = math.floor(x)
    out.append(q)
    x -= q
    if x == 0:
      return out
    x = 1 / x


def cf_eval(coeffs):
  """Value of the finite continued fraction [q0; q1, ..., qi], evaluated bottom-up."""
  v = Fraction(coeffs[-1])
  for q in reversed(coeffs[:-1]):
    v = q + 1 / v
  return v


# ---------------------------------------------------------------- primes

@functools.lru_cache(maxsize=None)
def primes_below(n):
  """Primes < n by trial division with the primes found so far."""
  ps = []
  for c in range(2, n):
    is_p = True
    for p in ps:
      if p * p > c:
        break
      if c % p == 0:
        is_p = False
        break
    if is_p:
      ps.append(c)
  return ps


# ---------------------------------------------------------------- exact linear algebra

def mat_rank(a):
  a = [[Fraction(v) for v in row] for row in a]
  rank = 0
  nrows = len(a)
  ncols = len(a[0]) if a else 0
  for c in range(ncols):
    piv = None
    for r in range(rank, nrows):
      if a[r][c] != 0:
        piv = r
        break
    if piv is None:
      continue
    a[rank], a[piv] = a[piv], a[rank]
    for r in range(rank + 1, nrows):
      if a[r][c] != 0:
        f = a[r][c] / a[rank][c]
        a[r] = [x - f * y for x, y in zip(a[r], a[rank])]
    rank += 1
  return rank


def mat_det(a):
  a = [[Fraction(v) for v in row] for row in a]
  n = len(a)
  det = Fraction(1)
  for c in range(n):
    piv = None
    for r in range(c, n):
      if a[r][c] != 0:
        piv = r
        break
    if piv is None:
      return Fraction(0)
    if piv != c:
      a[c], a[piv] = a[piv], a[c]
      det = -det
    det *= a[c][c]
    for r in range(c + 1, n):
      if a[r][c] != 0:
        f = a[r][c] / a[c][c]
        a[r] = [x - f * y for x, y in zip(a[r], a[c])]
  return det


def solve_rows_in_lattice(rows, basis):
  """For a square non-singular integer `basis`: coefficients U with rows = U * basis.

  Returns the list of coefficient vectors (Fractions), by Gauss-Jordan on basis^T.
  """
  n = len(basis)
  # solve basis^T * u = row^T for each row: augment with all rows at once
  aug = [[Fraction(basis[j][i]) for j in range(n)] + [Fraction(r[i]) for r in rows]
         for i in range(n)]
  for c in range(n):
    piv = None
    for r in range(c, n):
      if aug[r][c] != 0:
        piv = r
        break
    if piv is None:
      raise ValueError('singular basis')
    aug[c], aug[piv] = aug[piv], aug[c]
    pv = aug[c][c]
    aug[c] = [x / pv for x in aug[c]]
    for r in range(n):
      if r != c and aug[r][c] != 0:
        f = aug[r][c]
        aug[r] = [x - f * y for x, y in zip(aug[r], aug[c])]
  return [[aug[i][n + k] for i in range(n)] for k in range(len(rows))]


# ---------------------------------------------------------------- pseudo average

def pseudo_average_candidates(a, n):
  """Brute force over all 2^m selections b[i] in {a[i], a[i] + n}.

  Returns (set of admissible results, number of variance-minimising selections,
  True when some minimising selection shifts a proper non-empty subset).
  A result is admissible when it is an integer within 1/2 of the mean of some
  variance-minimising selection, reduced modulo n (both roundings of a tie).
  """
  m = len(a)
  best = None
  sums = []
  for sel in itertools.product((0, 1), repeat=m):
    b = [x + n * s for x, s in zip(a, sel)]
    sb = sum(b)
    # m^2 * variance (population) = m * sum(b^2) - (sum b)^2, exact integer
    var = m * sum(x * x for x in b) - sb * sb
    if best is None or var < best:
      best = var
      sums = [(sb, sum(sel))]
    elif var == best:
      sums.append((sb, sum(sel)))
  out = set()
  for sb, _ in sums:
    lo = -((-(2 * sb - m)) // (2 * m))      # ceil((2 sb - m) / 2m) = ceil(mean - 1/2)
    hi = (2 * sb + m) // (2 * m)            # floor(mean + 1/2)
    for r in range(lo, hi + 1):
      out.add(r % n)
  wraps = all(0 < cnt < m for _, cnt in sums)
  return out, len(sums), wraps


# ---------------------------------------------------------------- distributions

def irwin_hall_cdf(n, x):
  """P(U1 + ... + Un <= x) exactly, x a Fraction (or anything Fraction() accepts)."""
  x = Fraction(x)
  if x <= 0:
    return Fraction(0)
  if x >= n:
    return Fraction(1)
  s = Fraction(0)
  for k in range(math.floor(x) + 1):
    s += (-1) ** k * math.comb(n, k) * (x - k) ** n
  return s / math.factorial(n)


def binomial_cdf_half(k, m):
  """P(at most k heads in m fair coin tosses), exact."""
  if k < 0:
    return Fraction(0)
  if k >= m:
    return Fraction(1)
  total = 0
  c = 1                       # C(m, 0)
  for i in range(k + 1):
    total += c
    c = c * (m - i) // (i + 1)
  return Fraction(total, 1 << m)


def mp_igamc(a, x, dps=420):
  """Regularised upper incomplete gamma Q(a, x) = 1 - P(a, x), a > 0, x >= 0.

  P by its everywhere-convergent series
    P(a, x) = exp(-x) x^a / Gamma(a + 1) * sum_{n >= 0} x^n / ((a + 1) ... (a + n))
  at 420 digits, so that the subtraction 1 - P keeps > 100 correct digits for
  every Q >= 1e-300 (mpmath.gammainc itself fails to converge for large a, x).
  """
  with mpmath.workdps(dps):
    a = mpmath.mpf(a)
    x = mpmath.mpf(x)
    if x == 0:
      return mpmath.mpf(1)
    term = mpmath.mpf(1)
    acc = mpmath.mpf(1)
    n = 0
    eps = mpmath.mpf(10) ** (-dps)
    while True:
      n += 1
      term = term * x / (a + n)
      acc += term
      if n > x and term < eps * acc:
        break
    pref = mpmath.exp(-x + a * mpmath.log(x) - mpmath.loggamma(a + 1))
    return 1 - pref * acc


def mp_normal_cdf(x, mean, variance, dps=60):
  with mpmath.workdps(dps):
    z = (mpmath.mpf(x) - mpmath.mpf(mean)) / mpmath.sqrt(2 * mpmath.mpf(variance))
    return mpmath.erfc(-z) / 2


def mp_fisher(pvalues, dps=60):
  """Fisher's combination: P(-sum log U_i >= -sum log p_i) = Q(k, s)."""
  with mpmath.workdps(dps):
    s = mpmath.mpf(0)
    for p in pvalues:
      s -= mpmath.log(mpmath.mpf(p))
    k = len(pvalues)
    # closed form for integer k: exp(-s) * sum_{j<k} s^j / j!
    t = mpmath.mpf(1)
    acc = mpmath.mpf(1)
    for j in range(1, k):
      t = t * s / j
      acc += t
    return mpmath.exp(-s) * acc
