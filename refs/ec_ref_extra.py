"""Extra reference helpers for C11 (nothing here imports paranoid_crypto).

* Jacobian representatives (l^2 x, l^3 y, l) of affine points and the textbook
  back-conversion, all representations (l^2, l^3, 0) of the point at infinity
* prime-order toy curves with a prescribed coefficient a (e.g. a = 0 like secp256k1)
* the comb geometry a width-8 comb multiplication uses for an order of a given bit length
* independent primality test (trial division + Miller-Rabin with fixed bases + sympy's BPSW)
"""

from refs import ec_ref


def jac_rep(P, lam, p, kx=0, ky=0, kz=0):
  """Jacobian representative of the affine point P (None = infinity).

  lam must be non-zero mod p. kx, ky, kz add multiples of p to the coordinates
  (unreduced representatives); for infinity kz is ignored (z must be the integer 0).
  """
  lam %= p
  assert lam != 0
  if P is None:
    return (lam * lam % p + kx * p, lam * lam * lam % p + ky * p, 0)
  x, y = P
  return (lam * lam * x % p + kx * p, lam * lam * lam * y % p + ky * p, lam + kz * p)


def jac_to_affine(J, p):
  """Textbook conversion (x/z^2, y/z^3); None for z == 0 (mod p).

  Returns the string 'zero' for the all-zero triple, which represents no point.
  """
  x, y, z = (int(v) % p for v in J)
  if z == 0:
    if x == 0 and y == 0:
      return 'zero'
    return None
  w = pow(z, -1, p)
  return (x * w * w % p, y * w * w * w % p)


def find_toy_curves_with_a(primes, a_of_p, per_prime=1):
  """Prime-order curves y^2 = x^3 + a_of_p(p) x + b over GF(p), smallest b first."""
  out = []
  for p in primes:
    a = a_of_p(p) % p
    found = 0
    for b in range(1, p):
      if (4 * a * a * a + 27 * b * b) % p == 0:
        continue
      pts = ec_ref.toy_points(p, a, b)
      n = len(pts) + 1
      if n < 7 or not ec_ref._is_prime(n):  # pylint: disable=protected-access
        continue
      out.append({'p': p, 'a': a, 'b': b, 'gx': pts[0][0], 'gy': pts[0][1], 'n': n})
      found += 1
      if found >= per_prime:
        break
  return out


def small_primes(lo, hi):
  return [q for q in range(max(lo, 2), hi + 1) if ec_ref._is_prime(q)]  # pylint: disable=protected-access


def comb(nbits, window=8):
  """(steps, teeth positions) of a comb with `window` teeth covering nbits bits."""
  steps = -(-nbits // window)
  teeth = list(range(0, nbits, steps))
  return steps, teeth


_MR_BASES = (2, 3, 5, 7, 11, 13, 17, 19, 23, 29, 31, 37, 41, 43, 47, 53, 59, 61, 67, 71)


def is_prime(n):
  """Trial division, 20 fixed-base Miller-Rabin rounds, and sympy's isprime must agree."""
  n = int(n)
  if n < 2:
    return False
  for q in _MR_BASES:
    if n % q == 0:
      return n == q
  d, s = n - 1, 0
  while d % 2 == 0:
    d //= 2
    s += 1
  for a in _MR_BASES:
    x = pow(a, d, n)
    if x in (1, n - 1):
      continue
    for _ in range(s - 1):
      x = x * x % n
      if x == n - 1:
        break
    else:
      return False
  import sympy  # pylint: disable=g-import-not-at-top
  return bool(sympy.isprime(n))
