"""One-line definitions of the bit-sequence primitives on Python bit lists.

Independent reference for C15. Nothing here imports paranoid_crypto and nothing
is optimised: every function is the mathematical definition written down on a
list `b` of 0/1 with b[i] = bit i of the integer (i = 0 is the least
significant bit, which is where the library says a sequence starts).

Conventions (taken from the docstrings of randomness_tests/util.py):
* a bit string is a pair (seq, length) with 0 <= seq < 2**length;
* the m-bit pattern that starts at position i has bit b[i + t] at position t;
  with wrap-around the index is taken modulo length ("k least significant bits
  followed by m - k most significant bits" of seq);
* blocks and interleaved strings are numbered from the least significant end.

Two spellings exist for the pattern counts: `window_list` (bit lists, the
definition) and `window_counter` (slices of the binary expansion written
twice, usable for 2**16-bit strings). The property module cross-checks them on
the exhaustive range; a disagreement there is a harness error, not a violation.
"""

import collections


def bits_of(seq, length):
  """b[i] = bit i of seq, for i < length."""
  if length == 0:
    return []
  s = format(seq, 'b')
  if len(s) > length or seq < 0:
    raise ValueError('not a %d-bit string' % length)
  return [1 if c == '1' else 0 for c in reversed(s.rjust(length, '0'))]


def value(b):
  """The integer whose binary expansion, read from the least significant end, is b."""
  return int(''.join('1' if x else '0' for x in reversed(b)) or '0', 2)


# ---- m-bit patterns

def window_list(b, m, wrap):
  """All m-bit patterns of b as a list of integers (one per start position)."""
  n = len(b)
  starts = range(n) if wrap else range(n - m + 1)
  return [sum(b[(i + t) % n] << t for t in range(m)) for i in starts]


def window_counter(seq, length, m, wrap):
  """Counter of the m-bit patterns; slices of the binary expansion.

  The patterns of the cyclic string are the first `length` m-bit windows of
  the 2*length-bit string seq||seq.
  """
  s = format(seq, 'b').rjust(length, '0')
  if wrap:
    t = s + s
    n = 2 * length
    return collections.Counter(t[n - m - i:n - i] for i in range(length))
  return collections.Counter(s[length - m - i:length - i] for i in range(length - m + 1))


def counts_from_counter(counter, m):
  res = [0] * (1 << m)
  for k, v in counter.items():
    res[int(k, 2)] += v
  return res


def counts_from_list(windows, m):
  res = [0] * (1 << m)
  for w in windows:
    res[w] += 1
  return res


# ---- splitting

def split(b, m):
  """Non-overlapping m-bit blocks, least significant first, incomplete block dropped."""
  return [value(b[i * m:(i + 1) * m]) for i in range(len(b) // m)]


def scatter(b, m):
  """m interleaved strings: string i holds bits i, i + m, i + 2m, ..."""
  return [value(b[i::m]) for i in range(m)]


# ---- runs

def runs(b):
  """Number of maximal blocks of equal bits."""
  return 0 if not b else 1 + sum(1 for i in range(len(b) - 1) if b[i] != b[i + 1])


def longest_run_of_ones(b):
  return max((len(r) for r in ''.join(map(str, b)).split('0')), default=0)


def overlapping_runs_of_ones(b, m):
  """Number of positions i with b[i] = ... = b[i + m - 1] = 1."""
  return sum(1 for i in range(len(b) - m + 1) if all(b[i:i + m]))


def run_lengths_of_ones(b):
  return [len(r) for r in ''.join(map(str, b)).split('0') if r]


def overlapping_from_runs(run_lengths, m):
  """Same count from the run lengths: a run of r ones contains max(0, r - m + 1) starts."""
  return sum(r - m + 1 for r in run_lengths if r >= m)


# ---- simple maps

def reverse(b):
  return value(b[::-1])


def plus_minus_one(b):
  return [2 * x - 1 for x in b]


def popcount(b):
  return sum(b)


# ---- rank over GF(2)

def rank_basis(rows):
  """Rank by inserting every row into a basis indexed by leading bit."""
  basis = {}
  for r in rows:
    while r:
      h = r.bit_length()
      p = basis.get(h)
      if p is None:
        basis[h] = r
        break
      r ^= p
  return len(basis)


def rank_columns(rows, cols):
  """Rank by textbook Gauss-Jordan on a 0/1 list-of-lists (column by column)."""
  a = [[(r >> j) & 1 for j in range(cols)] for r in rows]
  rank = 0
  for j in range(cols):
    piv = next((i for i in range(rank, len(a)) if a[i][j]), None)
    if piv is None:
      continue
    a[rank], a[piv] = a[piv], a[rank]
    for i in range(len(a)):
      if i != rank and a[i][j]:
        a[i] = [x ^ y for x, y in zip(a[i], a[rank])]
    rank += 1
  return rank
