"""Independent references for the linear complexity of binary sequences.

Nothing here imports paranoid_crypto. Bit order convention used throughout:
a sequence s_0 .. s_{n-1} is either a list of bits or the integer
sum(s_i << i) together with its length n.

Reference 1  lc_definition   - the definition: least L such that coefficients
                               c_1..c_L with s_j = sum_i c_i s_{j-i} (L <= j < n)
                               exist; decided by Gaussian elimination over GF(2).
                               No Berlekamp-Massey involved. Exponential use only
                               for tiny n (validation of reference 2).
Reference 2  bm_list         - textbook Berlekamp-Massey (Massey 1969) on bit lists.
             bm_int          - the same algorithm with the polynomials C, B held as
                               Python integers (fast enough for 2^17 bits); also
                               returns the positions of the length changes.
             OnlineBM        - the same algorithm fed bit by bit; predict() gives
                               the bit that causes no discrepancy, which is what
                               the generators use to *construct* sequences with a
                               prescribed discrepancy schedule.
Counting     true_counts     - number of n-bit sequences of each linear complexity
                               by dynamic programming over the Berlekamp-Massey
                               length-change rule (exact integers).
             brute_histogram - the same numbers by enumerating all 2^n sequences
                               (depth-first over OnlineBM states).
"""


def bits_of(s, n):
  return [(s >> i) & 1 for i in range(n)]


def int_of(bits):
  v = 0
  for i, b in enumerate(bits):
    if b:
      v |= 1 << i
  return v


# ------------------------------------------------------------------ reference 1

def _solvable(bits, L):
  """Is there an LFSR of length L generating bits? (Gaussian elimination)."""
  n = len(bits)
  rows = []
  for j in range(L, n):
    row = 0
    for i in range(1, L + 1):
      if bits[j - i]:
        row |= 1 << (i - 1)
    if bits[j]:
      row |= 1 << L           # augmented column
    rows.append(row)
  for col in range(L):
    piv = None
    for idx, r in enumerate(rows):
      if (r >> col) & 1:
        piv = idx
        break
    if piv is None:
      continue
    p = rows.pop(piv)
    rows = [r ^ p if (r >> col) & 1 else r for r in rows]
  # every remaining row has zero coefficients; consistent iff no rhs is 1
  return all(r == 0 for r in rows)


def lc_definition(bits):
  """Linear complexity straight from the definition."""
  for L in range(len(bits) + 1):
    if _solvable(bits, L):
      return L
  raise AssertionError('an LFSR of length n always exists')


# ------------------------------------------------------------------ reference 2

def bm_list(bits):
  """Textbook Berlekamp-Massey over GF(2); returns the LFSR length."""
  n = len(bits)
  c = [0] * (n + 2)
  b = [0] * (n + 2)
  c[0] = b[0] = 1
  L, m = 0, -1
  for N in range(n):
    d = bits[N]
    for i in range(1, L + 1):
      d ^= c[i] & bits[N - i]
    if d:
      t = list(c)
      shift = N - m
      for i in range(n + 2 - shift):
        c[i + shift] ^= b[i]
      if 2 * L <= N:
        L, m, b = N + 1 - L, N, t
  return L


def _reverse_bits(s, n):
  if n == 0:
    return 0
  return int(format(s & ((1 << n) - 1), '0%db' % n)[::-1], 2)


def bm_int(s, n, profile=False):
  """Berlekamp-Massey with integer polynomials.

  Returns L, or (L, changes, disc63) when profile is set: `changes` lists the
  positions N at which the length changed (processing bit s_N), `disc63` the set
  of positions N = 63 mod 64 with a non-zero discrepancy.
  """
  # R: bit j of R is s_{n-1-j}; then (R >> (n-1-N)) has s_{N-i} at bit i.
  R = _reverse_bits(s, n)
  C = B = 1
  L, m = 0, -1
  changes = []
  disc63 = set()
  for N in range(n):
    w = R >> (n - 1 - N)
    if (C & w).bit_count() & 1:
      if profile and (N & 63) == 63:
        disc63.add(N)
      if 2 * L <= N:
        C, B = C ^ (B << (N - m)), C
        L, m = N + 1 - L, N
        if profile:
          changes.append(N)
      else:
        C ^= B << (N - m)
  if profile:
    return L, changes, disc63
  return L


class OnlineBM:
  """Berlekamp-Massey fed one bit at a time."""

  __slots__ = ('C', 'B', 'L', 'm', 'N', 'W')

  def __init__(self):
    self.C = self.B = 1
    self.L, self.m, self.N = 0, -1, 0
    self.W = 0      # bit i of W is s_{N-1-i}

  def copy(self):
    o = OnlineBM.__new__(OnlineBM)
    o.C, o.B, o.L, o.m, o.N, o.W = self.C, self.B, self.L, self.m, self.N, self.W
    return o

  def predict(self):
    """The value of s_N for which the current LFSR needs no change."""
    return ((self.C >> 1) & self.W).bit_count() & 1

  def push(self, bit):
    """Appends a bit; returns True iff it caused a discrepancy."""
    d = bit ^ self.predict()
    N = self.N
    if d:
      if 2 * self.L <= N:
        self.C, self.B = self.C ^ (self.B << (N - self.m)), self.C
        self.L, self.m = N + 1 - self.L, N
      else:
        self.C ^= self.B << (N - self.m)
    self.W = (self.W << 1) | bit
    self.N = N + 1
    return bool(d)


def from_discrepancies(n, disc_positions):
  """The unique n-bit sequence whose discrepancies occur exactly at the positions.

  Returns (s, L_expected) where L_expected follows from the schedule alone by
  the length-change rule (L <- N + 1 - L when 2L <= N at a discrepancy).
  """
  dset = set(p for p in disc_positions if 0 <= p < n)
  bm = OnlineBM()
  s = 0
  L = 0
  for N in range(n):
    bit = bm.predict()
    if N in dset:
      bit ^= 1
      if 2 * L <= N:
        L = N + 1 - L
    if bit:
      s |= 1 << N
    bm.push(bit)
  if bm.L != L:
    raise AssertionError('OnlineBM disagrees with the discrepancy schedule')
  return s, L


def lfsr_bits(taps, state, degree, n):
  """n output bits of the LFSR s_j = XOR_{i in taps} s_{j-i}, 1 <= i <= degree.

  `taps` is an integer with bit i-1 set for coefficient c_i; `state` holds the
  first `degree` output bits (bit j = s_j). Returns the sequence as an integer.
  """
  if degree == 0:
    return 0
  mask = (1 << degree) - 1
  s = state & mask
  if n <= degree:
    return s & ((1 << n) - 1)
  # window: bit i-1 = s_{j-i}  (most recent bit at bit 0)
  win = _reverse_bits(s, degree)
  taps &= mask
  out = s
  for j in range(degree, n):
    b = (win & taps).bit_count() & 1
    if b:
      out |= 1 << j
    win = ((win << 1) | b) & mask
  return out


# ------------------------------------------------------------------ counting

def true_counts(nmax):
  """counts[n][L] = number of n-bit sequences of linear complexity L, 0 <= n <= nmax.

  Dynamic programming over the rule: a sequence of complexity L keeps it when
  bit n-1 agrees with the LFSR's prediction (one of the two values); otherwise
  the complexity becomes max(L, n - L).
  """
  counts = [[1]]
  for n in range(1, nmax + 1):
    prev = counts[-1]
    cur = [0] * (n + 1)
    N = n - 1       # position of the new bit
    for L, c in enumerate(prev):
      if not c:
        continue
      cur[L] += c                     # no discrepancy
      if 2 * L <= N:
        cur[N + 1 - L] += c           # discrepancy with length change
      else:
        cur[L] += c                   # discrepancy without length change
    counts.append(cur)
  return counts


def iter_true_counts(nmax):
  """Yields (n, counts_row) for n = 0..nmax without keeping earlier rows."""
  prev = [1]
  yield 0, prev
  for n in range(1, nmax + 1):
    cur = [0] * (n + 1)
    N = n - 1
    for L, c in enumerate(prev):
      if not c:
        continue
      cur[L] += c
      if 2 * L <= N:
        cur[N + 1 - L] += c
      else:
        cur[L] += c
    yield n, cur
    prev = cur


def brute_histogram(n):
  """Histogram of the linear complexity over all 2^n sequences of length n."""
  hist = [0] * (n + 1)
  # explicit stack of (C, B, L, m, W, depth)
  stack = [(1, 1, 0, -1, 0, 0)]
  while stack:
    C, B, L, m, W, N = stack.pop()
    if N == n:
      hist[L] += 1
      continue
    pred = ((C >> 1) & W).bit_count() & 1
    # bit == pred: nothing changes
    stack.append((C, B, L, m, (W << 1) | pred, N + 1))
    bit = pred ^ 1
    if 2 * L <= N:
      stack.append((C ^ (B << (N - m)), C, N + 1 - L, N, (W << 1) | bit, N + 1))
    else:
      stack.append((C ^ (B << (N - m)), B, L, m, (W << 1) | bit, N + 1))
  return hist
