"""Independent model of the decision rule of the randomness suite (property C13).

Nothing here imports paranoid_crypto, numpy or scipy; only `math`, `fractions` and
`mpmath` are used.

Fisher's method: for p-values p_1..p_k the statistic X = -2 * sum(ln p_i) has, under the
null hypothesis, a chi-square distribution with 2k degrees of freedom; the combined
p-value is its survival function at X. For an even number 2k of degrees of freedom the
survival function has the closed form (Erlang distribution, rate 1, s = X / 2)

    Q(k, s) = exp(-s) * sum_{j < k} s^j / j!

which is evaluated here with 60 significant digits. Special cases are exact:
  * k = 1: Q(1, -ln p) = p, the value itself (no rounding at all)
  * some p_i = 0: the combination is 0
  * all p_i = 1: the combination is 1

Decision rule (docs/randomness_tests.md "Repeating tests", TestStructure docstring):
  FAILED     iff combination < fail level
  PASSED     iff not FAILED and combination > combination of k copies of the repeat level
  UNDECIDED  otherwise
A structure is finished after a run iff no sub-test seen so far (in any run) is UNDECIDED
and the number of runs is at least min_repetitions, or the run had insufficient data.
"""

import functools
import math
from fractions import Fraction

import mpmath

DPS = 60

FAILED = 'FAILED'
PASSED = 'PASSED'
UNDECIDED = 'UNDECIDED'


class Combined:
  """A combined p-value: exact (Fraction) or a 60-digit value with an error band."""

  __slots__ = ('exact', 'value', 'k', 's')

  def __init__(self, exact, value, k, s):
    self.exact = exact    # True: `value` is a Fraction and exact
    self.value = value    # Fraction or mpmath.mpf
    self.k = k
    self.s = s            # float(-sum ln p), 0.0 for exact values

  def as_float(self):
    return float(self.value)

  def rel_tol(self):
    """Relative error allowed for a double-precision evaluation of Q(k, s).

    s is a sum of k correctly rounded logarithms (error <= (k + 1) ulp of s); around s the
    logarithmic derivative of Q is at most 1, so the relative error of Q caused by s is at
    most (k + 1) * s * 2^-52; a double-precision incomplete gamma function adds an error
    of the same form (the prefactor s^k e^-s / Gamma(k) is computed as an exponential of a
    number of size about s + k ln s). A factor 8 of slack on top of that, and a floor.
    """
    if self.exact:
      return 0.0
    return 1e-12 + 8 * (self.k + 4) * (self.s + 1.0) * 2.0 ** -52


def exact_fraction(p):
  """The exact rational value of an int or a float."""
  return Fraction(p)


def erlang_sf(k, s):
  """Q(k, s) for integer k >= 1 and s >= 0 (mpmath value, DPS digits)."""
  with mpmath.workdps(DPS):
    s = mpmath.mpf(s)
    term = mpmath.mpf(1)
    acc = mpmath.mpf(1)
    for j in range(1, k):
      term = term * s / j
      acc += term
    return mpmath.exp(-s) * acc


def chi2_sf_even(dof, x):
  """Survival function of the chi-square distribution with an even number of dof."""
  if dof % 2 or dof < 2:
    raise ValueError('even dof >= 2 expected')
  with mpmath.workdps(DPS):
    return erlang_sf(dof // 2, mpmath.mpf(x) / 2)


def combine(pvalues):
  """Fisher's combination of a non-empty list of p-values in [0, 1]."""
  k = len(pvalues)
  if k == 0:
    raise ValueError('empty')
  for p in pvalues:
    if not 0 <= p <= 1:
      raise ValueError('p-value outside [0, 1]: %r' % (p,))
  if k == 1:
    return Combined(True, exact_fraction(pvalues[0]), 1, 0.0)
  if any(p == 0 for p in pvalues):
    return Combined(True, Fraction(0), k, 0.0)
  if all(p == 1 for p in pvalues):
    return Combined(True, Fraction(1), k, 0.0)
  with mpmath.workdps(DPS):
    x = mpmath.mpf(0)
    for p in pvalues:
      x -= 2 * mpmath.log(mpmath.mpf(p))
    return Combined(False, chi2_sf_even(2 * k, x), k, float(x / 2))


TINY = 1e-290   # below this a double-precision evaluation may underflow / lose precision


def compare(a, b):
  """Sign of a - b for two Combined values, or None when a double-precision
  implementation cannot be expected to decide it (within the error band of either side,
  or both sides in the underflow range)."""
  if a.exact and b.exact:
    return (a.value > b.value) - (a.value < b.value)
  with mpmath.workdps(DPS):
    av = mpmath.mpf(a.value.numerator) / a.value.denominator if a.exact else a.value
    bv = mpmath.mpf(b.value.numerator) / b.value.denominator if b.exact else b.value
    big = max(av, bv)
    if big < TINY:
      return None
    tol = max(a.rel_tol(), b.rel_tol())
    if abs(av - bv) <= tol * big:
      return None
    return 1 if av > bv else -1


class Structure:
  """Model of one test with its accumulated evidence."""

  def __init__(self, fail, repeat, min_repetitions=1):
    self.fail = Combined(True, exact_fraction(fail), 1, 0.0)
    self.repeat = repeat
    self.min_repetitions = min_repetitions
    self.p = {}          # name -> list of p-values (insertion ordered)
    self.combined = {}   # name -> Combined
    self.state = {}      # name -> FAILED / PASSED / UNDECIDED / None (not decidable)
    self.runs = 0
    self.finished = False
    self.ties = []       # (name, 'fail' | 'repeat') exact ties seen
    self.ambiguous = 0

  def classify(self, name):
    """State of a sub-test from its p-values; None when too close to a threshold."""
    pv = self.p[name]
    c = combine(pv)
    self.combined[name] = c
    f = compare(c, self.fail)
    if f is None:
      return None
    if f == 0:
      self.ties.append((name, 'fail'))
    if f < 0:
      return FAILED
    r = compare(c, combine([self.repeat] * len(pv)))
    if r is None:
      return None
    if r == 0:
      self.ties.append((name, 'repeat'))
    return PASSED if r > 0 else UNDECIDED

  def run(self, result):
    """Feeds the result of one run: None = insufficient data, else [(name, p), ...].

    Returns the expected return value of Run (True / False) or None if it depends on a
    comparison that is not decidable; names whose state is not decidable are returned by
    `undecidable()` and can be resolved with `adopt`.
    """
    self.runs += 1
    if result is None:
      self.finished = True
      return True
    for name, p in result:
      self.p.setdefault(name, []).append(p)
      self.state[name] = self.classify(name)
      if self.state[name] is None:
        self.ambiguous += 1
    return self.refresh()

  def refresh(self):
    if self.runs < self.min_repetitions or any(s == UNDECIDED for s in self.state.values()):
      self.finished = False
    elif any(s is None for s in self.state.values()):
      self.finished = None
    else:
      self.finished = True
    return self.finished

  def undecidable(self):
    return [n for n, s in self.state.items() if s is None]

  def adopt(self, name, state):
    self.state[name] = state

  def failed(self):
    """True / False, or None when it hinges on an undecidable comparison."""
    if any(s == FAILED for s in self.state.values()):
      return True
    if any(s is None for s in self.state.values()):
      return None
    return False


@functools.lru_cache(maxsize=None)
def binomial_upper_tail(n, c, alpha):
  """P[Bin(n, alpha) >= c] (sum of positive double-precision terms, none underflows for
  n <= 1024 and alpha >= 0.01)."""
  if c <= 0:
    return 1.0
  return math.fsum(math.comb(n, j) * alpha ** j * (1 - alpha) ** (n - j)
                   for j in range(c, n + 1))
