"""Independent bit-list transcriptions of NIST SP 800-22 rev. 1a, sections 2.1 - 2.15.

Only `math`, `cmath`, `fractions` and `mpmath` are used (igamc = mpmath.gammainc
regularised). Nothing here imports paranoid_crypto, numpy or scipy.

Conventions
* a bit string is a Python list `b` with b[0] = epsilon_1 (first bit in time order);
  `bitlist(bits, n)` converts the library's (integer, length) representation, in which
  bit i of the sequence is (bits >> i) & 1.
* every test returns the p-value(s) the standard's formula assigns; optional `info`
  dictionaries are filled with the intermediate statistics (bin counts etc.) so that
  callers can label cases.
* where docs/randomness_tests.md documents a deviation from the standard it is
  implemented as documented (exact rank distribution, exact overlapping-template
  distribution, Serial/ApproximateEntropy for a range of m, second linear-complexity
  p-value, merged random walk).
* templates of the non-overlapping test are integers t with pattern t_j = (t >> j) & 1 for
  j = 0..m-1 in time order (the convention of upstream's tests: BitString("001")).
"""

import cmath
import functools
import math
from fractions import Fraction

import mpmath


class Insufficient(Exception):
  """The standard's (or the documented) minimum input size is not met."""


# ---------------------------------------------------------------- basics

def bitlist(bits, n):
  if bits < 0 or bits >> n:
    raise ValueError('bits does not fit into n bits')
  if n == 0:
    return []
  s = format(bits, '0%db' % n).encode()
  return [c & 1 for c in reversed(s)]


def to_int(b):
  if not b:
    return 0
  return int(''.join('1' if x else '0' for x in reversed(b)), 2)


@functools.lru_cache(maxsize=1 << 18)
def igamc(a, x):
  """Regularised upper incomplete gamma function Q(a, x) (SP 800-22 section 5.5.3)."""
  if a <= 0 or x < 0:
    raise ValueError('igamc domain: a=%r x=%r' % (a, x))
  if x == 0:
    return 1.0
  with mpmath.workdps(30):
    return float(mpmath.gammainc(a, x, regularized=True))


def erfc(x):
  return math.erfc(x)


def phi(x):
  """Standard normal cdf."""
  return 0.5 * math.erfc(-x / math.sqrt(2.0))


def chi_square_p(counts, probs, dof):
  """igamc(dof/2, chi^2/2) with chi^2 = sum (v_i - N pi_i)^2 / (N pi_i)."""
  total = sum(counts)
  chi = math.fsum((v - total * p) ** 2 / (total * p) for v, p in zip(counts, probs))
  return igamc(dof / 2.0, chi / 2.0), chi


# ---------------------------------------------------------------- 2.1 Frequency

def frequency(b):
  n = len(b)
  s = sum(2 * x - 1 for x in b)
  return math.erfc(abs(s) / math.sqrt(n) / math.sqrt(2.0))


# ---------------------------------------------------------------- 2.2 Block frequency

def block_frequency(b, m, info=None):
  n = len(b)
  nblocks = n // m
  acc = Fraction(0)
  for i in range(nblocks):
    ones = sum(b[i * m:(i + 1) * m])
    acc += (Fraction(ones, m) - Fraction(1, 2)) ** 2
  chi = 4 * m * acc
  if info is not None:
    info['N'] = nblocks
    info['chi'] = float(chi)
  return igamc(nblocks / 2.0, float(chi) / 2.0)


def block_frequency_admissible(n, m):
  """Section 2.2.7: n >= 100, M >= 20, M > 0.01 n, N < 100."""
  return n >= 100 and 20 <= m <= n and 100 * m > n and n // m < 100


# ---------------------------------------------------------------- 2.3 Runs

def runs(b, info=None):
  """Section 2.3.4 step (3)-(4) / section 3.3.

  Constant strings: pi (1 - pi) = 0 and V = 1, the argument of erfc is +infinity and
  the p-value is the limit 0.0 (this is also what the pre-test of step (2) assigns).
  """
  n = len(b)
  ones = sum(b)
  v = 1 + sum(1 for i in range(n - 1) if b[i] != b[i + 1])
  if info is not None:
    info['V'] = v
    info['pretest_fails'] = abs(Fraction(ones, n) - Fraction(1, 2)) ** 2 * n >= 4
  if ones == 0 or ones == n:
    return 0.0
  pi = ones / n
  pp = pi * (1 - pi)
  return math.erfc(abs(v - 2 * n * pp) / (2 * math.sqrt(2 * n) * pp))


# ---------------------------------------------------------------- 2.4 Longest run of ones

# (minimum n, M, lowest class, highest class, printed pi) - sections 2.4.2, 2.4.4, 3.4
LONGEST_RUN_PARAMS = [
    (128, 8, 1, 4, [0.2148, 0.3672, 0.2305, 0.1875]),
    (6272, 128, 4, 9, [0.1174, 0.2430, 0.2493, 0.1752, 0.1027, 0.1124]),
    (750000, 10000, 10, 16, [0.0882, 0.2092, 0.2483, 0.1933, 0.1208, 0.0675, 0.0727]),
]


def longest_run_of_ones(block):
  best = cur = 0
  for x in block:
    if x:
      cur += 1
      if cur > best:
        best = cur
    else:
      cur = 0
  return best


def longest_runs(b, info=None):
  n = len(b)
  if n < 128:
    raise Insufficient('n < 128')
  sel = None
  for p in LONGEST_RUN_PARAMS:
    if n >= p[0]:
      sel = p
  _, m, lo, hi, pi = sel
  nblocks = n // m
  v = [0] * (hi - lo + 1)
  for i in range(nblocks):
    r = longest_run_of_ones(b[i * m:(i + 1) * m])
    v[min(max(r, lo), hi) - lo] += 1
  p, chi = chi_square_p(v, pi, hi - lo)
  if info is not None:
    info.update(M=m, v=v, chi=chi)
  return p


def longest_run_distribution_exact(m, lo, hi):
  """Exact class probabilities [P(<=lo), P(lo+1), ..., P(hi-1), P(>=hi)] as Fractions."""
  def count_le(k):
    # number of m-bit strings whose longest run of ones is <= k
    a = [0] * (m + 1)
    for i in range(m + 1):
      if i <= k:
        a[i] = 1 << i
      else:
        # the string starts with j ones (0 <= j <= k) followed by a zero
        a[i] = sum(a[i - j - 1] for j in range(k + 1))
    return a[m]
  cle = {k: count_le(k) for k in range(lo, hi)}
  res = [Fraction(cle[lo], 1 << m)]
  for k in range(lo + 1, hi):
    res.append(Fraction(cle[k] - cle[k - 1], 1 << m))
  res.append(1 - Fraction(cle[hi - 1], 1 << m))
  return res


# ---------------------------------------------------------------- 2.5 Binary matrix rank

def rank_gf2(rows):
  """Rank over GF(2) of a matrix given as a list of integer rows (plain elimination)."""
  rows = [r for r in rows if r]
  rank = 0
  while rows:
    piv = rows.pop()
    rank += 1
    low = piv & -piv
    rows = [r ^ piv if r & low else r for r in rows]
    rows = [r for r in rows if r]
  return rank


def rank_probability(r, c, j):
  """P(rank of a random r x c binary matrix = j), section 3.5, exact."""
  if j < 0 or j > min(r, c):
    return Fraction(0)
  p = Fraction(2) ** (j * (r + c - j) - r * c)
  for i in range(j):
    p *= (1 - Fraction(2) ** (i - r)) * (1 - Fraction(2) ** (i - c)) / (1 - Fraction(2) ** (i - j))
  return p


@functools.lru_cache(maxsize=None)
def rank_distribution_exact(r, c, k):
  """[P(rank = r), P(rank = r-1), ..., P(rank = r-k+1), P(rank <= r-k)] as Fractions."""
  head = [rank_probability(r, c, r - i) for i in range(k)]
  return head + [1 - sum(head)]


def binary_matrix_rank(b, r, c, k, info=None, probs=None):
  n = len(b)
  nmat = n // (r * c)
  if nmat < 1:
    raise Insufficient('no matrix')
  v = [0] * (k + 1)
  for i in range(nmat):
    rows = []
    for j in range(r):
      off = (i * r + j) * c
      rows.append(to_int(b[off:off + c]))
    v[min(k, r - rank_gf2(rows))] += 1
  if probs is None:
    probs = [float(x) for x in rank_distribution_exact(r, c, k)]
  p, chi = chi_square_p(v, probs, k)
  if info is not None:
    info.update(v=v, chi=chi, N=nmat)
  return p


def asymptotic_corank_probability(k, terms=400):
  """lim n->inf P(an n x n binary matrix has rank n - k), exact product to `terms`."""
  with mpmath.workdps(60):
    p = mpmath.mpf(2) ** (-k * k)
    for i in range(k + 1, terms):
      p *= 1 - mpmath.mpf(2) ** (-i)
    for i in range(1, k + 1):
      p /= 1 - mpmath.mpf(2) ** (-i)
    return p


def asymptotic_rank_sf(kmax):
  """[P(corank >= k) for k = 0..kmax] as mpf (tail sums, no cancellation)."""
  with mpmath.workdps(60):
    probs = [asymptotic_corank_probability(k) for k in range(kmax + 12)]
    return [mpmath.fsum(probs[k:]) for k in range(kmax + 1)]


# ---------------------------------------------------------------- 2.6 Spectral

def _fft_pow2(x, invert=False):
  n = len(x)
  a = list(x)
  j = 0
  for i in range(1, n):
    bit = n >> 1
    while j & bit:
      j ^= bit
      bit >>= 1
    j |= bit
    if i < j:
      a[i], a[j] = a[j], a[i]
  length = 2
  sign = 1.0 if invert else -1.0
  while length <= n:
    half = length >> 1
    w = [cmath.exp(sign * 2j * math.pi * k / length) for k in range(half)]
    for start in range(0, n, length):
      for k in range(half):
        u = a[start + k]
        t = a[start + k + half] * w[k]
        a[start + k] = u + t
        a[start + k + half] = u - t
    length <<= 1
  if invert:
    a = [v / n for v in a]
  return a


def dft(x):
  """Discrete Fourier transform f_j = sum_k x_k exp(-2 pi i k j / n), pure Python."""
  n = len(x)
  if n == 0:
    return []
  if n <= 48:
    w = [cmath.exp(-2j * math.pi * k / n) for k in range(n)]
    return [sum(x[k] * w[(k * j) % n] for k in range(n)) for j in range(n)]
  if n & (n - 1) == 0:
    return _fft_pow2([complex(v) for v in x])
  # Bluestein: k j = (k^2 + j^2 - (j - k)^2) / 2
  size = 1
  while size < 2 * n - 1:
    size <<= 1
  chirp = [cmath.exp(-1j * math.pi * ((k * k) % (2 * n)) / n) for k in range(n)]
  a = [x[k] * chirp[k] for k in range(n)] + [0j] * (size - n)
  bb = [0j] * size
  for k in range(n):
    c = chirp[k].conjugate()
    bb[k] = c
    if k:
      bb[size - k] = c
  fa = _fft_pow2(a)
  fb = _fft_pow2(bb)
  conv = _fft_pow2([u * v for u, v in zip(fa, fb)], invert=True)
  return [conv[j] * chirp[j] for j in range(n)]


def spectral_from_magnitudes(n, mags, info=None, guard=1e-9):
  """Section 2.6.4 from the moduli of the first floor(n/2) DFT values.

  Returns the list of admissible p-values: for odd n the standard's N0 = .95 n / 2 and
  the number of peaks considered, floor(n/2), do not fit; N0 = .95 floor(n/2) is
  accepted as well. info['near'] is set when a modulus lies within `guard` (relative)
  of the threshold T, in which case the count N1 is not reliable.
  """
  t = math.sqrt(math.log(1 / 0.05) * n)
  half = n // 2
  mags = list(mags)[:half]
  n1 = sum(1 for v in mags if v < t)
  near = any(abs(v - t) <= guard * t for v in mags)
  res = []
  for n0 in ([0.95 * n / 2.0] if n % 2 == 0 else [0.95 * half, 0.95 * n / 2.0]):
    d = (n1 - n0) / math.sqrt(n * 0.95 * 0.05 / 4.0)
    res.append(math.erfc(abs(d) / math.sqrt(2.0)))
  if info is not None:
    info.update(N1=n1, T=t, near=near)
  return res


def spectral(b, info=None):
  x = [2 * v - 1 for v in b]
  f = dft(x)
  return spectral_from_magnitudes(len(b), [abs(v) for v in f[:len(b) // 2]], info)


# ---------------------------------------------------------------- 2.7 Non-overlapping templates

def is_aperiodic(t, m):
  """True if the m-bit template cannot overlap a shifted copy of itself."""
  pat = [(t >> j) & 1 for j in range(m)]
  for shift in range(1, m):
    if pat[shift:] == pat[:m - shift]:
      return False
  return True


def aperiodic_templates(m):
  return [t for t in range(1 << m) if is_aperiodic(t, m)]


def _window_positions(block, m, wanted):
  """positions (ascending) at which each wanted template value occurs in block."""
  pos = {t: [] for t in wanted}
  n = len(block)
  if n < m:
    return pos
  w = 0
  for j in range(m):
    w |= block[j] << j
  if w in pos:
    pos[w].append(0)
  for i in range(1, n - m + 1):
    w = (w >> 1) | (block[i + m - 1] << (m - 1))
    if w in pos:
      pos[w].append(i)
  return pos


def non_overlapping_template(b, nblocks, m, templates, info=None, block_len=None):
  """Section 2.7.4. Returns {template: p}. The block length is floor(n / nblocks).

  The scan is the standard's: on a match the window jumps by m, otherwise by one.
  """
  n = len(b)
  blen = n // nblocks if block_len is None else block_len
  counts = {t: [] for t in templates}
  for i in range(nblocks):
    block = b[i * blen:(i + 1) * blen]
    pos = _window_positions(block, m, counts)
    for t in templates:
      free = 0
      w = 0
      for p in pos[t]:
        if p >= free:
          w += 1
          free = p + m
      counts[t].append(w)
  mu = (blen - m + 1) / 2.0 ** m
  var = blen * (1 / 2.0 ** m - (2 * m - 1) / 2.0 ** (2 * m))
  out = {}
  for t in templates:
    chi = math.fsum((w - mu) ** 2 / var for w in counts[t])
    out[t] = igamc(nblocks / 2.0, chi / 2.0)
  if info is not None:
    info.update(M=blen, W=counts)
  return out


# ---------------------------------------------------------------- 2.8 Overlapping templates

@functools.lru_cache(maxsize=None)
def overlapping_distribution_exact(block_len, m, k):
  """[P(0 occurrences), ..., P(k-1), P(>= k)] of the all-ones m-bit template among the
  block_len - m + 1 (overlapping) windows of a uniformly random block. Exact counting."""
  # state: (occurrences capped at k, trailing ones capped at m - 1) -> number of strings
  state = {(0, 0): 1}
  for _ in range(block_len):
    nxt = {}
    for (occ, run), cnt in state.items():
      key = (occ, 0)
      nxt[key] = nxt.get(key, 0) + cnt
      if run == m - 1:
        key = (min(k, occ + 1), m - 1)
      else:
        key = (occ, run + 1)
      nxt[key] = nxt.get(key, 0) + cnt
    state = nxt
  tot = [0] * (k + 1)
  for (occ, _), cnt in state.items():
    tot[occ] += cnt
  return [Fraction(c, 1 << block_len) for c in tot]


def overlapping_template(b, m, block_len, k=5, info=None):
  n = len(b)
  nblocks = n // block_len
  if nblocks < 1:
    raise Insufficient('no block')
  v = [0] * (k + 1)
  for i in range(nblocks):
    block = b[i * block_len:(i + 1) * block_len]
    occ = 0
    run = 0
    for x in block:
      if x:
        run += 1
        if run >= m:
          occ += 1
      else:
        run = 0
    v[min(k, occ)] += 1
  pi = [float(x) for x in overlapping_distribution_exact(block_len, m, k)]
  p, chi = chi_square_p(v, pi, k)
  if info is not None:
    info.update(v=v, chi=chi, N=nblocks)
  return p


# ---------------------------------------------------------------- 2.9 Universal

# expectedValue(L), variance(L): L = 6..16 from section 2.9.4 (5); L = 1..5 from Maurer's
# paper (Table 1), as the library's documentation says.
UNIVERSAL_TABLE = {
    1: (0.7326495, 0.690), 2: (1.5374383, 1.338), 3: (2.4016068, 1.901),
    4: (3.3112247, 2.358), 5: (4.2534266, 2.705), 6: (5.2177052, 2.954),
    7: (6.1962507, 3.125), 8: (7.1836656, 3.238), 9: (8.1764248, 3.311),
    10: (9.1723243, 3.356), 11: (10.170032, 3.384), 12: (11.168765, 3.401),
    13: (12.168070, 3.410), 14: (13.167693, 3.416), 15: (14.167488, 3.419),
    16: (15.167379, 3.421),
}
# printed decimals of expectedValue: 7 for L <= 10, 6 for L >= 11; variance: 3
UNIVERSAL_MIN_N = {6: 387840, 7: 904960, 8: 2068480, 9: 4654080, 10: 10342400,
                   11: 22753280, 12: 49643520, 13: 107560960, 14: 231669760,
                   15: 496435200, 16: 1059061760}


def universal_parameters(n):
  """Section 2.9.7: (L, Q) for a given n."""
  if n < UNIVERSAL_MIN_N[6]:
    raise Insufficient('n < 387840')
  big_l = max(l for l, bound in UNIVERSAL_MIN_N.items() if bound <= n)
  return big_l, 10 * 2 ** big_l


def universal(b, big_l, q, info=None):
  n = len(b)
  k = n // big_l - q
  last = {}
  total = []
  for i in range(1, q + k + 1):
    blk = tuple(b[(i - 1) * big_l:i * big_l])
    if i > q:
      total.append(math.log2(i - last.get(blk, 0)))
    last[blk] = i
  fn = math.fsum(total) / k
  ev, var = UNIVERSAL_TABLE[big_l]
  c = 0.7 - 0.8 / big_l + (4 + 32.0 / big_l) * k ** (-3.0 / big_l) / 15
  sigma = c * math.sqrt(var / k)
  if info is not None:
    info.update(K=k, fn=fn)
  return math.erfc(abs(fn - ev) / (math.sqrt(2.0) * sigma))


def universal_exact_moments(big_l, eps=1e-26):
  """E[log2 A] and Var[log2 A] for A geometric with success probability 2^-L."""
  p = 2.0 ** -big_l
  q = 1.0 - p
  t1 = []
  t2 = []
  w = p
  i = 1
  lim = int(math.log(eps) / math.log(q)) + 2 if big_l > 0 else 2
  while i <= lim:
    l2 = math.log2(i)
    t1.append(w * l2)
    t2.append(w * l2 * l2)
    w *= q
    i += 1
  e = math.fsum(t1)
  return e, math.fsum(t2) - e * e


# ---------------------------------------------------------------- 2.10 Linear complexity

def linear_complexity(s):
  """Length of the shortest LFSR generating the bit list s (Berlekamp-Massey, textbook:
  Menezes et al., Algorithm 6.30, with the discrepancy evaluated on bit sets)."""
  c = 1       # connection polynomial C(D), bit i = coefficient of D^i
  bpoly = 1
  big_l = 0
  m = -1
  window = 0  # bit i = s[N - i]
  for n_, bit in enumerate(s):
    window = (window << 1) | bit
    d = (c & window).bit_count() & 1
    if d:
      t = c
      c ^= bpoly << (n_ - m)
      if 2 * big_l <= n_:
        big_l = n_ + 1 - big_l
        m = n_
        bpoly = t
  return big_l


def linear_complexity_count(n, big_l):
  """Number of n-bit sequences of linear complexity L (Rueppel)."""
  if big_l < 0 or big_l > n:
    return 0
  if big_l == 0:
    return 1
  return 1 << min(2 * big_l - 1, 2 * n - 2 * big_l)


LC_PI_EXACT = [Fraction(1, 96), Fraction(1, 32), Fraction(1, 8), Fraction(1, 2),
               Fraction(1, 4), Fraction(1, 16), Fraction(1, 48)]
LC_PI_PRINTED = [0.010417, 0.03125, 0.125, 0.5, 0.25, 0.0625, 0.020833]


def linear_complexity_test(blocks, m, info=None):
  """Section 2.10.4 on a list of m-bit blocks (bit lists).

  Returns ([admissible first p-values], second p-value). The first p-value is evaluated
  with the exact probabilities of section 3.10 and with their 6-digit printed form of
  section 2.10.4 (6); the second is the binomial tail documented by the library.
  """
  nblocks = len(blocks)
  lcs = [linear_complexity(blk) for blk in blocks]
  mu = (Fraction(m, 2) + Fraction(9 + (-1) ** (m + 1), 36)
        - (Fraction(m, 3) + Fraction(2, 9)) / Fraction(2) ** m)
  v = [0] * 7
  for big_l in lcs:
    t = (-1) ** m * (big_l - mu) + Fraction(2, 9)
    if t <= Fraction(-5, 2):
      v[0] += 1
    elif t <= Fraction(-3, 2):
      v[1] += 1
    elif t <= Fraction(-1, 2):
      v[2] += 1
    elif t <= Fraction(1, 2):
      v[3] += 1
    elif t <= Fraction(3, 2):
      v[4] += 1
    elif t <= Fraction(5, 2):
      v[5] += 1
    else:
      v[6] += 1
  p_exact, chi = chi_square_p(v, [float(x) for x in LC_PI_EXACT], 6)
  p_printed, _ = chi_square_p(v, LC_PI_PRINTED, 6)
  # second p-value: -log2 of the exact probability of each observed complexity
  q = 0
  for big_l in lcs:
    cnt = linear_complexity_count(m, big_l)
    q += m - (cnt.bit_length() - 1)
  p2 = binomial_cdf_half(nblocks - 1, q - 1)
  if info is not None:
    info.update(v=v, chi=chi, lcs=lcs, q=q)
  return [p_exact, p_printed], p2


def binomial_cdf_half(k, trials):
  """P(Binomial(trials, 1/2) <= k), exact."""
  if k < 0:
    return 0.0
  if k >= trials:
    return 1.0
  acc = 0
  term = 1
  for i in range(k + 1):
    acc += term
    term = term * (trials - i) // (i + 1)
  with mpmath.workdps(40):
    return float(mpmath.mpf(acc) / mpmath.mpf(2) ** trials)


def scatter_test(b, step, max_block=None, info=None):
  """LinearComplexityScatter as documented: `step` interleaved sub-sequences."""
  n = len(b)
  if max_block is not None and step * max_block < n:
    n = step * max_block
    b = b[:n]
  q = 0
  lcs = []
  for i in range(step):
    sub = b[i::step]
    big_l = linear_complexity(sub)
    lcs.append(big_l)
    cnt = linear_complexity_count(len(sub), big_l)
    q += len(sub) - (cnt.bit_length() - 1)
  if info is not None:
    info.update(lcs=lcs, q=q)
  return binomial_cdf_half(step - 1, q - 1)


# ---------------------------------------------------------------- 2.11 / 2.12

def cyclic_counts(b, mmax):
  """{m: list of 2^m counts of the cyclic m-bit windows}, m = 0..mmax.

  The window starting at i has value sum b[(i + j) mod n] << j. Lower orders are
  obtained by dropping the last bit of the window (same start positions).
  """
  n = len(b)
  res = {}
  if mmax == 0:
    return {0: [n]}
  cnt = [0] * (1 << mmax)
  w = 0
  for j in range(mmax):
    w |= b[j % n] << j
  cnt[w] += 1
  top = mmax - 1
  for i in range(1, n):
    w = (w >> 1) | (b[(i + top) % n] << top)
    cnt[w] += 1
  res[mmax] = cnt
  for m in range(mmax - 1, -1, -1):
    prev = res[m + 1]
    half = 1 << m
    res[m] = [prev[v] + prev[v + half] for v in range(half)]
  return res


def psi_squared(counts, n, m):
  if m <= 0:
    return Fraction(0)
  return Fraction((1 << m) * sum(v * v for v in counts[m]), n) - n


def serial(b, mmax, info=None):
  """Section 2.11.4 for every m = 2..mmax: {m: (p1, p2)}."""
  n = len(b)
  counts = cyclic_counts(b, mmax)
  psi = {m: psi_squared(counts, n, m) for m in range(0, mmax + 1)}
  out = {}
  for m in range(2, mmax + 1):
    d1 = psi[m] - psi[m - 1]
    d2 = psi[m] - 2 * psi[m - 1] + psi[m - 2]
    if d1 < 0 or d2 < 0:
      raise ArithmeticError('negative generalized serial statistic')
    out[m] = (igamc(2.0 ** (m - 2), float(d1) / 2.0), igamc(2.0 ** (m - 3), float(d2) / 2.0))
  if info is not None:
    info['psi'] = {m: float(v) for m, v in psi.items()}
    info['zero'] = {m: (psi[m] == psi[m - 1], psi[m] - 2 * psi[m - 1] + psi[m - 2] == 0)
                    for m in range(2, mmax + 1)}
  return out


def serial_max_m(n):
  """Largest m with m < floor(log2 n) - 2 (section 2.11.7), at least 2."""
  return max(2, (n.bit_length() - 1) - 3)


def approximate_entropy(b, mmax, info=None):
  """Section 2.12.4 for every m = 2..mmax: {m: p}."""
  n = len(b)
  counts = cyclic_counts(b, mmax + 1)
  phi_ = {}
  for m in range(2, mmax + 2):
    phi_[m] = math.fsum(v / n * math.log(v / n) for v in counts[m] if v)
  out = {}
  chis = {}
  for m in range(2, mmax + 1):
    apen = phi_[m] - phi_[m + 1]
    chi = 2.0 * n * (math.log(2.0) - apen)
    chis[m] = chi
    if chi < 0:
      # ApEn(m) <= ln 2 mathematically; a negative value is rounding noise
      chi = 0.0
    out[m] = igamc(2.0 ** (m - 1), chi / 2.0)
  if info is not None:
    info['chi'] = chis
    # ApEn(m) = ln 2 exactly iff every m-bit pattern is continued by 0 and by 1 equally often
    info['zero'] = {}
    for m in range(2, mmax + 1):
      hi = counts[m + 1]
      half = 1 << m
      info['zero'][m] = all(hi[v] == hi[v + half] for v in range(half))
  return out


def approximate_entropy_max_m(n):
  """Largest m with m < floor(log2 n) - 5 (section 2.12.7), at least 2."""
  return max(2, (n.bit_length() - 1) - 6)


# ---------------------------------------------------------------- 2.13 - 2.15 random walk

def cusum_p_value(n, z, widen=2):
  """Section 2.13.4 (4); the summation limits are widened by `widen` terms."""
  sq = math.sqrt(n)
  lo1 = math.floor((-n / z + 1) / 4.0) - widen
  hi1 = math.ceil((n / z - 1) / 4.0) + widen
  lo2 = math.floor((-n / z - 3) / 4.0) - widen
  s1 = math.fsum(phi((4 * k + 1) * z / sq) - phi((4 * k - 1) * z / sq) for k in range(lo1, hi1 + 1))
  s2 = math.fsum(phi((4 * k + 3) * z / sq) - phi((4 * k + 1) * z / sq) for k in range(lo2, hi1 + 1))
  return 1.0 - s1 + s2


def partial_sums(b):
  s = 0
  out = []
  for x in b:
    s += 2 * x - 1
    out.append(s)
  return out


def cusum_statistics(b):
  """(z forward, z reverse): largest |partial sum| from the front / from the back."""
  ps = partial_sums(b)
  zf = max(abs(v) for v in ps)
  s = 0
  zb = 0
  for x in reversed(b):
    s += 2 * x - 1
    if abs(s) > zb:
      zb = abs(s)
  return zf, zb


def excursion_probabilities(x, max_cnt=5):
  """pi_k(x), k = 0..max_cnt (last = 'max_cnt or more'), section 3.14, as Fractions.

  Derived from the gambler's ruin probabilities, which are obtained by solving the
  harmonic equations h(i) = (h(i-1) + h(i+1)) / 2 exactly rather than from the closed form.
  """
  x = abs(x)
  # h = P(reach x before 0 | start at 1): h(i) linear with h(0) = 0, h(x) = 1
  # solve by elimination: unknowns h(1..x-1)
  if x == 1:
    h1 = Fraction(1)
    back = Fraction(0)
  else:
    # tridiagonal system -h(i-1) + 2 h(i) - h(i+1) = 0, boundary h(0)=0, h(x)=1
    size = x - 1
    diag = [Fraction(2)] * size
    rhs = [Fraction(0)] * size
    rhs[-1] = Fraction(1)
    for i in range(1, size):
      f = Fraction(-1) / diag[i - 1]
      diag[i] = diag[i] + f
      rhs[i] = rhs[i] - f * rhs[i - 1]
    h = [Fraction(0)] * size
    h[-1] = rhs[-1] / diag[-1]
    for i in range(size - 2, -1, -1):
      h[i] = (rhs[i] + h[i + 1]) / diag[i]
    h1 = h[0]
    back = h[-1]  # P(reach x before 0 | start at x - 1)
  reach = Fraction(1, 2) * h1             # P(cycle visits x at least once)
  again = Fraction(1, 2) + Fraction(1, 2) * back   # P(another visit before returning to 0)
  pi = [1 - reach]
  for k in range(1, max_cnt):
    pi.append(reach * again ** (k - 1) * (1 - again))
  pi.append(reach * again ** (max_cnt - 1))
  return pi


def random_walk(b, max_state=4, max_cnt=5, max_state_variant=9, info=None):
  """Sections 2.13, 2.14, 2.15 merged as documented.

  Returns {name: [admissible p-values]}. When the walk ends in 0 the standard's text
  (S' = 0, S_1..S_n, 0; J = zeros after the start) counts the appended zero as a
  further, empty cycle whereas its reference code does not; both are admissible.
  """
  n = len(b)
  ps = partial_sums(b)
  zf, zb = cusum_statistics(b)
  out = {
      'cumulative sums forward': [cusum_p_value(n, zf)],
      'cumulative sums reverse': [cusum_p_value(n, zb)],
  }
  cycles = []
  cur = {}
  for s in ps:
    if s == 0:
      cycles.append(cur)
      cur = {}
    else:
      cur[s] = cur.get(s, 0) + 1
  ends_in_zero = bool(ps) and ps[-1] == 0
  if not ends_in_zero:
    cycles.append(cur)
  variants = [(len(cycles), 0)]
  if ends_in_zero:
    variants.append((len(cycles) + 1, 1))
  total = {}
  for cyc in cycles:
    for s, c in cyc.items():
      total[s] = total.get(s, 0) + c
  if info is not None:
    info.update(J=len(cycles), ends_in_zero=ends_in_zero, zf=zf, zb=zb, S_n=ps[-1] if ps else 0)
  produced = [j >= 500 for j, _ in variants]
  if info is not None:
    info['excursion_admissible'] = produced
  for x in range(-max_state, max_state + 1):
    if x == 0:
      continue
    pi = [float(v) for v in excursion_probabilities(x, max_cnt)]
    vals = []
    for j, empty in variants:
      if j < 500:
        continue
      v = [0] * (max_cnt + 1)
      for cyc in cycles:
        v[min(max_cnt, cyc.get(x, 0))] += 1
      v[0] += empty
      chi = math.fsum((v[k] - j * pi[k]) ** 2 / (j * pi[k]) for k in range(max_cnt + 1))
      vals.append(igamc(max_cnt / 2.0, chi / 2.0))
    if vals:
      out['random excursions %d' % x] = vals
  for x in range(-max_state_variant, max_state_variant + 1):
    if x == 0:
      continue
    vals = []
    for j, _ in variants:
      if j < 500:
        continue
      xi = total.get(x, 0)
      vals.append(math.erfc(abs(xi - j) / math.sqrt(2.0 * j * (4 * abs(x) - 2))))
    if vals:
      out['random excursions variant %d' % x] = vals
  return out
