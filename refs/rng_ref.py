"""Independent reference models for two of the bundled generators (property C20).

Nothing here imports paranoid_crypto.

* java_biginteger(num_bits, seed): a line-by-line transcription of the OpenJDK sources of
  java.util.Random (setSeed/scramble, next(int), nextInt(), nextBytes(byte[])) and of the
  constructor java.math.BigInteger(int numBits, Random rnd) (randomBits + magnitude), using
  Java's fixed-width signed arithmetic. It is validated in selftest() against outputs of a
  real JVM (the vectors of rng_test.testJavaRandom: new BigInteger(17*i+1, new
  Random(0x123456789ABDL))) and against the well known first outputs of new Random(0) and
  new Random(42).
* trunc_lcg_bytes / trunc_lcg(size, n, seed): the recurrence documented in the docstring of
  TruncLcgRand (state of 2*size bits, state <- a*state + 1 mod 2^(2 size), output = upper
  half, emitted as ceil(size/8) little-endian bytes per step, multipliers from L'Ecuyer's
  table 4 / Steele-Vigna as listed there), truncated to n bits = the low n bits of the
  little-endian byte stream. trunc_lcg_first_byte_masked() is the deviation recorded as
  finding F5 (mask applied to the first instead of the last byte of the buffer).
"""

# ----------------------------------------------------------------------------- Java

_M64 = (1 << 64) - 1


def _to_long(x):
  """Java (long) conversion: wrap to signed 64 bits."""
  x &= _M64
  return x - (1 << 64) if x >> 63 else x


def _to_int(x):
  """Java (int) conversion: wrap to signed 32 bits."""
  x &= 0xFFFFFFFF
  return x - (1 << 32) if x >> 31 else x


def _to_byte(x):
  """Java (byte) conversion: wrap to signed 8 bits."""
  x &= 0xFF
  return x - 256 if x >> 7 else x


class JavaUtilRandom:
  """java.util.Random (OpenJDK): 48-bit LCG."""

  MULTIPLIER = 0x5DEECE66D
  ADDEND = 0xB
  MASK = (1 << 48) - 1

  def __init__(self, seed):
    # public Random(long seed) { this.seed = new AtomicLong(initialScramble(seed)); }
    # initialScramble(seed) = (seed ^ multiplier) & mask
    seed = _to_long(seed)
    self.seed = (seed ^ self.MULTIPLIER) & self.MASK

  def next(self, bits):
    # nextseed = (oldseed * multiplier + addend) & mask;
    # return (int)(nextseed >>> (48 - bits));
    self.seed = _to_long(self.seed * self.MULTIPLIER + self.ADDEND) & self.MASK
    return _to_int(self.seed >> (48 - bits))

  def next_int(self):
    return self.next(32)

  def next_bytes(self, length):
    # for (int i = 0, len = bytes.length; i < len; )
    #   for (int rnd = nextInt(), n = Math.min(len - i, Integer.SIZE/Byte.SIZE); n-- > 0; rnd >>= Byte.SIZE)
    #     bytes[i++] = (byte)rnd;
    out = [0] * length
    i = 0
    while i < length:
      rnd = self.next_int()
      n = min(length - i, 4)
      while n > 0:
        n -= 1
        out[i] = _to_byte(rnd)
        i += 1
        rnd >>= 8          # arithmetic shift on a signed int, as in Java
    return out


def java_biginteger(num_bits, seed):
  """new BigInteger(numBits, new java.util.Random(seed)) as a Python int."""
  if num_bits < 0:
    raise ValueError('numBits must be non-negative')
  rnd = JavaUtilRandom(seed)
  # randomBits(numBits, rnd)
  num_bytes = (num_bits + 7) // 8
  random_bits = [0] * num_bytes
  if num_bytes > 0:
    random_bits = rnd.next_bytes(num_bytes)
    excess_bits = 8 * num_bytes - num_bits
    random_bits[0] = _to_byte(random_bits[0] & ((1 << (8 - excess_bits)) - 1))
  # BigInteger(1, magnitude): big-endian unsigned magnitude
  val = 0
  for b in random_bits:
    val = (val << 8) | (b & 0xFF)
  return val


# Real JVM output (vectors shipped in paranoid_crypto's rng_test.testJavaRandom):
# new BigInteger(17 * i + 1, new Random(0x123456789ABDL)) for i = 0..14.
JAVA_VECTORS_SEED = 0x123456789ABD
JAVA_VECTORS = [
    0,
    0xFFFB,
    0x4FFFB5CF5,
    0xCFFFB5CF57358,
    0x1CFFFB5CF573588FF9,
    0x1CFFFB5CF573588FF904B2,
    0x1CFFFB5CF573588FF904B225B2,
    0x1CFFFB5CF573588FF904B225B2C3AB,
    0xFFFB5CF573588FF904B225B2C3AB76FAA1,
    0xFFFB5CF573588FF904B225B2C3AB76FAA1DD3C,
    0x4FFFB5CF573588FF904B225B2C3AB76FAA1DD3C916E,
    0xCFFFB5CF573588FF904B225B2C3AB76FAA1DD3C916E80D5,
    0x1CFFFB5CF573588FF904B225B2C3AB76FAA1DD3C916E80D5DC77,
    0x1CFFFB5CF573588FF904B225B2C3AB76FAA1DD3C916E80D5DC770F55,
    0x1CFFFB5CF573588FF904B225B2C3AB76FAA1DD3C916E80D5DC770F555453,
]
# Widely published first nextInt() values of a real JVM.
JAVA_NEXTINT = {0: [-1155484576, -723955400, 1033096058],
                42: [-1170105035, 234785527, -1360544799]}


# ----------------------------------------------------------------------------- truncated LCG

# {state size in bits: multiplier}; L'Ecuyer 1999 table 4, 256 bits: Steele & Vigna 2022
# (as documented in TruncLcgRand.__init__).
LCG_MULTIPLIERS = (
    (32, 2891336453),
    (34, 52765661),
    (35, 22475205),
    (36, 12132445),
    (40, 330169576829),
    (48, 181465474592829),
    (60, 454339144066433781),
    (63, 9219741426499971445),
    (64, 2862933555777941757),
    (96, 75564983892026345434470042133),
    (128, 47026247687942121848144207491837418733),
    (256, 92535799708728563004421432684894516311017097014017594320373447727772634342485),
)
LCG_INCREMENT = 1


def lcg_multiplier(output_size):
  """First listed multiplier whose state size is at least 2*output_size (else the 256-bit one)."""
  for state_size, mult in LCG_MULTIPLIERS:
    if state_size >= 2 * output_size:
      return mult
  return LCG_MULTIPLIERS[-1][1]


def trunc_lcg_bytes(output_size, nbytes, seed):
  """The first nbytes bytes of the documented output stream."""
  a = lcg_multiplier(output_size)
  modulus = 1 << (2 * output_size)
  per_step = (output_size + 7) // 8
  state = seed
  stream = bytearray()
  while len(stream) < nbytes:
    state = (a * state + LCG_INCREMENT) % modulus
    upper_half = state >> output_size
    stream += upper_half.to_bytes(per_step, 'little')
  return bytes(stream[:nbytes])


def trunc_lcg(output_size, n, seed):
  """n bits of the stream: the low n bits of the little-endian byte stream."""
  stream = trunc_lcg_bytes(output_size, (n + 7) // 8, seed)
  return int.from_bytes(stream, 'little') & ((1 << n) - 1)


def trunc_lcg_first_byte_masked(output_size, n, seed):
  """Finding F5: the partial-byte mask lands on the first (least significant) byte."""
  stream = bytearray(trunc_lcg_bytes(output_size, (n + 7) // 8, seed))
  if n % 8 != 0 and stream:
    stream[0] &= (1 << (n % 8)) - 1
  return int.from_bytes(stream, 'little')


# Values pinned by rng_test.testTruncLcg for RandomBits(63, seed=123456): they are 64-bit
# numbers, i.e. the pinned suite records the F5 deviation. Used only to validate the
# transcription of the recurrence and of the multiplier table.
TRUNCLCG_PINNED_F5 = {
    16: 0x61BD2B29909C8E52,
    20: 0xA3A607D44D04A862,
    28: 0xA5EC19808421926,
    32: 0xCB8975DC5D19C51C,
    64: 0x567EE71B6DE6B032,
    128: 0xCC314CF91CC12913,
}


def selftest():
  """Returns a list of problems with the transcriptions (empty = fine)."""
  bad = []
  for i, want in enumerate(JAVA_VECTORS):
    got = java_biginteger(17 * i + 1, JAVA_VECTORS_SEED)
    if got != want:
      bad.append('java vector %d: %x != %x' % (i, got, want))
  for seed, want in JAVA_NEXTINT.items():
    r = JavaUtilRandom(seed)
    got = [r.next_int() for _ in want]
    if got != want:
      bad.append('java nextInt seed %d: %r != %r' % (seed, got, want))
  for size, want in TRUNCLCG_PINNED_F5.items():
    got = trunc_lcg_first_byte_masked(size, 63, 123456)
    if got != want:
      bad.append('trunclcg%d pinned: %x != %x' % (size, got, want))
    # the byte stream itself: pinned value and reference differ only in bit 7 of the first
    # and of the last byte
    ref = trunc_lcg(size, 63, 123456)
    if (ref ^ want) & ~((0x80 << 56) | 0x80):
      bad.append('trunclcg%d stream differs from pinned outside the mask bits' % size)
  return bad


if __name__ == '__main__':
  problems = selftest()
  print('\n'.join(problems) if problems else 'rng_ref selftest ok')
