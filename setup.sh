#!/bin/bash
# Offline setup: everything comes from files on disk.
cd "$(dirname "$(readlink -f "$0")")" || exit 2
export PIP_NO_INDEX=1
/venv/bin/python -c "import hypothesis" 2>/dev/null || \
  /venv/bin/pip install --no-index --find-links /opt/veriftools/wheels hypothesis || exit 2
/venv/bin/python -c "import mpmath, numpy, scipy, gmpy2, hypothesis; print('deps ok, hypothesis', hypothesis.__version__)" || exit 2
# build the generated modules once (each check rebuilds them when the sources changed)
PYTHONHASHSEED=0 /venv/bin/python -c "
import sys; sys.path.insert(0, '.')
from harness import boot
print('generated modules in', boot.build())
boot.attach()
from paranoid_crypto.lib import paranoid
print('paranoid_crypto imports from', paranoid.__file__)
" || exit 2
